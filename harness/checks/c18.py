"""C18 — input is consumed in bounded chunks, each record once per pass."""
from __future__ import annotations

import warnings

import numpy as np

import catalogs as C
from core import Check

np.seterr(all="ignore")
warnings.filterwarnings("ignore")

THEOREMS = ["Yaw.C18.requests_cover_once", "Yaw.C18.requests_bounded", "Yaw.C18.requests_consecutive",
            "Yaw.C18.probe_and_passes_pinned", "Yaw.C18.file_slices_eq_df", "Yaw.C18.Pq.next_flatten", "Yaw.C18.Pq.run_flatten", "Yaw.C18.Pq.next_length",
            "Yaw.C18.Pq.next_lazy", "Yaw.C18.Pq.parquet_pinned", "Yaw.C18Probe.split_sorted", "Yaw.C18Probe.probe_spec",
            "Yaw.C18Probe.probe_rows", "Yaw.C18Probe.probe_chunking_free", "Yaw.C18Probe.probe_flags"]
RULE = ("instrumented data-frame-like source (logs every slice and every whole-column access) fed to "
        "Catalog.from_dataframe (fresh path and overwrite of an existing cache) for lengths n in {k*c-1, k*c, k*c+1, < c, 1} x chunk sizes 1..n+2 x patch modes "
        "(centres, index column, generated centres = 2 passes); the slice log is compared EXACTLY with the Lean "
        "reader model per pass; FITS/HDF5/Parquet readers: chunk lengths and row content per pass compared with the model, "
        "Parquet row-group requests (shortest prefix covering the rows handed out, each group once per pass). "
        "non-trivial: more than one chunk; distinct by (source, n, c, mode)")


class SpyFrame:
    """stand-in for a pandas DataFrame that records how it is read"""

    def __init__(self, df, log):
        self._df, self._log = df, log

    def __len__(self):
        return len(self._df)

    def __getitem__(self, key):
        if isinstance(key, slice):
            self._log.append(("slice", key.start, key.stop, key.step))
            return self._df[key]
        self._log.append(("column", key))
        return self._df[key]

    def __getattr__(self, name):
        self._log.append(("attr", name))
        return getattr(self._df, name)


def run(prop, tier, seed, replay):
    from yaw import AngularCoordinates, Catalog
    from yaw.catalog.readers import new_filereader

    ck = Check(prop, tier, seed, kernels=["k_reader", "k_createplan", "k_probe"], theorems=THEOREMS + ["Yaw.C18P.steps_spec", "Yaw.C18P.passes_spec", "Yaw.C18P.reader_forwarding", "Yaw.C18P.mode_args", "Yaw.C18P.writer_forwarding", "Yaw.C18P.glue_pinned"], lean_modules=["YawVerif.Props.C18", "YawVerif.Props.C18Plan", "YawVerif.Props.C18Probe"], rule=RULE,
               assumptions=["pandas slicing returns the requested rows; memory-mapped file access below the reader is not observed"])
    ck.translate()
    ck.lean_check()
    rng = ck.rng
    root = C.scratch_root()
    reqs, expect = [], []
    cents = AngularCoordinates(np.array([[0.1, 0.0], [0.3, 0.1], [0.2, -0.2]]))
    n_cases = 36 if tier == "quick" else 300
    try:
        with C.Workers(1):
            for ci in range(n_cases):
                c = rng.choice([1, 2, 3, 5, 8, 16])
                k = rng.choice([1, 2, 3, 4])
                n = max(1, k * c + rng.choice([-1, 0, 1]) if ci % 3 else rng.randrange(1, c + 1))
                mode = ["centers", "name", "num"][ci % 3]
                if mode == "num":
                    n = max(n, 12)
                if mode == "centers":
                    n = max(n, 3)
                nprng = np.random.default_rng(rng.randrange(2 ** 32))
                cc = cents.data[np.arange(n) % 3]
                df = C.dataframe(cc[:, 0] + nprng.uniform(-0.04, 0.04, n), cc[:, 1] + nprng.uniform(-0.04, 0.04, n),
                                 z=nprng.uniform(0.1, 1, n), w=nprng.uniform(1, 2, n), patch=np.arange(n) % 3)
                log = []
                spy = SpyFrame(df, log)
                # the chunk size arrives as whatever integer type the caller computed it with (a numpy scalar just as well)
                c_arg = [c, np.int64(c), c, np.int32(c), np.uint16(c)][ci % 5]
                ck.count(f"chunksize-type={type(c_arg).__name__}")
                kw = dict(ra_name="ra", dec_name="dec", redshift_name="z", weight_name="w", degrees=False,
                          chunksize=c_arg, overwrite=True)
                if mode == "centers":
                    kw["patch_centers"] = cents
                elif mode == "name":
                    kw["patch_name"] = "patch"
                else:
                    kw.update(patch_num=2, probe_size=max(6, n // 2))
                rep = {"n": n, "chunksize": c, "mode": mode}
                if ci % 3 == 1:
                    # stratum: the cache already exists and is overwritten (the source must still be read once per pass)
                    with C.Workers(1):
                        C.make_catalog(root / f"c{ci}", df["ra"].to_numpy(), df["dec"].to_numpy(), patch=np.arange(n) % 3)
                    rep["existing_cache"] = True
                try:
                    Catalog.from_dataframe(root / f"c{ci}", spy, **kw)
                except Exception as e:  # noqa: BLE001
                    if "contains no data" in str(e) or "patch center" in str(e):
                        ck.count("rejected:empty-patch")
                        C.remove(root / f"c{ci}")
                        continue
                    ck.add_violation(f"creation raised {type(e).__name__}: {e}", rep)
                    continue
                finally:
                    C.remove(root / f"c{ci}")
                slices = [(a, b) for kind, *rest in log if kind == "slice" for a, b, st in [rest]]
                whole = [x for x in log if x[0] != "slice"]
                passes = 2 if mode == "num" else 1
                ck.count(f"mode={mode}")
                ck.count(f"chunks={-(-n // c)}")
                ck.case(dict(rep, log=slices[:6]) if len(ck.samples) < 4 else None, ("df", n, c, mode) if n > c else None)
                if whole:
                    ck.add_violation(f"the source was accessed other than by row slices: {whole[:3]}", rep)
                    continue
                if any((b - a) > c for a, b in slices):
                    ck.add_violation(f"a slice larger than the chunk size {c} was requested: {slices}", rep)
                    continue
                reqs.append(f"{ci} requests {n} {c}")
                expect.append((slices, passes, rep))
            # ---- file readers: chunk lengths per pass -------------------------------------------------
            import h5py
            import pyarrow as pa
            import pyarrow.parquet as pq
            from astropy.io import fits
            for fi in range(n_cases // 3):
                c = rng.choice([1, 3, 4, 7])
                n = max(1, rng.choice([1, 2, 3]) * c + rng.choice([-1, 0, 1]))
                if (fi // 3) % 2 == 0:      # stratum, every format: several chunks and a partial last one
                    c = rng.choice([3, 4, 7])
                    n = rng.choice([2, 3]) * c + rng.choice([1, c - 1])
                fmt = ["fits", "hdf5", "parquet"][fi % 3]
                uniform_groups = None
                if fmt == "parquet" and (fi // 3) % 4 in (1,):
                    # stratum: many equal row groups, chunk boundaries INSIDE row groups for many chunks in a row
                    c, uniform_groups = rng.choice([3, 4, 7]), rng.choice([5, 10])
                    n = 6 * uniform_groups + rng.choice([0, 1])
                if fmt == "parquet" and (fi // 3) % 4 == 3:
                    # stratum: ONE tiny row group before larger ones, chunks spanning several groups
                    c = rng.choice([6, 7, 9])
                    n = 3 * c + rng.choice([1, 2])
                nprng = np.random.default_rng(rng.randrange(2 ** 32))
                ra, dec = nprng.uniform(0, 1, n), nprng.uniform(0, 1, n)
                path = root / f"f{fi}.{fmt}"
                if fmt == "fits":
                    fits.BinTableHDU.from_columns([fits.Column(name="ra", format="D", array=ra),
                                                   fits.Column(name="dec", format="D", array=dec)]).writeto(path)
                elif fmt == "hdf5":
                    with h5py.File(path, "w") as f:
                        f["ra"], f["dec"] = ra, dec
                else:
                    tab = pa.table({"ra": ra, "dec": dec})
                    if uniform_groups is not None:
                        pq.write_table(tab, path, row_group_size=uniform_groups)
                    elif (fi // 3) % 4 == 0:
                        pq.write_table(tab, path, row_group_size=rng.choice([1, 2, 5, 100]))
                    else:           # row groups of differing sizes: a large one first, or a tiny one before large ones
                        tiny_first = (fi // 3) % 4 == 3
                        ck.count("parquet:tiny-first" if tiny_first else "parquet:large-first")
                        with pq.ParquetWriter(path, tab.schema) as wr:
                            at, first = 0, True
                            while at < len(tab):
                                if tiny_first:
                                    k = 1 if first else rng.choice([4, 5])
                                else:
                                    k = rng.choice([7, 11]) if first else rng.choice([1, 2, 3])
                                first = False
                                wr.write_table(tab.slice(at, k))
                                at += k
                lens, rows_ok, lazy_bad = [], True, None
                pq_obs = []
                group_sizes, requested = None, []
                orig_read = pq.ParquetFile.read_row_group
                if fmt == "parquet":
                    md = pq.ParquetFile(path).metadata
                    group_sizes = [md.row_group(i).num_rows for i in range(md.num_row_groups)]

                    def logged_read(self_, i, *a, **k):
                        out = orig_read(self_, i, *a, **k)
                        requested.append(i)
                        return out
                    pq.ParquetFile.read_row_group = logged_read
                    # every other way of pulling rows out of the file counts as a request for the row groups it touches
                    orig_many, orig_all, orig_iter = (pq.ParquetFile.read_row_groups, pq.ParquetFile.read,
                                                      pq.ParquetFile.iter_batches)

                    def logged_many(self_, groups, *a, **k):
                        groups = list(groups)
                        out = orig_many(self_, groups, *a, **k)
                        requested.extend(groups)
                        return out

                    def logged_all(self_, *a, **k):
                        requested.extend(range(self_.metadata.num_row_groups))
                        return orig_all(self_, *a, **k)

                    def logged_iter(self_, *a, row_groups=None, **k):
                        requested.extend(range(self_.metadata.num_row_groups) if row_groups is None else list(row_groups))
                        return orig_iter(self_, *a, row_groups=row_groups, **k)
                    pq.ParquetFile.read_row_groups, pq.ParquetFile.read, pq.ParquetFile.iter_batches = (
                        logged_many, logged_all, logged_iter)
                try:
                    with new_filereader(path, ra_name="ra", dec_name="dec", chunksize=[c, np.int64(c)][(fi // 3) % 2]) as reader:
                        # the probe pass (centre generation) with probes SPARSER than the chunks and denser: the documented
                        # near-regular subset (first and last record included), and — a pass like any other — every row
                        # group requested exactly once
                        nchunks = -(-n // c)
                        for psize in sorted({1, 2, max(1, nchunks - 1), min(n, nchunks + 2), n}):
                            if psize > n:
                                continue
                            requested.clear()
                            probe = reader.get_probe(psize)
                            want_idx = np.linspace(0, n - 1, psize).astype(int)
                            ck.count(f"probe:{'sparser' if psize < nchunks else 'denser'}-than-chunks")
                            got_pos = [int(np.flatnonzero(np.deg2rad(ra) == v)[0]) if (np.deg2rad(ra) == v).any() else -1
                                       for v in np.asarray(probe["ra"])]
                            clens = [min(c, n - a) for a in range(0, n, c)]
                            reqs.append(f"pr{fi}.{psize} probe {len(clens)} {' '.join(map(str, clens))} {psize} "
                                        + " ".join(map(str, want_idx.tolist())))
                            expect.append((got_pos, "probe", {"format": fmt, "n": n, "chunksize": c, "probe_size": psize}))
                            if not np.array_equal(np.asarray(probe["ra"]), np.deg2rad(ra)[want_idx]):
                                pos = [int(np.flatnonzero(np.deg2rad(ra) == v)[0]) if (np.deg2rad(ra) == v).any() else None
                                       for v in np.asarray(probe["ra"])]
                                ck.add_violation(f"{fmt} reader, chunk size {c}: a probe of {psize} of {n} records holds the rows {pos} "
                                                 f"instead of a regular subset from the first to the last record ({want_idx.tolist()})",
                                                 {"format": fmt, "n": n, "chunksize": c, "probe_size": psize, "row_groups": group_sizes})
                                rows_ok = None
                                break
                            if group_sizes is not None and sorted(requested) != list(range(len(group_sizes))):
                                ck.add_violation(f"parquet reader, chunk size {c}: the probe pass ({psize} records) requested the row groups "
                                                 f"{requested} instead of each of the {len(group_sizes)} once",
                                                 {"format": fmt, "n": n, "chunksize": c, "probe_size": psize, "row_groups": group_sizes})
                                rows_ok = None
                                break
                        if rows_ok is None:
                            rows_ok = True
                            raise StopIteration
                        for _ in range(2):                       # two passes over the same reader
                            requested.clear()
                            chunks, handed = [], 0
                            for ch in reader:
                                chunks.append(ch)
                                handed += len(ch)
                                if group_sizes is not None:
                                    pq_obs.append((len(ch), len(requested)))
                                if group_sizes is not None and lazy_bad is None:
                                    # bounded + non-overlapping: the row groups requested so far are exactly the shortest
                                    # prefix of the file that covers the records handed out, each requested once
                                    need = int(np.searchsorted(np.cumsum(group_sizes), handed, side="left")) + 1
                                    need = min(need, len(group_sizes))
                                    if sorted(requested) != list(range(len(requested))) or len(requested) > need:
                                        lazy_bad = (f"after {handed} of {n} records were handed out, row groups {requested} had "
                                                    f"been requested; the first {need} of sizes {group_sizes} suffice")
                            lens.append([len(ch) for ch in chunks])
                            got = np.concatenate([np.asarray(ch["ra"]) for ch in chunks]) if chunks else np.empty(0)
                            rows_ok = rows_ok and np.array_equal(got, np.deg2rad(ra))
                except StopIteration:
                    path.unlink()
                    continue
                finally:
                    pq.ParquetFile.read_row_group = orig_read
                    if fmt == "parquet":
                        pq.ParquetFile.read_row_groups, pq.ParquetFile.read, pq.ParquetFile.iter_batches = (
                            orig_many, orig_all, orig_iter)
                path.unlink()
                rep = {"format": fmt, "n": n, "chunksize": c}
                if lazy_bad:
                    ck.add_violation(f"parquet reader with chunk size {c} reads ahead without bound: {lazy_bad}",
                                     dict(rep, row_groups=group_sizes))
                if not rows_ok:
                    ck.add_violation(f"{fmt} reader with chunk size {c}: the rows of a pass are not the {n} rows of the file "
                                     f"in order (chunk lengths {lens})", rep)
                ck.count(f"format={fmt}")
                ck.case(dict(rep, lens=lens[0]) if len(ck.samples) < 6 else None, (fmt, n, c) if n > c else None)
                reqs.append(f"f{fi} requests {n} {c}")
                expect.append((lens, "file", rep))
                if group_sizes is not None and lens and sum(lens[0]) == n:
                    k = len(lens[0])
                    reqs.append(f"p{fi} pq {len(group_sizes)} {' '.join(map(str, group_sizes))} {c} {k}")
                    expect.append((pq_obs[:k], "parquet-cache", dict(rep, row_groups=group_sizes)))
    finally:
        C.remove(root)
    ans = ck.driver("GenReader", reqs)
    for idx, (obs, passes, rep) in enumerate(expect):
        n, c = rep["n"], rep["chunksize"]
        nchunks = -(-n // c)
        model = None
        if ans is not None and passes != "parquet-cache":
            model = [tuple(int(x) for x in t.split(":")) for t in ans[idx].split()]
        if passes == "probe":
            if ans is not None and [int(x) for x in ans[idx].split()] != obs:
                ck.add_tie_break("rows of the probe vs the Lean selection loop on the reader's chunks",
                                 {"case": rep, "impl": obs, "model": ans[idx]})
            continue
        if passes == "parquet-cache":
            if ans is not None:
                model_pq = [(int(t.split(":")[0]), int(t.split(":")[2])) for t in ans[idx].split()]
                if model_pq != [tuple(x) for x in obs]:
                    ck.add_tie_break("Parquet row-group cache: (chunk length, row groups requested) after every chunk vs model",
                                     {"case": rep, "impl": obs, "model": model_pq})
            continue
        if passes == "file":
            for ln in obs:
                # spec: consecutive chunks of 1..c records covering the file exactly once per pass
                if sum(ln) != n or any(x > c or x < 1 for x in ln) or len(ln) != nchunks:
                    ck.add_violation(f"{rep['format']} reader yields chunk lengths {ln} for {n} records, chunk size {c}", rep)
                    break
                if model is not None and ln != [min(hi, n) - lo for lo, hi in model]:
                    ck.add_tie_break("file reader chunk lengths vs model", {"case": rep, "impl": ln})
                    break
            continue
        ok_spec = len(obs) == passes * nchunks
        per_pass = [obs[i * nchunks:(i + 1) * nchunks] for i in range(passes)]
        for p in per_pass:
            cover = []
            for lo, hi in p:
                cover += list(range(lo, min(hi, n)))
            ok_spec = ok_spec and cover == list(range(n)) and all(p[i + 1][0] == p[i][1] for i in range(len(p) - 1))
        if not ok_spec:
            ck.add_violation(f"slices requested {obs} do not cover the {n} rows exactly once per pass "
                             f"({passes} pass(es), chunk size {c})", rep)
        elif model is not None and any(list(p) != model for p in per_pass):
            ck.add_tie_break("slice log vs reader model", {"case": rep, "impl": obs, "model": model})
    return ck.finish()
