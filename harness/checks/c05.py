"""C05 — results do not depend on worker count or completion order (multiprocessing)."""
from __future__ import annotations

import itertools
import pickle
import warnings
from unittest import mock

import numpy as np

import catalogs as C
import gen_sky as G
from core import Check

np.seterr(all="ignore")
warnings.filterwarnings("ignore")

THEOREMS = ["Yaw.C05.fold_perm_invariant", "Yaw.C05.nodup_consistent", "Yaw.C05.count_pairs_schedule_free",
            "Yaw.C05.load_patches_schedule_free", "Yaw.C05.hist_schedule_free",
            "Yaw.C05.arrival_indexed_rows_depend_on_order", "Yaw.C05.accumulation_by_id", "Yaw.C05.glue_pinned",
            "Yaw.C05.assignFold_mem", "Yaw.C05.assignFold_none", "Yaw.C05.weights_consistent", "Yaw.C05.pair_weights_flag"]
RULE = ("cached catalogs (2..6 patches incl. patches with an empty redshift bin, data sparser than randoms, weights "
        "that are not exactly representable) x every "
        "parallel entry point (Catalog(cache), build_trees, autocorrelate, crosscorrelate, HistData.from_catalog) x "
        "completion orders imposed by a deterministic in-process Pool (results pass through pickle like real worker "
        "results): ALL permutations for <= 4 tasks, identity / reversed / rotated / seeded random beyond, plus real "
        "pools with 2, 3 and 8 workers; every result compared BITWISE with the sequential run (incl. the order of the "
        "jackknife samples). non-trivial: > 1 task and a non-identity order; distinct by (entry point, order)")


class FakePool:
    """stand-in for multiprocessing.Pool: runs the tasks in-process, delivers them in a chosen order"""
    order = None        # callable n -> permutation (list of task indices in delivery order)
    log = []

    def __init__(self, processes=None, *a, **k):
        self.processes = processes

    def __enter__(self):
        return self

    def __exit__(self, *a):
        return False

    def imap_unordered(self, func, iterable, chunksize=1):
        tasks = list(iterable)
        func = pickle.loads(pickle.dumps(func))      # the job and its bound arguments travel to the workers by pickle too
        results = [pickle.loads(pickle.dumps(func(pickle.loads(pickle.dumps(t))))) for t in tasks]
        perm = list(FakePool.order(len(tasks)))
        assert sorted(perm) == list(range(len(tasks)))
        FakePool.log.append(perm)
        for i in perm:
            yield results[i]

    def map(self, func, iterable, chunksize=None):
        return [func(x) for x in iterable]


def orders_for(rng, n_max):
    """delivery-order strategies; exhaustive permutations are produced per task count at call time"""
    def ident(n):
        return list(range(n))

    def rev(n):
        return list(range(n))[::-1]

    def rot(n):
        k = max(1, n // 3)
        return list(range(k, n)) + list(range(k))
    out = [("identity", ident), ("reversed", rev), ("rotated", rot)]
    for s in range(3):
        sd = rng.randrange(2 ** 32)

        def rnd(n, sd=sd):
            import random
            r = random.Random(sd * 1000003 + n)
            p = list(range(n))
            r.shuffle(p)
            return p
        out.append((f"random{s}", rnd))
    return out


def snapshot_catalog(cat):
    return (list(cat.keys()), cat.get_centers().data.tobytes(), cat.get_radii().data.tobytes(), cat.get_num_records(),
            cat.get_sum_weights(), tuple(str(cat[p].cache_path.name) for p in cat.keys()))


def snapshot_trees(cat):
    out = []
    for p in cat.keys():
        d = cat[p].cache_path
        with open(d / "trees.pkl", "rb") as f:
            t = pickle.load(f)
        ts = t if isinstance(t, tuple) else (t,)
        out.append(((d / "binning").read_bytes(), tuple((x.num_records, x.sum_weights) for x in ts)))
    return out


def same_cf(a, b):
    return len(a) == len(b) and all(x == y for x, y in zip(a, b))


def run(prop, tier, seed, replay):
    import yaw
    import yaw.utils.parallel as par
    from yaw import AngularCoordinates, Catalog, Configuration
    from yaw.redshifts import HistData

    # (what travels to the workers by pickle is defined by the methods the classes have: Yaw.C17.class_methods)
    ck = Check(prop, tier, seed, kernels=["k_schedule", "k_algebra", "k_wrappers", "k_glue"], theorems=THEOREMS + ["Yaw.C17.class_methods", "Yaw.C05.progress_wrapper_transparent", "Yaw.C05.progress_wrapper_flags", "Yaw.Glue.get_size_spec", "Yaw.Glue.num_processes_spec",
                                        "Yaw.C05Path.split_pathName", "Yaw.C05Path.id_of_path", "Yaw.C05Path.pathName_injective", "Yaw.C05Path.path_flags"],
               lean_modules=["YawVerif.Props.C05", "YawVerif.Props.C17", "YawVerif.Props.Glue", "YawVerif.Props.C05Path"], rule=RULE,
               assumptions=["Pool.imap_unordered returns every result exactly once in SOME order (PARTIAL: the OS scheduler "
                            "is replaced by the controlled permutation; real pools are sampled)",
                            "worker results are transported by pickling"])
    ck.translate()
    ck.lean_check()
    rng = ck.rng
    # ---- how many workers: every limit (None, 0, 1 … beyond the number of cores) x YAW_NUM_THREADS (unset, 1 … beyond) ------
    import os
    cores = par._get_physical_cores()
    greq, gexp = [], []
    old_env = os.environ.get("YAW_NUM_THREADS")
    try:
        for env in (None, 1, 2, 3, cores, cores + 5):
            if env is None:
                os.environ.pop("YAW_NUM_THREADS", None)
            else:
                os.environ["YAW_NUM_THREADS"] = str(env)
            size = par._num_processes()
            exp_size = cores if env is None else min(env, cores)
            ck.case(None, ("numproc", env))
            if size != exp_size:
                ck.add_violation(f"_num_processes() = {size} with YAW_NUM_THREADS={env} on {cores} cores (expected {exp_size})",
                                 {"env": env, "cores": cores, "entry": "workers"})
            greq.append(f"np{len(greq)} numproc {int(env is not None)} {env or 0} {cores}")
            gexp.append(size)
            for mw in (None, 0, 1, 2, size, size + 1, 10 * size):
                got = par.get_size(mw)
                want = size if not mw else min(mw, size)
                ck.case(None, ("getsize", env, mw))
                if got != want or not (1 <= got <= size):
                    ck.add_violation(f"get_size({mw}) = {got} with {size} available processes (expected {want})",
                                     {"env": env, "max_workers": mw, "entry": "workers"})
                greq.append(f"gs{len(greq)} getsize {int(mw is not None)} {mw or 0} {size}")
                gexp.append(got)
    finally:
        if old_env is None:
            os.environ.pop("YAW_NUM_THREADS", None)
        else:
            os.environ["YAW_NUM_THREADS"] = old_env
    # ---- patch ids <-> directory names (what files arriving results under their patch) -------------------------------------------
    from yaw.catalog.catalog import get_id_from_patch_path, get_patch_path_from_id
    for k_ in (0, 1, 7, 10, 99, 100, 4095, 32767):
        name_ = get_patch_path_from_id("/some/cache", k_).name
        back_ = get_id_from_patch_path(f"/some/cache/{name_}")
        ck.case(None, ("path", k_))
        if back_ != k_:
            ck.add_violation(f"patch {k_} is stored in directory '{name_}', which is read back as patch {back_}", {"patch_id": k_, "entry": "paths"})
        greq.append(f"pn{len(greq)} pathname {k_}")
        gexp.append(name_)
    for bad_ in ("patch_1_0", "patch", "patch_x", "patch_", "other_3"):
        try:
            got_ = str(get_id_from_patch_path(f"/some/cache/{bad_}"))
        except (ValueError, TypeError):
            got_ = "raise"
        greq.append(f"id{len(greq)} idof {bad_}")
        gexp.append(got_)
    gans = ck.driver("GenGlue", greq)
    if gans is not None:
        for r_, e_, a_ in zip(greq, gexp, gans):
            if str(a_) != str(e_):
                ck.add_tie_break("worker count vs generated kernel", {"request": r_, "impl": e_, "model": a_})
    n_cases = 4 if tier == "quick" else 30
    root = C.scratch_root()
    try:
        for ci in range(n_cases):
            N = [2, 3, 4, 6][ci % 4]
            field = G.make_field(rng, num_patches=N, spread=0.06)
            cents = AngularCoordinates(np.column_stack([field["ra"], field["dec"]]))
            edges = [0.1, 0.4, 0.7, 1.0]
            closed = "left" if ci % 2 == 0 else "right"      # the non-default side must survive the way to the workers
            sD = G.make_sample(rng, field, n=12 * N, extent_mode="wide", zrange=(0.1, 1.0), edges=edges, weights=True)
            sR = G.make_sample(rng, field, n=25 * N, extent_mode="wide", zrange=(0.1, 1.0), edges=edges, weights=False)
            sU = G.make_sample(rng, field, n=20 * N, extent_mode="wide", zrange=(0.1, 1.0), weights=True)
            # weights that are not exactly representable: any sum taken in arrival order shows in the last bits
            for smp in (sD, sU):
                smp["w"] = np.asarray(smp["w"]) * (0.1 + 0.001 * (np.arange(len(smp["w"])) % 7))
            # a patch of the data without any object in the last redshift bin
            sel = sD["patch"] == 0
            sD["z"][sel & (sD["z"] > 0.7)] = 0.5
            rep = {"N": N, "closed": closed, "samples": {k: {a: np.asarray(v).tolist() for a, v in s.items() if a in ("ra", "dec", "z", "w")}
                                       for k, s in (("D", sD), ("R", sR), ("U", sU))},
                   "centres": [field["ra"].tolist(), field["dec"].tolist()]}
            with C.Workers(1):
                try:
                    cats = {k: C.make_catalog(root / f"c{ci}_{k}", s["ra"], s["dec"], z=s["z"], w=s["w"], centers=cents)
                            for k, s in (("D", sD), ("R", sR), ("U", sU))}
                except ValueError:
                    ck.count("rejected:empty-patch")
                    continue
                conf = Configuration.create(rmin=[0.003, 0.01], rmax=[0.02, 0.08], unit="rad", edges=edges, closed=closed)
                ref = {
                    "load": snapshot_catalog(Catalog(root / f"c{ci}_D")),
                    "auto": yaw.autocorrelate(conf, cats["D"], cats["R"], count_rr=True),
                    "cross": yaw.crosscorrelate(conf, cats["D"], cats["U"], ref_rand=cats["R"]),
                    "hist": HistData.from_catalog(cats["D"], conf),
                }
                cats["D"].build_trees(edges, closed=closed, force=True)
                ref["trees"] = snapshot_trees(cats["D"])

            def entry(name):
                if name == "load":
                    return snapshot_catalog(Catalog(root / f"c{ci}_D"))
                if name == "trees":
                    cats["D"].build_trees(edges, closed=closed, force=True)
                    return snapshot_trees(cats["D"])
                if name == "auto":
                    return yaw.autocorrelate(conf, cats["D"], cats["R"], count_rr=True)
                if name == "cross":
                    return yaw.crosscorrelate(conf, cats["D"], cats["U"], ref_rand=cats["R"])
                return HistData.from_catalog(cats["D"], conf)

            def equal(name, a, b):
                if name in ("load", "trees"):
                    return a == b
                if name == "hist":
                    return np.array_equal(a.data, b.data) and np.array_equal(a.samples, b.samples) and a.binning == b.binning
                return same_cf(a, b)

            strategies = orders_for(rng, N)
            if N <= 4:
                for perm in itertools.permutations(range(N)):
                    strategies.append((f"perm{perm}", (lambda n, perm=perm: list(perm) if n == len(perm) else list(range(n))[::-1])))
            for name in ("load", "trees", "auto", "cross", "hist"):
                for label, order in strategies:
                    if label.startswith("perm") and name in ("auto", "cross"):
                        continue          # pair-count tasks outnumber the patches: covered by the generic orders
                    FakePool.order, FakePool.log = order, []
                    with C.Workers(4), mock.patch.object(par.multiprocessing, "Pool", FakePool):
                        try:
                            got = entry(name)
                        except Exception as e:  # noqa: BLE001
                            ck.add_violation(f"{name} with completion order '{label}' raised {type(e).__name__}: {e}",
                                             dict(rep, entry=name, order=label))
                            continue
                    nontriv = any(p != sorted(p) and len(p) > 1 for p in FakePool.log)
                    ck.count(f"entry={name}")
                    ck.case({"entry": name, "order": label, "delivery": FakePool.log[:2], "N": N} if len(ck.samples) < 4 else None,
                            (ci, name, label) if nontriv else None)
                    if not FakePool.log:
                        ck.add_tie_break("entry point did not go through the worker pool", {"entry": name})
                    if not equal(name, got, ref[name]):
                        ck.add_violation(f"{name}: result with completion order '{label}' ({FakePool.log[:1]}) differs from the "
                                         "sequential result", dict(rep, entry=name, order=label, delivery=FakePool.log[:3]))
                # real pools
                for w in (2, 3, 8):
                    with C.Workers(w):
                        try:
                            got = entry(name)
                        except Exception as e:  # noqa: BLE001
                            ck.add_violation(f"{name} with {w} worker processes raised {type(e).__name__}: {e}",
                                             dict(rep, entry=name, workers=w))
                            continue
                    ck.count(f"real-pool:{w}")
                    ck.case(None, (ci, name, f"real{w}"))
                    if not equal(name, got, ref[name]):
                        ck.add_violation(f"{name}: result with {w} worker processes differs from the sequential result",
                                         dict(rep, entry=name, workers=w))
            # ---- one session, several binnings: a sequential measurement (binning A), then the next binning on a real
            #      pool, then the same sequentially — what the main process learned about A must not reach B's workers
            for edges_b in ([0.1, 0.55, 1.0], [0.1, 0.3, 0.5, 1.0]):
                conf_b = Configuration.create(rmin=[0.003, 0.01], rmax=[0.02, 0.08], unit="rad", edges=edges_b, closed=closed)
                try:
                    with C.Workers(1):
                        yaw.crosscorrelate(conf, cats["D"], cats["U"], ref_rand=cats["R"])
                        yaw.autocorrelate(conf, cats["D"], cats["R"], count_rr=True)
                    with C.Workers(3):
                        got_b = (yaw.crosscorrelate(conf_b, cats["D"], cats["U"], ref_rand=cats["R"]),
                                 yaw.autocorrelate(conf_b, cats["D"], cats["R"], count_rr=True))
                    with C.Workers(1):
                        ref_b = (yaw.crosscorrelate(conf_b, cats["D"], cats["U"], ref_rand=cats["R"]),
                                 yaw.autocorrelate(conf_b, cats["D"], cats["R"], count_rr=True))
                except Exception as e:  # noqa: BLE001
                    ck.add_violation(f"session (sequential binning A, then binning {edges_b} on 3 workers) raised "
                                     f"{type(e).__name__}: {e}", dict(rep, entry="session", edges_b=edges_b))
                    continue
                ck.count("session:sequential-A-then-parallel-B")
                ck.case(None, (ci, "session", tuple(edges_b)))
                if not (same_cf(got_b[0], ref_b[0]) and same_cf(got_b[1], ref_b[1])):
                    ck.add_violation(f"after a sequential measurement with edges {edges}, the measurement with edges {edges_b} on 3 "
                                     "worker processes differs from the same measurement with 1 worker",
                                     dict(rep, entry="session", edges_a=edges, edges_b=edges_b, workers=3))
            for k in cats:
                C.remove(root / f"c{ci}_{k}")
    finally:
        C.remove(root)
    return ck.finish()
