"""C11 — every persisted product reads back equal to what was written."""
from __future__ import annotations

import math
import warnings
from fractions import Fraction

import numpy as np

import catalogs as C
import gen_containers as G
from c15 import rand_params
from core import Check, fr, to_frac

np.seterr(all="ignore")
warnings.filterwarnings("ignore")

THEOREMS = ["Yaw.C11.sparse_roundtrip", "Yaw.C11.sparse_zero", "Yaw.C11.members_roundtrip",
            "Yaw.C11.config_dict_roundtrip", "Yaw.C11.edges_regenerate", "Yaw.C11.glue_pinned",
            "Yaw.C11.fromSparse_mem", "Yaw.C11.fromSparse_not_mem",
            "Yaw.C11.write_sites_truncate", "Yaw.C11.result_writers_present",
            "Yaw.C11Fmt.roundHE_err", "Yaw.C11Fmt.keep_le", "Yaw.C11Fmt.keep_err", "Yaw.C11Fmt.keep_int_part", "Yaw.C11Fmt.keep_idem",
            "Yaw.C11Fmt.fmt_precision", "Yaw.C11Fmt.fmt_flags"]
RULE = ("CorrFunc through HDF5 for all 7 member subsets x auto/cross x counts incl. negative, sparse and all-zero "
        "arrays (== and identical sample()); the stored patch_pairs / binned_counts datasets are compared with the Lean "
        "sparse model; Configuration through YAML for every method / closed side / unit / scalar and list scales / "
        "cosmology / custom edges (== and bitwise identical edges); CorrData / RedshiftData / HistData through the "
        "text files for 1..6 bins, 1..5 samples, values incl. NaN and +-inf, magnitudes 1e-9..1e11 (closed side, "
        "NaN/inf exact, finite values within 10^-(8-d), d = number of integer digits); patch metadata through YAML "
        "(bitwise). non-trivial: >= 2 bins or patches; distinct by (kind, content)")


def run(prop, tier, seed, replay):
    import h5py
    from yaw import Configuration, CorrData, CorrFunc, HistData, RedshiftData
    from yaw.catalog.patch import Metadata
    from yaw.coordinates import AngularCoordinates, AngularDistances

    ck = Check(prop, tier, seed, kernels=["k_persist", "k_config"], theorems=THEOREMS,
               lean_modules=["YawVerif.Props.C11", "YawVerif.Props.C11Fmt"], rule=RULE,
               assumptions=["h5py / PyYAML / np.loadtxt return what was stored (float repr round-trips)"])
    ck.translate()
    ck.lean_check()
    rng = ck.rng
    root = C.scratch_root()
    reqs, expect = [], []
    n_cases = 42 if tier == "quick" else 420

    def attempt(f):
        try:
            return f(), None
        except Exception as e:  # noqa: BLE001
            return None, f"{type(e).__name__}: {e}"

    try:
        # ---- CorrFunc <-> HDF5 ----------------------------------------------------------------------
        for ci in range(n_cases):
            mask = 1 + ci % 7
            case = G.rand_corrfunc_parts(rng, mask=mask, auto=(ci // 7) % 2 == 0,
                                         sparsity=[0.0, 0.5, 0.9, 1.0][(ci // 14) % 4])
            parts = case["parts"]
            if ci % 5 == 0:       # negative counts (negative weights / scaled containers)
                nc = parts["dd"]
                parts["dd"] = G.make_nc(nc.binning, -nc.counts.counts, nc.sum_weights.sum_weights1,
                                        nc.sum_weights.sum_weights2, nc.auto)
            if ci % 5 == 1:       # very large counts (deep surveys: > 2^32 pairs per patch pair; weighted: not whole numbers)
                nc = parts["dd"]
                big = nc.counts.counts * float(2 ** 33) + (0.5 if ci % 2 else 0.0) * (nc.counts.counts > 0)
                parts["dd"] = G.make_nc(nc.binning, big, nc.sum_weights.sum_weights1, nc.sum_weights.sum_weights2, nc.auto)
                ck.count("hdf:counts-above-2^32")
            if ci % 4 == 2 and case["auto"] and case["N"] >= 2:
                # autocorrelation containers whose patches were re-labelled through the public indexer (reversed order):
                # counts sit BELOW the diagonal; they are pair counts like any other
                for k in [k for k, nc in parts.items() if nc.auto]:
                    parts[k] = parts[k].patches[::-1]
                ck.count("hdf:auto-relabelled")
            cf = CorrFunc(parts["dd"], parts.get("dr"), parts.get("rd"), parts.get("rr"))
            # every second product is written OVER the file of an earlier case (other members, other shapes): what is
            # read back must be what was written last, nothing of the earlier content
            path = root / (f"cf{ci}.hdf5" if ci % 2 == 0 else "cf_reused.hdf5")
            ck.count(f"hdf:destination={'fresh' if ci % 2 == 0 else 'holds-an-earlier-product'}")
            rep = {"kind": "corrfunc", "mask": mask, "auto": case["auto"], "N": case["N"], "B": case["B"],
                   "dd": parts["dd"].counts.counts.tolist()}
            ck.count(f"hdf:mask={mask}")
            ck.case(rep if len(ck.samples) < 2 else None, ("cf", ci) if case["N"] >= 2 else None)
            _, err = attempt(lambda: cf.to_file(path))
            back, err2 = attempt(lambda: CorrFunc.from_file(path)) if not err else (None, err)
            if err or err2:
                ck.add_violation(f"CorrFunc HDF5 round trip raised {err or err2}", rep)
                continue
            if sorted(back.to_dict()) != sorted(cf.to_dict()):
                ck.add_violation(f"CorrFunc with members {sorted(cf.to_dict())} reads back with members "
                                 f"{sorted(back.to_dict())}", rep)
                continue
            if not (back == cf):
                ck.add_violation("CorrFunc read back from HDF5 differs from what was written", rep)
                continue
            s1, e1 = attempt(lambda: cf.sample())
            s2, e2 = attempt(lambda: back.sample())
            if bool(e1) != bool(e2) or (not e1 and not (s1 == s2)):
                ck.add_violation("sample() of the re-read CorrFunc differs", rep)
                continue
            # model tie: stored sparse layout of dd
            with h5py.File(path) as f:
                pp = f["data_data/counts/patch_pairs"][:]
                bc = f["data_data/counts/binned_counts"][:]
                groups = sorted(k for k in f.keys() if k != "version")
            c = parts["dd"].counts.counts
            reqs.append(f"sp{ci} sparse {c.shape[0]} {c.shape[1]} " + " ".join(fr(x) for x in c.ravel()))
            expect.append(("sparse", (pp.tolist(), bc.tolist())))
            reqs.append(f"mem{ci} members {int(bool(mask & 1))} {int(bool(mask & 2))} {int(bool(mask & 4))}")
            expect.append(("members", groups))
            if ci % 2 == 0:
                path.unlink()
        # ---- Configuration <-> YAML -------------------------------------------------------------------
        # fixed stratum: limits for which exp(log(1 + z)) - 1 / the comoving inversion do not reproduce z exactly
        fixed = [dict(rmin=100, rmax=1000, zmin=zmin, zmax=zmax, num_bins=nb, method=meth, closed=cl)
                 for (zmin, zmax, nb) in ((0.1, 1.0, 5), (0.474, 1.35, 6), (0.07, 1.41, 3), (0.3, 2.0, 7))
                 for meth in ("logspace", "comoving") for cl in ("right", "left")]
        for ci in range(n_cases + len(fixed)):
            p = rand_params(rng, ci) if ci < n_cases else fixed[ci - n_cases]
            cfg = Configuration.create(**p)
            path = root / (f"cfg{ci}.yml" if ci % 2 == 0 else "cfg_reused.yml")
            rep = {"kind": "config", "params": p}
            ck.count(f"yaml:method={p.get('method', 'custom')}")
            ck.case(None, ("cfg", tuple(sorted((k, str(v)) for k, v in p.items()))))
            _, err = attempt(lambda: cfg.to_file(path))
            back, err2 = attempt(lambda: Configuration.from_file(path)) if not err else (None, err)
            if err or err2:
                ck.add_violation(f"Configuration YAML round trip raised {err or err2}", rep)
                continue
            eq, e3 = attempt(lambda: back == cfg)
            if e3 or not eq or not np.array_equal(back.binning.edges, cfg.binning.edges) \
                    or back.binning.closed != cfg.binning.closed or back.scales.to_dict() != cfg.scales.to_dict():
                ck.add_violation("Configuration read back from YAML differs (== / bin edges / scales)"
                                 + (f" [{e3}]" if e3 else ""), rep)
            back2, e4 = attempt(lambda: Configuration.from_dict(cfg.to_dict()))
            if e4 or not np.array_equal(back2.binning.edges, cfg.binning.edges):
                ck.add_violation(f"Configuration.from_dict(to_dict()) differs or raises ({e4})", rep)
        # ---- text files -------------------------------------------------------------------------------------
        for ci in range(n_cases):
            B = [1, 1, 2, 3, 6][ci % 5]
            M = rng.choice([1, 2, 5])
            if ci % 4 == 3:
                M = B                       # as many jackknife samples as bins: a square sample matrix
                ck.count("text:square-sample-matrix")
            binning = G.rand_binning(rng, B)
            cls = [CorrData, RedshiftData, HistData][ci % 3]
            mag = rng.choice([1e-9, 1e-3, 1.0, 1.0, 123.456, 1e5, 1e8, 1e11])
            vals = np.array([rng.uniform(-1, 1) * mag for _ in range((M + 1) * B)]).reshape(M + 1, B)
            special = ci % 2 == 0          # deterministic: every non-finite value occurs in every run, in value and samples
            if special:
                sv = [float("nan"), float("inf"), float("-inf")][(ci // 2) % 3]
                vals[0 if (ci // 6) % 2 == 0 else rng.randrange(1, M + 1), rng.randrange(B)] = sv
                ck.count(f"text:special={sv}")
            obj = cls(binning, vals[0].copy(), vals[1:].copy())
            prefix = root / (f"txt{ci}" if ci % 2 == 0 else "txt_reused")
            rep = {"kind": "text", "cls": cls.__name__, "B": B, "M": M, "edges": binning.edges.tolist(),
                   "closed": str(binning.closed), "values": vals.tolist()}
            ck.count(f"text:B={B}")
            ck.case(rep if len(ck.samples) < 4 else None, ("txt", ci) if B >= 2 else None)
            _, err = attempt(lambda: obj.to_files(prefix))
            back, err2 = attempt(lambda: cls.from_files(prefix)) if not err else (None, err)
            if ci % 2 == 0:
                for ext in (".dat", ".smp", ".cov"):
                    prefix.with_suffix(ext).unlink(missing_ok=True)
            if err or err2:
                ck.add_violation(f"{cls.__name__} text round trip with {B} bin(s) raised {err or err2}", rep)
                continue
            if back.data.shape != obj.data.shape or back.samples.shape != obj.samples.shape \
                    or str(back.binning.closed) != str(binning.closed):
                ck.add_violation(f"{cls.__name__} text round trip changes shapes or the closed side", rep)
                continue

            def within(x, y):
                if math.isnan(x) or math.isinf(x):
                    return (math.isnan(x) and math.isnan(y)) or x == y
                d = len(str(int(abs(x))))
                return abs(y - x) <= 10.0 ** (-(8 - d)) * (1 + 1e-9) if d <= 8 else abs(y - x) < 1.0
            pairs = list(zip(obj.data, back.data)) + list(zip(obj.samples.ravel(), back.samples.ravel())) \
                + list(zip(binning.edges, back.binning.edges))
            bad = [(x, y) for x, y in pairs if not within(float(x), float(y))]
            if bad:
                ck.add_violation(f"{cls.__name__} text round trip loses more than the fixed-width precision: {bad[:2]}", rep)
        # ---- patch metadata <-> YAML ------------------------------------------------------------------------
        for ci in range(n_cases // 2):
            meta = Metadata(num_records=rng.randrange(1, 10 ** 6), sum_weights=rng.uniform(0.1, 1e6),
                            center=AngularCoordinates([rng.uniform(0, 6.28), rng.uniform(-1.5, 1.5)]),
                            radius=AngularDistances(rng.uniform(0, 0.5)))
            path = root / f"meta{ci}.yml"
            meta.to_file(path)
            back = Metadata.from_file(path)
            path.unlink()
            ck.count("meta")
            ck.case(None, ("meta", ci))
            if not (back.num_records == meta.num_records and back.sum_weights == meta.sum_weights
                    and np.array_equal(back.center.data, meta.center.data)
                    and np.array_equal(back.radius.data, meta.radius.data)):
                ck.add_violation("patch metadata read back from YAML differ", {"kind": "meta", "meta": str(meta)})
        # ---- the fixed-width formatter on single values: what is written (read back exactly) vs the Lean model, and the
        #      documented precision; carries (9.99999999996), ties of the decimal rounding, every magnitude, both signs
        from yaw.utils.misc import format_float_fixed_width
        specials = [0.0, -0.0, 1 / 2048, 9.99999999996, 99.999999999999, 0.99999999995, 99999999.5, 123456789.987, 1e9, 12345678901.5,
                    1e-11, 4.9e-11, 5.1e-11, -9.99999999996, -1 / 2048, 0.1, -0.1, 1e15, 2.5e-8, 12345678.9999999]
        for i in range(150 if tier == "quick" else 2000):
            if i < len(specials):
                v = specials[i]
            else:
                v = rng.uniform(-1, 1) * 10.0 ** rng.randrange(-12, 13)
                if i % 7 == 0:
                    v = float(f"{v:.{rng.randrange(0, 12)}f}") + rng.choice([0.0, 5e-11, -5e-11])
            txt = format_float_fixed_width(v, 10)
            try:
                back = Fraction(txt.strip().rstrip(".") or "0")
            except ValueError:
                ck.add_violation(f"format_float_fixed_width({v!r}, 10) = {txt!r} is not a number", {"kind": "fmt", "value": v})
                continue
            ck.case(None, ("fmt", v))
            ck.count("fmt:digits=%d" % len(str(int(abs(v)))))
            d = len(str(int(abs(back))))
            bound = (Fraction(10) ** (d - 8) if d <= 8 else Fraction(1)) + Fraction(1, 10 ** 10)
            if len(txt) != max(10, len(txt.split(".")[0])) and len(txt) != 10:
                ck.add_violation(f"format_float_fixed_width({v!r}, 10) = {txt!r} has width {len(txt)}", {"kind": "fmt", "value": v})
            if abs(back - to_frac(v)) >= bound:
                ck.add_violation(f"format_float_fixed_width({v!r}, 10) = {txt!r}: off by {float(abs(back - to_frac(v)))}, the format "
                                 f"promises better than {float(bound)}", {"kind": "fmt", "value": v})
            reqs.append(f"fm{i} fmt 10 {fr(v)}")
            expect.append(("fmt", (back, v, txt)))
        for sv, want in ((float("nan"), "       nan"), (float("inf"), "       inf"), (float("-inf"), "      -inf")):
            if format_float_fixed_width(sv, 10) != want:
                ck.add_violation(f"format_float_fixed_width({sv}, 10) = {format_float_fixed_width(sv, 10)!r}, expected {want!r}",
                                 {"kind": "fmt", "value": str(sv)})
    finally:
        C.remove(root)
    ans = ck.driver("GenPersist", reqs)
    if ans is not None:
        for (kind, obs), a in zip(expect, ans):
            ck.count(f"tie:{kind}")
            if kind == "fmt":
                if Fraction(a) != obs[0]:
                    ck.add_tie_break("value written by the fixed-width formatter vs Lean model",
                                     {"value": obs[1], "written": obs[2], "model": a})
                continue
            if kind == "members":
                names = sorted(t.split("=")[0] for t in a.split("|")[1].split())
                if names != obs:
                    ck.add_tie_break("HDF5 groups vs model", {"model": names, "impl": obs})
            else:
                entries = [e.split() for e in a.split("|")[0].split(";") if e.strip()]
                mpairs = [[int(e[0]), int(e[1])] for e in entries]
                mvals = [[Fraction(x) for x in e[2:]] for e in entries]
                ipairs, ivals = obs
                if mpairs != ipairs or any([to_frac(x) for x in row] != mrow for row, mrow in zip(ivals, mvals)):
                    ck.add_tie_break("sparse pair-count layout vs model", {"model_pairs": mpairs, "impl_pairs": ipairs})
    return ck.finish()
