"""C07 — measurements are independent of what was cached before."""
from __future__ import annotations

import pickle
import warnings

import numpy as np

import catalogs as C
import gen_sky as G
from core import Check, fr

np.seterr(all="ignore")
warnings.filterwarnings("ignore")

THEOREMS = ["Yaw.C07.reusable_iff", "Yaw.C07.fresh_inv", "Yaw.C07.step_inv", "Yaw.C07.marker_inv",
            "Yaw.C07.build_post", "Yaw.C07.history_free", "Yaw.C07.glue_pinned"]
RULE = ("random histories (length 2..10 quick, ..30 thorough) of build_trees (binned with 5 edge sets incl. equal bin "
        "count, edges that differ by one ulp, "
        "count / equal edges with the other closed side, unbinned, forced or not), catalog re-opening (all handles on a "
        "cache stay alive and every later operation uses one of them at random), autocorrelations "
        "and crosscorrelations (binned and unbinned roles of the same catalog) on three catalogs sharing centres, "
        "redshifts drawn from the edge values; after EVERY operation the marker file and the per-bin sizes of the "
        "pickled trees of every patch are compared with the Lean state machine; the final measurement must equal "
        "(==) the measurement on freshly created caches. non-trivial: the history contains a build with a binning that "
        "differs from the final one; distinct by op sequence")

EDGE_SETS = [[0.1, 0.3, 0.5, 0.9], [0.1, 0.4, 0.6, 0.9], [0.1, 0.5, 0.9], [0.2, 0.3, 0.5, 0.7, 0.9],
             # the first set with inner edges one ulp higher (what np.linspace / a text round trip gives instead of the
             # literals): a different binning - objects exactly on the shifted edge change bins
             [0.1, float(np.nextafter(0.3, 1.0)), float(np.nextafter(0.5, 1.0)), 0.9]]


NESTED = [([0.1, 0.3, 0.5, 0.9], [0.1, 0.5, 0.9]), ([0.2, 0.3, 0.5, 0.7, 0.9], [0.2, 0.5, 0.9]), ([0.1, 0.3, 0.5, 0.9], [0.1, 0.9]),
          ([0.2, 0.3, 0.5, 0.7, 0.9], [0.3, 0.7])]


def enc_bin(b):
    if b is None:
        return "u"
    edges, closed = b
    return f"{len(edges)} {1 if closed == 'left' else 0} " + " ".join(fr(e) for e in edges)


def show_bin(b):
    if b is None:
        return "u"
    edges, closed = b
    from fractions import Fraction
    return ("L" if closed == "left" else "R") + "[" + ",".join(
        (lambda q: str(q.numerator) if q.denominator == 1 else f"{q.numerator}/{q.denominator}")(Fraction(*float(e).as_integer_ratio()))
        for e in edges) + "]"


def observe(cat, z_by_patch):
    """(marker, trees) of every patch, canonical strings like the model's; trees decoded from per-bin sizes"""
    out = []
    for pid in cat.keys():
        pdir = cat[pid].cache_path
        mfile = pdir / "binning"
        if not mfile.exists():
            marker = "-"
        else:
            raw = mfile.read_bytes()
            closed = "left" if raw[0] else "right"
            edges = np.frombuffer(raw[1:], dtype=np.float64)
            marker = "u" if len(edges) == 0 else show_bin((edges.tolist(), closed))
        tfile = pdir / "trees.pkl"
        if not tfile.exists():
            trees = "-"
        else:
            with open(tfile, "rb") as f:
                t = pickle.load(f)
            z = z_by_patch[pid]
            if not isinstance(t, tuple):
                trees = "u" if t.num_records == len(z) else f"?unbinned:{t.num_records}"
            else:
                sizes = [x.num_records for x in t]
                trees = f"?sizes:{sizes}"
                for e in EDGE_SETS + [co for _, co in NESTED if co not in EDGE_SETS]:
                    for closed in ("left", "right"):
                        if len(e) - 1 != len(sizes):
                            continue
                        if closed == "right":
                            exp = [int(((z > e[b]) & (z <= e[b + 1])).sum()) for b in range(len(e) - 1)]
                        else:
                            exp = [int(((z >= e[b]) & (z < e[b + 1])).sum()) for b in range(len(e) - 1)]
                        if exp == sizes:
                            # several binnings may explain the sizes: keep all candidates
                            trees = (trees + "|" if not trees.startswith("?") else "") + show_bin((e, closed))
        out.append((marker, trees))
    return out


def run(prop, tier, seed, replay):
    import yaw
    from yaw import AngularCoordinates, Catalog, Configuration

    ck = Check(prop, tier, seed, kernels=["k_cache"], theorems=THEOREMS, lean_modules=["YawVerif.Props.C07"], rule=RULE,
               assumptions=["pickle round-trips the trees; file writes take effect in program order"])
    ck.translate()
    ck.lean_check()
    rng = ck.rng
    n_hist = 24 if tier == "quick" else 200
    root = C.scratch_root()
    reqs, expect = [], []
    try:
        with C.Workers(1):
            for hi in range(n_hist):
                field = G.make_field(rng, num_patches=rng.choice([1, 2, 3]), spread=0.05)
                cents = AngularCoordinates(np.column_stack([field["ra"], field["dec"]]))
                samples = {}
                for name, n in (("D", 40), ("R", 60), ("U", 50)):
                    s = G.make_sample(rng, field, n=n, extent_mode="wide", zrange=(0.05, 1.0),
                                      edges=sorted({e for es in EDGE_SETS for e in es}), weights=False, z_on_edges=0.5)
                    samples[name] = s

                def create(tag):
                    return {k: C.make_catalog(root / f"{tag}_{k}", s["ra"], s["dec"], z=s["z"], centers=cents)
                            for k, s in samples.items()}
                try:
                    cats = create(f"h{hi}")
                except ValueError:
                    ck.count("rejected:empty-patch")
                    continue
                zpp = {k: {pid: cats[k][pid].redshifts for pid in cats[k].keys()} for k in cats}
                handles = {k: [c] for k, c in cats.items()}

                forced = []           # scripted histories name the handle to use (index into handles[k])

                def pick(k):
                    if forced:
                        return handles[k][min(forced[0], len(handles[k]) - 1)]
                    return rng.choice(handles[k])
                length = rng.randrange(2, 11 if tier == "quick" else 31)
                # stratum (every 4th history): measure with B1 through the first handles, rebuild with another binning
                # through handles opened later, measure with B1 again through the FIRST handles
                script = None
                if hi % 4 == 0:
                    b1 = (rng.choice(EDGE_SETS), rng.choice(["left", "right"]))
                    b2 = b1
                    while b2 == b1:
                        b2 = (rng.choice(EDGE_SETS), rng.choice(["left", "right"]))
                    if hi % 8 == 0:       # the pair of binnings that differ by one ulp in their inner edges, same closed side
                        side = rng.choice(["left", "right"])
                        b1, b2 = (EDGE_SETS[4], side), (EDGE_SETS[0], side)
                    m = rng.choice(["auto", "cross"])
                    script = [((m, b1), 0), (("reopen", "D"), 0), (("reopen", "R"), 0), (("reopen", "U"), 0),
                              ((m, b2), 1), ((m, b1), 0)]
                    if hi % 8 == 0:
                        # the last measurement must not find trees of the nearly equal binning acceptable
                        script = [((m, b2), 0), ((m, b1), 0)]
                    if hi % 8 == 4:
                        # a coarse binning whose edges are ALL edges of the finer binning measured before (every second edge, the
                        # outer edges only, an inner sub-range): none of the cached per-bin trees is a tree of the coarse binning
                        fine, coarse = NESTED[(hi // 8) % len(NESTED)]
                        side = rng.choice(["left", "right"])
                        script = [((m, (fine, side)), 0), ((m, (coarse, side)), 0)]
                        ck.count("stratum=nested-binnings")
                    length = len(script)
                no_model = False
                if hi % 4 == 2:
                    # stratum: the patches of one cache do NOT all hold trees for the same binning (a single patch was
                    # rebuilt through BinnedTrees.build, as an interrupted catalog-wide build leaves it) — the patch that
                    # is looked at first already matches the binning measured next
                    b1 = (rng.choice(EDGE_SETS), rng.choice(["left", "right"]))
                    b2 = b1
                    while b2 == b1:
                        b2 = (rng.choice(EDGE_SETS), rng.choice(["left", "right"]))
                    m = rng.choice(["auto", "cross"])
                    script = [((m, b2), 0), (("pbuild", "D", 0, b1), 0), (("pbuild", "R", 0, b1), 0), ((m, b1), 0)]
                    if hi % 8 == 6:
                        script.insert(1, (("pbuild", "D", -1, b1), 0))
                    length = len(script)
                    no_model = True       # per-patch histories differ: only the final result is compared
                ops, model_ops = [], {k: [] for k in cats}
                states = {k: [] for k in cats}
                rep = {"history": [], "samples": {k: {a: np.asarray(v).tolist() for a, v in s.items() if a in ("ra", "dec", "z")}
                                                  for k, s in samples.items()},
                       "centres": [field["ra"].tolist(), field["dec"].tolist()]}

                def rand_bin():
                    if rng.random() < 0.2:
                        return None
                    return (rng.choice(EDGE_SETS), rng.choice(["left", "right"]))

                def config_for(b):
                    return Configuration.create(rmin=0.005, rmax=0.05, unit="rad", edges=b[0], closed=b[1])

                def do(op):
                    kind = op[0]
                    if kind == "build":
                        _, k, b, force = op
                        pick(k).build_trees(None if b is None else b[0], closed="right" if b is None else b[1], force=force)
                        model_ops[k].append(f"b {enc_bin(b)} {int(force)}")
                        touched = [k]
                    elif kind == "pbuild":
                        _, k, which, b = op
                        from yaw.binning import Binning
                        from yaw.catalog.trees import BinnedTrees
                        cat_ = pick(k)
                        pid = sorted(cat_.keys())[which]
                        BinnedTrees.build(cat_[pid], Binning(np.asarray(b[0], dtype=float), closed=b[1]))
                        touched = []
                    elif kind == "reopen":
                        _, k = op
                        # a second handle on the same cache; the older handles stay alive and keep being used
                        handles[k].append(Catalog(root / f"h{hi}_{k}"))
                        model_ops[k].append("r")
                        touched = [k]
                    elif kind == "auto":
                        _, b = op
                        res = yaw.autocorrelate(config_for(b), pick("D"), pick("R"), count_rr=True)
                        model_ops["D"].append(f"m {enc_bin(b)}")
                        model_ops["R"].append(f"m {enc_bin(b)}")
                        touched = ["D", "R"]
                        op = op + (res,)
                    else:
                        _, b = op
                        res = yaw.crosscorrelate(config_for(b), pick("D"), pick("U"), ref_rand=pick("R"))
                        model_ops["D"].append(f"m {enc_bin(b)}")
                        model_ops["R"].append(f"m {enc_bin(b)}")
                        model_ops["U"].append("m u")
                        touched = ["D", "R", "U"]
                        op = op + (res,)
                    for k in touched:
                        states[k].append(observe(cats[k], zpp[k]))
                    return op

                final_res = None
                for step in range(length):
                    last = step == length - 1
                    kind = rng.choice(["build", "build", "reopen", "auto", "cross"]) if not last else rng.choice(["auto", "cross"])
                    forced.clear()
                    if script is not None:
                        op, hidx = script[step]
                        forced.append(hidx)
                        kind = "scripted"
                    elif kind == "build":
                        op = ("build", rng.choice(["D", "R", "U"]), rand_bin(), rng.random() < 0.25)
                    elif kind == "reopen":
                        op = ("reopen", rng.choice(["D", "R", "U"]))
                    else:
                        b = rand_bin()
                        while b is None:
                            b = rand_bin()
                        op = (kind, b)
                    rep["history"].append([str(x) for x in op])
                    try:
                        op = do(op)
                    except Exception as e:  # noqa: BLE001
                        ck.add_violation(f"operation {op[:2]} after history {rep['history'][:-1]} raised "
                                         f"{type(e).__name__}: {e}", rep)
                        final_res = None
                        break
                    ops.append(op)
                    if last:
                        final_res = op
                for k in cats:
                    C.remove(root / f"h{hi}_{k}")
                if final_res is None:
                    continue
                # ---- the same measurement on fresh caches -----------------------------------------------------
                fresh = create(f"f{hi}")
                kind, b, res = final_res
                conf = config_for(b)
                if kind == "auto":
                    ref = yaw.autocorrelate(conf, fresh["D"], fresh["R"], count_rr=True)
                else:
                    ref = yaw.crosscorrelate(conf, fresh["D"], fresh["U"], ref_rand=fresh["R"])
                for k in fresh:
                    C.remove(root / f"f{hi}_{k}")
                differs_before = any(o[0] == "build" and o[2] != b for o in ops) or any(
                    o[0] in ("auto", "cross") and o[1] != b for o in ops[:-1])
                ck.count(f"final={kind}")
                ck.count(f"length={length}")
                ck.case({"history": rep["history"]} if len(ck.samples) < 3 else None,
                        tuple(map(tuple, rep["history"])) if differs_before else None)
                if not all(x == y for x, y in zip(res, ref)):
                    ck.add_violation(f"the measurement after the history {rep['history'][:-1]} differs from the same "
                                     f"measurement on fresh caches (final: {rep['history'][-1]})", rep)
                    continue
                for k in cats:
                    if model_ops[k] and not no_model:
                        reqs.append(f"h{hi}{k} hist {len(model_ops[k])} " + " ".join(model_ops[k]))
                        expect.append((states[k], rep, k))
        # ---- stratum: patch pairs that are linked by the narrowest margin (the outermost objects of two neighbouring patches,
        #      in line with both centres, separated by the largest scale minus 3e-11 rad).  What a handle knows about its
        #      patches (centres, radii) decides such a link: created, reopened and re-reopened handles, before and after tree
        #      builds, must give the measurement of fresh caches — two runs of the implementation compared bit for bit
        from yaw import Configuration as _Conf
        with C.Workers(1):
            nprng_m = np.random.default_rng(rng.randrange(2 ** 32))
            ras, pids = [], []
            npair = 8
            for q in range(npair):
                base = 0.3 + 0.5 * q + float(nprng_m.uniform(0, 1e-3))
                jit = nprng_m.uniform(0, 1e-4, 6)
                left = [base, base + 0.0005 + jit[0], base + 0.001 + jit[1], base + 0.010]                 # facing object: base + 0.010
                right = [base + 0.030, base + 0.039 + jit[2], base + 0.0395 + jit[3], base + 0.040]        # facing object: base + 0.030
                ras += left + right
                pids += [2 * q] * 4 + [2 * q + 1] * 4
            ras, pids = np.array(ras), np.array(pids)
            decs = np.zeros_like(ras)
            zs = np.full_like(ras, 0.5)
            sep = float(np.min([ras[8 * q + 4] - ras[8 * q + 3] for q in range(npair)]))

            def make(tag):
                return (C.make_catalog(root / f"{tag}_D", ras, decs, z=zs, patch=pids),
                        C.make_catalog(root / f"{tag}_R", ras, decs, z=zs, patch=pids))

            def measure_m(pair):
                return yaw.autocorrelate(conf_m, pair[0], pair[1], count_rr=True)

            def reopen(tag):
                return (Catalog(root / f"{tag}_D"), Catalog(root / f"{tag}_R"))
            conf_m = _Conf.create(rmin=0.015, rmax=sep + 3e-11 + 1e-13, unit="rad", edges=[0.1, 1.0])
            # (only pairs whose facing objects are exactly `sep` apart up to 1e-13 are marginal; the others are linked clearly
            #  or not at all — what matters is that every handle sees the SAME links)
            fresh_m = measure_m(make("mf"))
            cat_m = make("mh")
            results = {"created handle": measure_m(cat_m)}
            results["reopened handle"] = measure_m(reopen("mh"))
            again = reopen("mh")
            again[0].build_trees([0.1, 1.0], closed="right", force=True)
            results["reopened after a forced build"] = measure_m(reopen("mh"))
            ck.case(None, ("marginal-links", npair))
            ck.count("stratum=marginal-links")
            for label, res_m in results.items():
                if not all(x == y for x, y in zip(res_m, fresh_m)):
                    a_, b_ = res_m[0].dd.counts.counts.sum(), fresh_m[0].dd.counts.counts.sum()
                    ck.add_violation(f"autocorrelation of 16 patches whose neighbours are linked by a margin of 3e-11 rad: the {label} "
                                     f"counts {a_} pairs, fresh caches {b_}",
                                     {"history": [["create"], [label], ["auto"]], "ra": ras.tolist(), "patch": pids.tolist(),
                                      "rmax_rad": sep + 3e-11 + 1e-13})
                    break
            for t_ in ("mf_D", "mf_R", "mh_D", "mh_R"):
                C.remove(root / t_)
    finally:
        C.remove(root)
    ans = ck.driver("GenCache", reqs)
    if ans is not None:
        for (obs, rep, k), a in zip(expect, ans):
            model_states = a.split()
            for step, (m, patches) in enumerate(zip(model_states, obs)):
                mm, mt = m.split("~")
                for marker, trees in patches:
                    if marker != mm or (mt not in trees.split("|")):
                        ck.add_tie_break("cache state after an operation vs model",
                                         {"catalog": k, "step": step, "model": m, "impl": [marker, trees],
                                          "history": rep["history"]})
                        break
                else:
                    continue
                break
    return ck.finish()
