"""C01 — pair counts are exact and complete for every catalog and configuration."""
from __future__ import annotations

import json
import warnings

import numpy as np

import catalogs as C
import gen_sky as G
import oracle as O
from core import Check, Infra, fr, to_frac

np.seterr(all="ignore")
warnings.filterwarnings("ignore")

THEOREMS = [
    "Yaw.C01.fine_counts_exact", "Yaw.C01.limit_sum_exact", "Yaw.C01.tree_pair_count_exact",
    "Yaw.C01.weighted_contribution", "Yaw.C01.iterPairs_complete", "Yaw.C01.iterPairs_exactly_once",
    "Yaw.C01.emit_guard", "Yaw.C01.diag_value", "Yaw.C01.pruned_sep", "Yaw.C01.linked_refl_symm",
    "Yaw.C01.link_tie_witness", "Yaw.C01.count_pairs_eq_spec_partial", "Yaw.C01.glue_pinned",
    "Yaw.PC.pruned_pairs_empty", "Yaw.PC.pruned_pairs_empty_notie", "Yaw.PC.cntLe_split", "Yaw.PC.cnt_split",
    "Yaw.PC.argminAbs_mem", "Yaw.PC.columns_perm", "Yaw.C01.tree_pair_count_exact_merged"]
KERNELS = ["k_paircount", "k_tree"]
RULE = ("catalog sets sharing patch centres (1..6 patches; base position on the equator, across RA=0, on either pole; "
        "compact / wide / mixed patch extents; data vs randoms of different size and extent; integer weights or none; "
        "redshifts incl. exact bin edges) x configurations (1..3 scales incl. overlapping, units rad/deg/arcmin/kpc/Mpc/"
        "kpc/h/Mpc/h, zmin down to 0.005 and bins beyond the D_A turnover, both closed sides, separation weighting "
        "on/off) measured with autocorrelate / crosscorrelate and compared with an independent O(n^2) oracle: counts "
        "per scale/bin/patch pair EXACT (1e-12 relative with separation weighting) and sum_weights EXACT. Cases whose "
        "closest pair separation is within 1e-9 (relative) of a threshold are rejected (guard band). non-trivial: "
        ">= 2 patches, >= 1 non-zero off-diagonal cell in the oracle and >= 1 patch pair farther apart than the "
        "largest scale; distinct by (seeded case description)")


def make_config(rng, cosmo_name=None, ci=None):
    import cosmos
    from yaw import Configuration
    B = rng.choice([1, 2, 3])
    zlo = rng.choice([0.005, 0.01, 0.07, 0.3, 1.0, 1.6])
    widths = [rng.choice([0.02, 0.1, 0.5, 1.5]) for _ in range(B)]
    edges = np.concatenate([[zlo], zlo + np.cumsum(widths)])
    unit = rng.choice(["rad", "deg", "arcmin", "kpc", "Mpc", "Mpc/h", "kpc/h", "Mpc", "kpc"])
    # named flat models, curved models and a user-defined cosmology (objects) by turns: D_A differs from D_C / (1 + z)
    cosmo_name = cosmo_name or (rng.choice(["Planck15", "Planck15", "WMAP9"]) if ci is None
                                else cosmos.NAMES[(ci // 2) % len(cosmos.NAMES)])
    cosmo_arg, cosmology = cosmos.get(cosmo_name)
    if cosmo_name in ("custom", "open", "closed") and unit in ("rad", "deg", "arcmin") and ci is not None:
        unit = ["kpc", "Mpc/h", "Mpc", "kpc/h"][(ci // 12) % 4]      # a non-standard cosmology shows only in physical / comoving scales
    S = rng.choice([1, 1, 2, 3])
    zref = float((edges[0] + edges[1]) / 2)
    scales = []
    for _ in range(S):
        tmin = rng.choice([0.002, 0.01, 0.03])
        tmax = tmin * rng.choice([2.0, 5.0, 12.0])
        scales.append((tmin, min(tmax, 0.45)))
    # convert target angles at zref to the unit
    one = float(O.angle_of_scale(1.0, unit, zref, cosmology))
    rmin = [float(f"{a / one:.4g}") for a, _ in scales]
    rmax = [float(f"{b / one:.4g}") for _, b in scales]
    rmin, rmax = [a for a, b in zip(rmin, rmax) if a < b], [b for a, b in zip(rmin, rmax) if a < b]
    rweight = rng.choice([None, None, None, -1.0, 0.5])
    resolution = rng.choice([3, 5, 10]) if rweight is not None else None
    closed = rng.choice(["left", "right"])
    kw = dict(rmin=rmin if len(rmin) > 1 else rmin[0], rmax=rmax if len(rmax) > 1 else rmax[0], unit=unit,
              rweight=rweight, resolution=resolution, edges=edges.tolist(), closed=closed, cosmology=cosmo_name)
    return Configuration.create(**dict(kw, cosmology=cosmo_arg)), kw, cosmology


def make_stress_config(rng, which):
    """configurations in which the pruning of distant patch pairs is tight: physical scales with the lowest
    bin centred below z = 0.05 ('lowz') or bins beyond the turnover of the angular diameter distance ('turnover')"""
    import astropy.cosmology
    from yaw import Configuration
    cosmo_name = "Planck15"
    cosmology = getattr(astropy.cosmology, cosmo_name)
    if which == "lowz":
        edges = rng.choice([[0.01, 0.03], [0.005, 0.015, 0.06], [0.02, 0.04, 0.3]])
    else:
        edges = rng.choice([[1.0, 2.2, 7.0], [0.9, 1.5, 3.0, 8.0]])
    mids = [(a + b) / 2 for a, b in zip(edges[:-1], edges[1:])]
    unit = rng.choice(["Mpc", "kpc"])
    target = 0.3                                   # largest angle over all bin centres
    one = max(float(O.angle_of_scale(1.0, unit, z, cosmology)) for z in mids)
    rmax = float(f"{target / one:.4g}")
    rmin = float(f"{rmax / 15:.4g}")
    closed = rng.choice(["left", "right"])
    kw = dict(rmin=rmin, rmax=rmax, unit=unit, rweight=None, resolution=None, edges=list(edges), closed=closed,
              cosmology=cosmo_name)
    return Configuration.create(**kw), kw, cosmology


def build_catalog(path, sample, field, mode):
    from yaw import AngularCoordinates
    if mode == "centers":
        cents = AngularCoordinates(np.column_stack([field["ra"], field["dec"]]))
        return C.make_catalog(path, sample["ra"], sample["dec"], z=sample["z"], w=sample["w"], centers=cents)
    return C.make_catalog(path, sample["ra"], sample["dec"], z=sample["z"], w=sample["w"], patch=sample["patch"])


def oracle_patch_ids(sample, field, mode):
    if mode != "centers":
        return sample["patch"]
    v = O.to_vec(sample["ra"], sample["dec"])
    d = ((v[:, None, :] - field["vec"][None, :, :]) ** 2).sum(axis=2)
    return np.argmin(d, axis=1)


def compare(ck, label, nc_list, cat1, cat2, cfgkw, cosmology, N, binned2, rep):
    """real NormalisedCounts per scale vs oracle"""
    rmin, rmax = np.atleast_1d(cfgkw["rmin"]), np.atleast_1d(cfgkw["rmax"])
    counts, sw1, sw2, margin = O.pair_counts(
        cat1, cat2, num_patches=N, edges=np.array(cfgkw["edges"]), closed=cfgkw["closed"], rmin=rmin, rmax=rmax,
        unit=cfgkw["unit"], cosmology=cosmology, rweight=cfgkw["rweight"], resolution=cfgkw["resolution"],
        binned2=binned2)
    if margin < 1e-9:
        return "guard", counts
    for s, nc in enumerate(nc_list):
        got = nc.counts.get_array()
        exp = counts[s]
        if cfgkw["rweight"] is None:
            ok = np.array_equal(got, exp)
        else:
            ok = np.allclose(got, exp, rtol=1e-12, atol=1e-300)
        if not ok:
            idx = np.argwhere(~np.isclose(got, exp, rtol=1e-12, atol=0))
            b, i, j = (int(x) for x in idx[0])
            ck.add_violation(
                f"{label} pair counts differ from the brute-force count: scale {s} bin {b} patches ({i},{j}): "
                f"measured {got[b, i, j]!r}, all pairs in (theta_min, theta_max] give {exp[b, i, j]!r} "
                f"(total {got.sum()!r} vs {exp.sum()!r})", dict(rep, term=label, scale=s, bin=b, cell=[i, j]),
                signature=None)
            return "bad", counts
        g1, g2 = nc.sum_weights.sum_weights1, nc.sum_weights.sum_weights2
        if not (np.array_equal(g1, sw1) and np.array_equal(g2, sw2)):
            ck.add_violation(f"{label} stored sum of weights differs from the true per-bin per-patch sums",
                             dict(rep, term=label, scale=s, what="sum_weights"))
            return "bad", counts
    return "ok", counts


def tie_requests(ck, config, cfgkw, cats, kind, ci, rng):
    """requests that tie the Lean model of AngularTree.count / PatchLinkage to the real code (comparison (a))"""
    from yaw.catalog.trees import BinnedTrees, get_ang_bins, logarithmic_mid, parse_ang_limits
    from yaw.coordinates import AngularDistances
    from yaw.correlation.measurements import PatchLinkage, get_max_angle
    from core import fr
    out = []
    auto = kind == "auto"
    links = PatchLinkage.from_catalogs(config, *cats)
    # -- link predicate on the very floats the implementation compares (glue replicated, see pinFromCatalogs)
    ref, *others = sorted(cats, key=lambda c: c.get_num_records(), reverse=True)
    centers, radii = ref.get_centers(), ref.get_radii()
    for c in others:
        reach = centers.distance(c.get_centers()) + c.get_radii()
        radii = AngularDistances(np.maximum(radii.data, reach.data))
    amax = float(get_max_angle(config).data[0])
    ids = list(ref.keys())
    toks, expect = [], []
    for a, (i, ci_, ri) in enumerate(zip(ids, centers, radii)):
        d = centers.distance(ci_).data
        for j, dj, rj in zip(ids, d, radii.data):
            tot = float(rj) + float(ri.data[0]) + amax
            if abs(dj - tot) <= 1e-12 * tot:
                continue        # guard band: float sum vs exact sum
            toks += [fr(dj), fr(ri.data[0]), fr(rj), fr(amax)]
            expect.append(j in links.patch_links[i])
    out.append((f"{ci}.linked", "linked " + str(len(expect)) + " " + " ".join(toks), ("linked", expect)))
    # -- iteration over the link sets
    rows = " ".join(f"{i} {len(l) - (1 if i in l else 0)} " + " ".join(str(j) for j in sorted(l) if j != i)
                    for i, l in links.patch_links.items())
    emitted = sorted(links.iter_patch_id_pairs(auto=auto))
    out.append((f"{ci}.iter", f"iterpairs {int(auto)} {len(links.patch_links)} {rows}", ("iter", emitted)))
    # -- AngularTree.count on real trees
    mids = config.binning.binning.mids
    N = len(cats[0])
    for _ in range(3):
        i, j, b = rng.randrange(N), rng.randrange(N), rng.randrange(len(mids))
        t1 = list(BinnedTrees(cats[0][i]))[b] if True else None
        c2 = cats[0] if auto else cats[1]
        trees2 = BinnedTrees(c2[j])
        t2 = trees2.trees[b] if trees2.is_binned() else trees2.trees
        if t1.tree is None or t2.tree is None or t1.num_records * t2.num_records > 4000:
            continue
        amin, amaxs = config.scales.scales.get_angle_radian(mids[b], cosmology=config.cosmology)
        lims = parse_ang_limits(amin, amaxs)
        bins = get_ang_bins(lims, config.scales.rweight, config.scales.resolution)
        chord = AngularDistances(bins).to_3d()
        x1, x2 = t1.data, t2.data
        w1 = t1.weights if t1.weights is not None else np.ones(len(x1))
        w2 = t2.weights if t2.weights is not None else np.ones(len(x2))
        dist = np.sqrt(((x1[:, None, :] - x2[None, :, :]) ** 2).sum(axis=2))
        if min(float(np.min(np.abs(dist - t) / t)) for t in chord) < 1e-9:
            continue
        impl = t1.count(t2, amin, amaxs, weight_scale=config.scales.rweight, weight_res=config.scales.resolution)
        toks = [str(len(bins))] + [fr(float(c) ** 2) if False else fr(to_frac(c) ** 2) for c in chord]
        if config.scales.rweight is not None:
            om = logarithmic_mid(bins) ** config.scales.rweight
            toks += ["1"] + [fr(o) for o in om]
        else:
            toks += ["0"]
        toks.append(str(len(lims)))
        for lo, hi in lims:
            clo, chi = AngularDistances(np.array([lo, hi])).to_3d()
            # the limits enter the nearest-edge search as angles; on the squared-chord axis the same edge is nearest
            ia, ib = int(np.argmin(np.abs(bins - lo))), int(np.argmin(np.abs(bins - hi)))
            toks += [fr(to_frac(chord[ia]) ** 2), fr(to_frac(chord[ib]) ** 2)]
        pairs = []
        for a in range(len(x1)):
            for c in range(len(x2)):
                d2 = sum((to_frac(x1[a, k]) - to_frac(x2[c, k])) ** 2 for k in range(3))
                pairs += [fr(to_frac(w1[a]) * to_frac(w2[c])), fr(d2)]
        toks.append(str(len(x1) * len(x2)))
        toks += pairs
        out.append((f"{ci}.tree{i}.{j}.{b}", "treecount " + " ".join(toks),
                    ("tree", [float(v) for v in impl], config.scales.rweight is not None)))
    return out


def run_case(ck, rng, root, ci, tier):
    import yaw
    from yaw.catalog.catalog import InconsistentPatchesError
    stress = {1: "lowz", 3: "turnover", 5: "lowz", 7: "turnover"}.get(ci % 8)
    if ci % 16 == 2:
        stress = "hemispheres"
    if ci % 16 == 10:
        stress = "arcsec"
    if stress == "arcsec":
        # stratum: arc-second scales whose limits nearly touch (1.0" and 1.001" are 5e-9 rad apart): every limit has its own
        # edge in the merged grid, however close two edges are
        import astropy.cosmology
        from yaw import Configuration
        cfgkw = dict(rmin=[0.5, 1.001, 2.0005], rmax=[1.0, 2.0, 4.0], unit="arcsec", rweight=None, resolution=None,
                     edges=[0.1, 0.6, 1.1], closed=rng.choice(["left", "right"]), cosmology="Planck15")
        config, cosmology = Configuration.create(**cfgkw), astropy.cosmology.Planck15
        field = G.make_field(rng, num_patches=rng.choice([2, 3]), spread=3e-5)
    elif stress == "hemispheres":
        # stratum: a full-sky sample cut into two halves (antipodal centres, patch radii near pi / 2): radius + radius + reach
        # exceeds pi, and the pairs across the boundary are a large part of the signal
        import astropy.cosmology
        from yaw import Configuration
        cfgkw = dict(rmin=0.05, rmax=rng.choice([0.3, 0.5]), unit="rad", rweight=None, resolution=None,
                     edges=[0.1, 0.6, 1.1], closed=rng.choice(["left", "right"]), cosmology="Planck15")
        config, cosmology = Configuration.create(**cfgkw), astropy.cosmology.Planck15
        nprng_h = np.random.default_rng(rng.randrange(2 ** 32))
        axis = nprng_h.normal(size=3)
        axis /= np.linalg.norm(axis)
        vec_h = np.array([axis, -axis])
        ra_h, dec_h = G.from_vec(vec_h)
        field = dict(base="hemispheres", N=2, spread=np.pi, vec=G.to_vec(ra_h, dec_h), ra=ra_h, dec=dec_h, nprng=nprng_h)
    elif stress:
        config, cfgkw, cosmology = make_stress_config(rng, stress)
        field = G.make_field(rng, num_patches=rng.choice([4, 5, 6]), spread=0.3)
    else:
        config, cfgkw, cosmology = make_config(rng, ci=ci)
        field = G.make_field(rng)
        if ci % 8 == 4:
            import astropy.cosmology
            from yaw import Configuration
            cfgkw = dict(rmin=0.004, rmax=0.03, unit="rad", rweight=None, resolution=None, edges=[0.1, 0.6, 1.1],
                         closed=rng.choice(["left", "right"]), cosmology="Planck15")
            config, cosmology = Configuration.create(**cfgkw), astropy.cosmology.Planck15
            field = G.make_field(rng, spread=0.1, num_patches=rng.choice([3, 4, 5]))
    ck.count(f"stratum={stress or 'general'}")
    N = field["N"]
    edges = cfgkw["edges"]
    kind = ["auto", "cross"][ci % 2]
    mode = "centers" if rng.random() < 0.85 else "name"
    if not stress and ci % 8 == 4:
        mode = "centers"          # all catalogs on exactly the same given centres
    zr = (edges[0] - 0.2 * (edges[-1] - edges[0]), edges[-1] + 0.2 * (edges[-1] - edges[0]))
    nmax = 60 if tier == "quick" else 250
    sizes = [rng.choice([max(N, 8), 25, nmax]) for _ in range(4)]
    ext = [rng.choice(["compact", "wide", "mixed"]) for _ in range(4)]
    if not stress and ci % 8 == 4:
        # stratum: the LARGEST catalog (most records in the first patch - the one a reference is picked by) is compact, the others
        # are smaller and wide, the centres a few wide-patch radii apart: patch pairs are in reach of each other only through
        # the wide catalogs, whose radii must count
        sizes = [nmax, 25, 25, 25]
        ext = ["compact", "wide", "wide", "wide"]
        ck.count("stratum=compact-reference-wide-others")
    if stress:
        ext = [{"hemispheres": "hemisphere", "arcsec": "arcsec"}.get(stress, "compact")] * 4
    # weights: all samples weighted / none / mixed (weighted data against unweighted randoms and vice versa), by turns
    wmode = ["all", "mixed", "none", "mixed-reversed"][ci % 4]
    wflags = {"all": [True] * 4, "none": [False] * 4, "mixed": [True, False, True, False],
              "mixed-reversed": [False, True, False, True]}[wmode]
    ck.count(f"weights={wmode}")
    samples = [G.make_sample(rng, field, n=max(sizes[k], N), extent_mode=ext[k], zrange=zr, edges=edges,
                             weights=wflags[k]) for k in range(4)]
    if stress == "arcsec":
        # pairs planted just outside / inside the nearly touching limits (separations 1.0005", 2.0002", 0.9995", 1.5" along RA)
        asec = np.pi / 180 / 3600
        for smp in samples:
            m_ = min(8, len(smp["ra"]))
            seps = np.array([1.0005, 2.0002, 0.9995, 1.5, 1.0005, 2.0002, 2.00049, 1.00099])[:m_] * asec
            add = {"ra": smp["ra"][:m_] + seps / np.cos(smp["dec"][:m_]), "dec": smp["dec"][:m_].copy(), "z": smp["z"][:m_].copy(),
                   "patch": np.asarray(smp["patch"])[:m_].copy()}
            if smp.get("w") is not None:
                add["w"] = smp["w"][:m_].copy()
            for key, val in add.items():
                smp[key] = np.concatenate([np.asarray(smp[key]), val])
    if ci % 5 == 4:
        # stratum: samples with repeated rows (bootstrap resamples, an object listed twice): every row is an object
        for smp in samples:
            n_ = len(smp["ra"])
            pick_ = np.array([rng.randrange(n_) for _ in range(n_)])
            # keep every patch populated: the first occurrence of each patch stays
            keep_ = np.array(sorted({int(np.argmax(np.asarray(smp["patch"]) == p)) for p in set(np.asarray(smp["patch"]).tolist())}))
            pick_[: len(keep_)] = keep_
            for key in ("ra", "dec", "z", "w", "patch"):
                if isinstance(smp.get(key), np.ndarray):
                    smp[key] = smp[key][pick_]
        ck.count("stratum=repeated-rows")
    rep = {"config": cfgkw, "kind": kind, "mode": mode, "field": {"ra": field["ra"].tolist(), "dec": field["dec"].tolist(),
           "base": field["base"]}, "samples": [{k: (None if v is None else np.asarray(v).tolist()) for k, v in s.items()
                                                if k != "extent"} for s in samples]}
    desc = (kind, mode, cfgkw["unit"], cfgkw["closed"], str(cfgkw["rweight"]), field["base"], N, tuple(sizes), tuple(ext),
            tuple(cfgkw["edges"]))
    ck.count(f"kind={kind}")
    ck.count(f"unit={cfgkw['unit']}")
    ck.count(f"base={field['base']}")
    ck.count(f"mode={mode}")
    ck.count(f"N={N}")
    ck.count(f"rweight={cfgkw['rweight'] is not None}")
    try:
        cats = [build_catalog(root / f"c{ci}_{k}", samples[k], field, mode) for k in range(4 if kind == "cross" else 2)]
    except ValueError as e:
        ck.count("rejected:creation:" + str(e)[:30])
        return
    data = [O.CatData(s["ra"], s["dec"], oracle_patch_ids(s, field, mode), z=s["z"], w=s["w"]) for s in samples]
    try:
        if kind == "auto":
            cfs = yaw.autocorrelate(config, cats[0], cats[1], count_rr=True)
            terms = [("dd", 0, None, True), ("dr", 0, 1, True), ("rr", 1, None, True)]
        else:
            use_rr = rng.random() < 0.5
            kw = dict(unk_rand=cats[3])
            if use_rr:
                kw["ref_rand"] = cats[2]
            cfs = yaw.crosscorrelate(config, cats[0], cats[1], **kw)
            terms = [("dd", 0, 1, False), ("dr", 0, 3, False)]
            if use_rr:
                terms += [("rd", 2, 1, False), ("rr", 2, 3, False)]
    except InconsistentPatchesError:
        ck.count("rejected:inconsistent-patches")
        return
    except Exception as exc:  # noqa: BLE001
        ck.case(None, desc)
        ck.add_violation(f"{kind}correlate raised {type(exc).__name__}: {exc} on catalogs sharing their patch centres "
                         "and an accepted configuration (no pair counts returned)", dict(rep, what="raises"))
        return "bad"
    if ci < ck.extra.get("tie_cases", 6) and ck.extra.get("tie_enabled", True):
        try:
            ck.extra.setdefault("tie_reqs", []).extend(
                tie_requests(ck, config, cfgkw, cats[:2] if kind == "auto" else [cats[0], cats[1], cats[3]],
                             kind, ci, rng))
        except InconsistentPatchesError:
            pass
        except Exception as exc:  # noqa: BLE001
            ck.add_tie_break("model tie could not be evaluated", {"error": f"{type(exc).__name__}: {exc}"})
    nontriv = False
    status = "ok"
    for name, a, b, binned2 in terms:
        ncs = [getattr(cf, name) for cf in cfs]
        st, counts = compare(ck, f"{kind}:{name}", ncs, data[a], None if b is None else data[b], cfgkw, cosmology, N,
                             binned2, rep)
        if st == "guard":
            ck.count("rejected:guard-band")
            return
        if st == "bad":
            status = "bad"
            break
        off = counts.copy()
        for i in range(N):
            off[:, :, i, i] = 0
        nontriv = nontriv or (N >= 2 and off.any())
    ck.case({"kind": kind, "mode": mode, "config": cfgkw, "N": N, "sizes": sizes, "extent": ext,
             "base": field["base"]} if len(ck.samples) < 3 else None, desc if nontriv else None)
    # stratum: the same catalogs measured again with the other closed side (same edges) — the caches now hold trees of
    # the first measurement; the counts must still be those of the configuration given NOW
    if status == "ok" and ci % 3 == 0:
        other = "left" if cfgkw["closed"] == "right" else "right"
        cfgkw2 = dict(cfgkw, closed=other)
        try:
            config2 = config.modify(closed=other)
            if kind == "auto":
                cfs2 = yaw.autocorrelate(config2, cats[0], cats[1], count_rr=True)
            else:
                cfs2 = yaw.crosscorrelate(config2, cats[0], cats[1], **kw)
        except Exception as exc:  # noqa: BLE001
            ck.add_violation(f"second measurement on the same catalogs with closed='{other}' raised {type(exc).__name__}: {exc}",
                             dict(rep, config=cfgkw2, earlier_measurement=cfgkw, what="raises"))
            return "bad"
        ck.count("stratum=remeasure-other-closed-side")
        rep2 = dict(rep, config=cfgkw2, earlier_measurement_on_same_caches=cfgkw)
        for name, a, b, binned2 in terms:
            ncs = [getattr(cf, name) for cf in cfs2]
            st, _ = compare(ck, f"{kind}:{name} (measured after closed='{cfgkw['closed']}' on the same caches)", ncs, data[a],
                            None if b is None else data[b], cfgkw2, cosmology, N, binned2, rep2)
            if st == "bad":
                return "bad"
            if st == "guard":
                break
        ck.case(None, desc + ("remeasured",))
    # stratum: the same catalogs measured again with ANOTHER COSMOLOGY and otherwise identical parameters (scales, edges, closed
    # side): the angles of the second measurement are those of its own cosmology (two user-defined models are different
    # models, whatever `==` of the configurations says)
    if status == "ok" and (cfgkw["cosmology"] == "custom" or ci % 5 == 2) and cfgkw["unit"] not in ("rad", "deg", "arcmin", "arcsec"):
        import cosmos
        name2 = {"custom": "custom2", "Planck15": "WMAP9"}.get(cfgkw["cosmology"], "Planck15")
        arg2, cosmology2 = cosmos.get(name2)
        cfgkw3 = dict(cfgkw, cosmology=name2)
        try:
            config3 = config.modify(cosmology=arg2)
            if kind == "auto":
                cfs3 = yaw.autocorrelate(config3, cats[0], cats[1], count_rr=True)
            else:
                cfs3 = yaw.crosscorrelate(config3, cats[0], cats[1], **kw)
        except Exception as exc:  # noqa: BLE001
            ck.add_violation(f"second measurement on the same catalogs with cosmology {name2} raised {type(exc).__name__}: {exc}",
                             dict(rep, config=cfgkw3, earlier_measurement=cfgkw, what="raises"))
            return "bad"
        ck.count(f"stratum=remeasure-other-cosmology:{cfgkw['cosmology']}->{name2}")
        rep3 = dict(rep, config=cfgkw3, earlier_measurement_in_this_process=cfgkw)
        for name, a, b, binned2 in terms:
            ncs = [getattr(cf, name) for cf in cfs3]
            st, _ = compare(ck, f"{kind}:{name} (measured after cosmology {cfgkw['cosmology']} in the same process)", ncs, data[a],
                            None if b is None else data[b], cfgkw3, cosmology2, N, binned2, rep3)
            if st == "bad":
                return "bad"
            if st == "guard":
                break
        ck.case(None, desc + ("remeasured-cosmology",))
    return status


def run(prop, tier, seed, replay):
    import plan_tie
    ck = Check(prop, tier, seed, kernels=KERNELS + ["k_plan"], theorems=THEOREMS + plan_tie.THEOREMS + ["Yaw.C01Tree.ang_limits_spec", "Yaw.C01Tree.accepted_scale", "Yaw.C01Tree.tree_flags"],
               lean_modules=["YawVerif.Props.C01", plan_tie.MODULE, "YawVerif.Props.C01Tree"], rule=RULE,
               assumptions=["scipy KDTree.count_neighbors returns the exact weighted neighbour counts for the stored "
                            "float vectors (validated against the O(n^2) oracle)",
                            "astropy distances are evaluated independently by the oracle"])
    ck.translate()
    if THEOREMS:
        ck.lean_check()
    n_cases = 40 if tier == "quick" else 500
    root = C.scratch_root()
    try:
        plan_tie.check_plan(ck, root)
        with C.Workers(1):
            for ci in range(n_cases):
                run_case(ck, ck.rng, root, ci, tier)
                for k in range(4):
                    C.remove(root / f"c{ci}_{k}")
    finally:
        C.remove(root)
    # ---- comparison (a): implementation vs the Lean model of the implementation -----------------------
    tie = ck.extra.pop("tie_reqs", [])
    ck.extra.pop("tie_cases", None)
    if tie:
        ans = ck.driver("GenPairCount", [f"{rid} {req}" for rid, req, _ in tie])
        if ans is not None:
            for (rid, req, exp), a in zip(tie, ans):
                ck.count(f"tie:{exp[0]}")
                if exp[0] == "linked":
                    got = [t == "1" for t in a.split()]
                    if got != exp[1]:
                        ck.add_tie_break("link predicate: implementation vs generated kernel", {"request": rid})
                elif exp[0] == "iter":
                    toks = [int(t) for t in a.split()]
                    got = sorted(zip(toks[0::2], toks[1::2]))
                    if got != [tuple(p) for p in exp[1]]:
                        ck.add_tie_break("iter_patch_id_pairs: implementation vs model", {"request": rid})
                else:
                    vals = [to_frac(0) + __import__("fractions").Fraction(t) for t in a.split()]
                    ok = len(vals) == len(exp[1]) and all(
                        (abs(float(v) - x) <= 1e-12 * max(abs(x), 1e-300)) if exp[2] else (to_frac(x) == v)
                        for v, x in zip(vals, exp[1]))
                    if not ok:
                        ck.add_tie_break("AngularTree.count: implementation vs model",
                                         {"request": rid, "impl": exp[1], "model": [float(v) for v in vals]})
    # ---- the front door of the tree counter: which angular limits are accepted; a tree's own bookkeeping ---------------
    import math
    from fractions import Fraction
    from yaw.catalog.trees import AngularTree, parse_ang_limits
    from yaw.coordinates import AngularCoordinates
    rng = ck.rng
    pi_f = Fraction(math.pi)
    lreq, lexp = [], []
    pool = [0.0, 1e-9, 0.001, 0.01, 0.25, 1.0, 3.0, math.pi, math.nextafter(math.pi, 4.0), 3.5, -0.0, -1e-12, -0.5]
    for i in range(60 if ck.tier == "quick" else 600):
        k1 = rng.choice([1, 1, 2, 3])
        k2 = k1 if rng.random() < 0.85 else rng.choice([1, 2, 3])
        if i % 3 == 0:        # mostly valid: increasing pairs inside [0, pi]
            los = sorted(rng.choice(pool[:8]) for _ in range(k1))
            mins, maxs = los, [min(math.pi, x + rng.choice([0.001, 0.1, 1.0])) for x in los][:k2] + [1.0] * max(0, k2 - k1)
        else:
            mins, maxs = [rng.choice(pool) for _ in range(k1)], [rng.choice(pool) for _ in range(k2)]
        try:
            parse_ang_limits(np.array(mins), np.array(maxs))
            impl = "ok"
        except ValueError:
            impl = "raise"
        spec = "ok" if (len(mins) == len(maxs) and all(a < b for a, b in zip(mins, maxs))
                        and all(0.0 <= x <= math.pi for x in mins + maxs)) else "raise"
        ck.count(f"ang-limits:{impl}")
        ck.case(None, ("anglimits", tuple(mins), tuple(maxs)))
        if impl != spec:
            ck.add_violation(f"parse_ang_limits({mins}, {maxs}): {impl}, documented: {spec} (0 <= min < max <= pi, equal lengths)",
                             {"ang_min": mins, "ang_max": maxs, "what": "ang-limits"})
        lreq.append(f"al{i} anglimits {len(mins)} {' '.join(fr(x) for x in mins)} {len(maxs)} {' '.join(fr(x) for x in maxs)} {fr(pi_f)}")
        lexp.append((impl, mins, maxs))
    lans = ck.driver("GenTree", lreq)
    if lans is not None:
        for (impl, mins, maxs), a in zip(lexp, lans):
            if impl != a:
                ck.add_tie_break("parse_ang_limits vs generated kernel", {"ang_min": mins, "ang_max": maxs, "impl": impl, "model": a})
    for n in (0, 1, 5, 40):
        co = AngularCoordinates(np.column_stack([np.linspace(0.1, 0.2, n), np.linspace(-0.1, 0.1, n)])) if n else AngularCoordinates(np.empty((0, 2)))
        w = np.array([float(rng.choice([1, 2, 3, 7])) for _ in range(n)])
        ck.case(None, ("tree-meta", n))
        try:
            t_u, t_w = AngularTree(co), AngularTree(co, w)
            ok = (t_u.num_records == n and t_u.sum_weights == float(n) and t_u.weights is None and t_w.num_records == n
                  and t_w.sum_weights == float(w.sum()) and np.array_equal(t_w.weights, w)
                  and (n == 0 or np.array_equal(np.asarray(t_w.data), co.to_3d())))
        except Exception as e:  # noqa: BLE001
            if n == 0:
                continue          # (an empty coordinate set may be refused by the KD-tree; empty trees come from AngularTree.empty)
            ck.add_violation(f"AngularTree of {n} records raised {type(e).__name__}: {e}", {"n": n, "what": "tree-meta"})
            continue
        if not ok:
            ck.add_violation(f"AngularTree of {n} records: num_records / sum_weights / stored weights / stored points differ from the input",
                             {"n": n, "weights": w.tolist(), "what": "tree-meta"})
        if n:
            try:
                AngularTree(co, w[:-1] if n > 1 else np.ones(2))
                ck.add_violation("AngularTree accepts weights of another length than the coordinates", {"n": n, "what": "tree-meta"})
            except ValueError:
                pass
    e0 = AngularTree.empty(has_weights=True)
    if not (e0.num_records == 0 and e0.sum_weights == 0.0 and len(e0.data) == 0):
        ck.add_violation("AngularTree.empty is not empty", {"what": "tree-meta"})
    return ck.finish()
