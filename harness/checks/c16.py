"""C16 — random catalogs: exact size, footprint, joint attributes, reproducible by seed."""
from __future__ import annotations

import warnings

import numpy as np

import catalogs as C
from core import Check

np.seterr(all="ignore")
warnings.filterwarnings("ignore")

THEOREMS = ["Yaw.C16.random_sizes", "Yaw.C16.random_full_chunks", "Yaw.C16.reseed_history_free",
            "Yaw.C16.window_of_monotone", "Yaw.C16.joint_attributes", "Yaw.C16.glue_pinned", "Yaw.C16.seed_invariant",
            "Yaw.C16.reproducible_after_any_use", "Yaw.C16.flags", "Yaw.C16.reseedTo_fresh", "Yaw.C16.pass_stream", "Yaw.C16.data_size_spec", "Yaw.C16.joint_draw_in_range", "Yaw.C16.data_size_at_init",
            "Yaw.C16Box.cyl_roundtrip", "Yaw.C16Box.affine_mem", "Yaw.C16Box.box_window", "Yaw.C16Box.preimage_box",
            "Yaw.C16Box.equal_area"]
RULE = ("BoxRandoms over windows incl. both poles, the full sphere and thin strips x requested sizes around multiples "
        "of the chunk size x seeds x attribute arrays: chunk sizes of a pass (EXACT vs model), total size of "
        "RandomReader passes and of Catalog.from_random (centres and patch_num modes), every point inside the window "
        "(2-ulp slack), (weight, redshift) pairs are source rows, bitwise reproducibility of a pass after 0..3 earlier "
        "uses (probe, partial and full passes, second catalog) against a fresh generator; fixed-seed chi-square of the "
        "equal-area cell counts as validation of uniformity. non-trivial: more than one chunk; distinct by case")


def run(prop, tier, seed, replay):
    from yaw import AngularCoordinates, Catalog
    from yaw.catalog.readers import RandomReader
    from yaw.randoms import BoxRandoms

    ck = Check(prop, tier, seed, kernels=["k_reader", "k_randoms", "k_boxrandoms", "k_datasize"], theorems=THEOREMS,
               lean_modules=["YawVerif.Props.C16", "YawVerif.Props.C16Box"], rule=RULE,
               assumptions=["numpy Generator.uniform / integers are uniform and reproducible from their seed",
                            "np.arcsin / np.sin are monotone to within 1 ulp"])
    ck.translate()
    ck.lean_check()
    rng = ck.rng
    root = C.scratch_root()
    reqs, expect = [], []
    windows = [(0, 360, -90, 90), (10, 20, -5, 5), (350, 360, 80, 90), (0, 90, -90, -85), (100, 100.5, 30, 30.25),
               (0, 360, 89.9, 90), (180, 200, -90, 90)]
    n_cases = 30 if tier == "quick" else 300
    try:
        with C.Workers(1):
            for ci in range(n_cases):
                c = rng.choice([1, 4, 10, 30, 64])
                k = rng.choice([1, 2, 3])
                n = max(1, k * c + rng.choice([-1, 0, 1]))
                win = windows[ci % len(windows)]
                sd = rng.choice([1, 12345, rng.randrange(2 ** 31)])
                m = rng.choice([5, 50])
                w_src = np.arange(m, dtype=float) + 1.0
                z_src = w_src / 1000.0
                attr = ci % 3
                if attr == 2 and ci % 2 == 0:
                    # supplied samples with a missing value each — in DIFFERENT rows: rows must still be drawn as rows
                    w_src, z_src = w_src.copy(), z_src.copy()
                    w_src[1] = np.nan
                    z_src[m - 2] = np.nan
                    ck.count("attrs=missing-values-in-different-rows")
                kw = {}
                if attr >= 1:
                    kw["weights"] = w_src
                if attr == 2 or ci % 5 == 0:
                    kw["redshifts"] = z_src
                rep = {"n": n, "chunksize": c, "window": win, "seed": sd, "attrs": sorted(kw)}
                try:
                    gen = BoxRandoms(*win, seed=sd, **kw)
                    reader = RandomReader(gen, n, c)
                    chunks = list(reader)
                except Exception as e:  # noqa: BLE001
                    ck.case(None, ("raised", win))
                    ck.add_violation(f"generating {n} random points over the window {win} raised {type(e).__name__}: {e}", rep)
                    continue
                lens = [len(ch) for ch in chunks]
                ck.count(f"chunks={len(lens)}")
                ck.count(f"window={win}")
                ck.case(dict(rep, lens=lens) if len(ck.samples) < 4 else None, ("sizes", n, c, win, sd, attr) if n > c else None)
                # ---- spec: exact size, all but the last chunk full --------------------------------
                if sum(lens) != n or any(x > c or x < 1 for x in lens) or any(x != c for x in lens[:-1]):
                    ck.add_violation(f"a pass of the random reader yields chunk sizes {lens} for n={n}, chunk size {c}", rep)
                    continue
                reqs.append(f"{ci} randsizes {n} {c}")
                expect.append((lens, rep))
                data = np.concatenate(chunks)
                # ---- the points of a pass ARE the generator's stream: chunk after chunk continues it (a fresh generator with the
                #      same seed, asked for the same sequence of sizes, yields the same points)
                gen_direct = BoxRandoms(*win, seed=sd, **kw)
                gen_direct.reseed()
                direct = np.concatenate([gen_direct(k_) for k_ in lens])
                if direct.tobytes() != data.tobytes():
                    dup = len(data) - len({(a, b) for a, b in zip(data["ra"].tolist(), data["dec"].tolist())})
                    ck.add_violation(f"a pass of {n} random points in chunks of {c} is not the generator's stream for the same sequence of "
                                     f"requests ({dup} of the {n} points are repeats of earlier ones)", rep)
                    continue
                # ---- window ------------------------------------------------------------------------
                ra0, ra1, d0, d1 = (np.deg2rad(x) for x in win)
                eps = 4e-16
                if not (np.all(data["ra"] >= ra0 - eps) and np.all(data["ra"] <= ra1 + eps)
                        and np.all(data["dec"] >= d0 - eps) and np.all(data["dec"] <= d1 + eps)):
                    ck.add_violation("a random point lies outside the requested window", rep)
                    continue
                # ---- the window is filled, not only respected (n >= 60: a uniform sample misses an outer tenth of the
                #      window with probability 0.9^60 < 2e-3 per side; checked on the fixed-seed big sample below as well)
                # ---- joint attributes ------------------------------------------------------------------
                if "weights" in kw and "redshifts" in kw and (np.isnan(w_src).any() or np.isnan(z_src).any()):
                    rows = {(repr(float(a)), repr(float(b))) for a, b in zip(w_src, z_src)}
                    got = {(repr(float(a)), repr(float(b))) for a, b in zip(data["weights"], data["redshifts"])}
                    if not got <= rows:
                        ck.add_violation(f"{len(got - rows)} generated (weight, redshift) pairs are not rows of the supplied "
                                         f"samples, e.g. {sorted(got - rows)[:2]} (the samples hold one missing weight and one "
                                         "missing redshift in different rows)", dict(rep, weights=w_src.tolist(), redshifts=z_src.tolist()))
                        continue
                elif "weights" in kw and "redshifts" in kw:
                    if not np.array_equal(data["redshifts"], data["weights"] / 1000.0):
                        ck.add_violation("weights and redshifts of a random point do not come from the same source row", rep)
                        continue
                if "weights" in kw and not np.all(np.isin(data["weights"][~np.isnan(data["weights"])], w_src)):
                    ck.add_violation("a random weight is not one of the supplied weights", rep)
                    continue
                # ---- reproducibility regardless of earlier use -----------------------------------
                history = rng.choice(["none", "probe", "partial", "full", "probe+full", "catalog"])
                g2 = BoxRandoms(*win, seed=sd, **kw)
                r2 = RandomReader(g2, n, c)
                if "probe" in history:
                    r2.get_probe(max(1, n // 2))
                if "partial" in history:
                    it = iter(r2)
                    next(it)
                if "full" in history:
                    list(r2)
                    list(r2)
                if history == "catalog" and n >= 24:
                    Catalog.from_random(root / f"h{ci}", g2, n, patch_num=2, probe_size=n, chunksize=c, overwrite=True)
                    C.remove(root / f"h{ci}")
                again = np.concatenate(list(r2))
                ck.count(f"history={history}")
                if again.tobytes() != data.tobytes():
                    ck.add_violation(f"a generator with seed {sd} does not reproduce its points after earlier use "
                                     f"({history})", dict(rep, history=history))
                    continue
                # ---- catalogs hold exactly n points ---------------------------------------------
                if ci % 2 == 0 and n >= 24:
                    for mode in ("centers", "num"):
                        g3 = BoxRandoms(*win, seed=sd, **kw)
                        try:
                            if mode == "centers":
                                mid = AngularCoordinates(np.array([[(ra0 + ra1) / 2, (d0 + d1) / 2]]))
                                cat = Catalog.from_random(root / f"c{ci}", g3, n, patch_centers=mid, chunksize=c, overwrite=True)
                            else:
                                cat = Catalog.from_random(root / f"c{ci}", g3, n, patch_num=2, probe_size=n, chunksize=c,
                                                          overwrite=True)
                        except ValueError as e:
                            if "contains no data" in str(e) or "patch center" in str(e):
                                continue
                            raise
                        tot = sum(cat.get_num_records())
                        recs = np.concatenate([cat[p].load_data() for p in cat.keys()])
                        C.remove(root / f"c{ci}")
                        ck.count(f"catalog:{mode}")
                        if tot != n or len(recs) != n:
                            ck.add_violation(f"Catalog.from_random({n}) holds {tot} points ({mode} mode, chunk size {c})", rep)
                            break
                        if sorted(recs["ra"].tolist()) != sorted(data["ra"].tolist()):
                            ck.add_violation("the catalog's points differ from the generator's points for the same seed", rep)
                            break
            # ---- uniformity in area: validation only (fixed seed chi-square on equal-area cells) ----------------
            # every window must be FILLED, not only respected: 4000 points reach the outer 1% at both ends in RA and
            # in sin(dec) (a uniform sample misses one of them with probability < 1e-15)
            for win in windows:
                try:
                    pts = BoxRandoms(*win, seed=97531)(4000)
                except Exception as e:  # noqa: BLE001
                    ck.add_violation(f"generating random points over the window {win} raised {type(e).__name__}: {e}", {"window": win})
                    continue
                ra0, ra1, d0, d1 = (np.deg2rad(x) for x in win)
                s0, s1 = np.sin(d0), np.sin(d1)
                u = (pts["ra"] - ra0) / (ra1 - ra0)
                v = (np.sin(pts["dec"]) - s0) / (s1 - s0)
                ck.case(None, ("filled", win))
                if not (u.min() < 0.01 and u.max() > 0.99 and v.min() < 0.01 and v.max() > 0.99):
                    ck.add_violation(f"random points do not fill the window {win}: RA covers the fraction "
                                     f"[{u.min():.3f}, {u.max():.3f}], sin(dec) [{v.min():.3f}, {v.max():.3f}] of it",
                                     {"window": win, "seed": 97531})
            g = BoxRandoms(0, 360, -90, 90, seed=424242)
            pts = g(200000)
            cells = np.floor(pts["ra"] / (2 * np.pi) * 8).astype(int) * 10 + np.clip(np.floor((np.sin(pts["dec"]) + 1) / 2 * 10).astype(int), 0, 9)
            cnt = np.bincount(cells, minlength=80)
            chi2 = float(((cnt - 2500.0) ** 2 / 2500.0).sum())
            ck.extra["uniformity_chi2_79dof"] = chi2
            if chi2 > 160:          # p < 1e-7 for 79 dof
                ck.add_violation(f"random points are not uniform in area (chi2={chi2:.1f} for 79 dof, fixed seed)", {"seed": 424242})
            # ---- attribute samples of every combination of presence and length: accepted with their common size, or refused
            for nw_, nz_ in ((None, None), (5, None), (None, 7), (5, 5), (5, 7), (7, 5), (1, 1), (0, 0)):
                kw_ = {}
                if nw_ is not None:
                    kw_["weights"] = np.arange(nw_, dtype=float)
                if nz_ is not None:
                    kw_["redshifts"] = np.arange(nz_, dtype=float) / 10
                try:
                    impl = ("size", int(BoxRandoms(0, 10, 0, 10, seed=1, **kw_).data_size))
                except ValueError:
                    impl = ("raise", None)
                spec = (("size", -1) if nw_ is None and nz_ is None else ("size", nz_) if nw_ is None else ("size", nw_) if nz_ is None
                        else (("size", nw_) if nw_ == nz_ else ("raise", None)))
                ck.case(None, ("datasize", nw_, nz_))
                if impl != spec:
                    ck.add_violation(f"generator with {nw_} weights and {nz_} redshifts to draw from: {impl}, documented: {spec}",
                                     {"num_weights": nw_, "num_redshifts": nz_})
            # ---- explicit re-seeding: ONE generator object run through several seeds (0 included) gives, for each seed, the
            #      points of a fresh generator with that seed
            for win in windows[:3]:
                try:
                    g = BoxRandoms(*win, seed=4242)
                    g(5)
                except Exception as e:  # noqa: BLE001
                    ck.add_violation(f"generating random points over the window {win} raised {type(e).__name__}: {e}", {"window": win})
                    continue
                for sd in (3, 0, 17, 0, 2 ** 31 - 1):
                    g.reseed(sd)
                    got = g(33)
                    want = BoxRandoms(*win, seed=sd)(33)
                    ck.case(None, ("reseed", win, sd))
                    if not (np.array_equal(got["ra"], want["ra"]) and np.array_equal(got["dec"], want["dec"])):
                        ck.add_violation(f"reseed({sd}) on a generator used with another seed before does not give the points of a "
                                         f"fresh generator with seed {sd}", {"window": win, "seed": sd, "earlier_seed": 4242})
                        break
            # ---- tie of the generated footprint formulas (Generated/RandomsReal.lean): the limits the constructor stores
            #      and what `_draw_coords` does with the two uniform variates, observed through a recording generator
            for win in windows:
                g = BoxRandoms(*win, seed=5)
                try:
                    g._draw_coords(3)
                except Exception as e:  # noqa: BLE001
                    ck.add_violation(f"generating random points over the window {win} raised {type(e).__name__}: {e}", {"window": win})
                    continue
                ra0, ra1, d0, d1 = (np.deg2rad(x) for x in win)
                lim_model = (ra0, ra1, np.sin(d0), np.sin(d1))          # boxXMin boxXMax boxYMin boxYMax
                lim_impl = (g.x_min, g.x_max, g.y_min, g.y_max)
                ck.case(None, ("formulas", win))
                if not all(abs(float(a) - float(b)) <= 4e-16 for a, b in zip(lim_impl, lim_model)):
                    ck.add_tie_break("BoxRandoms window limits vs generated boxXMin..boxYMax", {"window": win, "impl": [float(x) for x in lim_impl],
                                                                                               "model": [float(x) for x in lim_model]})
                    continue

                class Rec:
                    def __init__(self, rng):
                        self.rng, self.calls = rng, []

                    def uniform(self, *a, **k):
                        out = self.rng.uniform(*a, **k)
                        self.calls.append((a, k, out))
                        return out

                    def __getattr__(self, name):
                        return getattr(self.rng, name)
                rec = Rec(g.rng)
                g.rng = rec
                ra, dec = g._draw_coords(257)
                ok = (len(rec.calls) == 2 and [c[0][:2] for c in rec.calls] == [(g.x_min, g.x_max), (g.y_min, g.y_max)]
                      and np.array_equal(ra, rec.calls[0][2]) and np.array_equal(dec, np.arcsin(rec.calls[1][2])))
                if not ok:
                    ck.add_tie_break("BoxRandoms._draw_coords vs generated drawRa / drawDec (x uniform in [x_min, x_max], "
                                     "dec = arcsin of y uniform in [y_min, y_max])", {"window": win, "calls": [str(c[0][:2]) for c in rec.calls]})
    finally:
        C.remove(root)
    ans = ck.driver("GenReader", reqs)
    if ans is not None:
        for (lens, rep), a in zip(expect, ans):
            if [int(x) for x in a.split()] != lens:
                ck.add_tie_break("random chunk sizes vs model", {"case": rep, "impl": lens, "model": a})
    return ck.finish()
