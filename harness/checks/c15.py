"""C15 — configurations mean what their parameters say; modify equals create."""
from __future__ import annotations

import copy
import warnings
from fractions import Fraction

import numpy as np

import oracle as O
from core import Check, fr, to_frac, ulp_close

np.seterr(all="ignore")
warnings.filterwarnings("ignore")

THEOREMS = ["Yaw.C15.linear_edges", "Yaw.C15.linspace_interior", "Yaw.C15.mapped_edges", "Yaw.C15.angle_formula",
            "Yaw.C15.scales_rejected", "Yaw.C15.edges_rejected", "Yaw.C15.create_requires_limits",
            "Yaw.C15.params_of_create", "Yaw.C15.modify_eq_create", "Yaw.C15.eq_of_params", "Yaw.C15.glue_pinned"]
RULE = ("stratified product of binning methods (linear, comoving, logspace, custom edges) x closed side x units (8) x "
        "scalar / list scales x cosmologies (Planck15, WMAP9, Planck18) and single- and multi-parameter modifications "
        "(incl. cosmology only, edges only, custom -> generated, method custom without edges), cosmologies given as "
        "objects (open / closed astropy models, a user-defined CustomCosmology) in every unit, plus a malformed stream "
        "(rmin >= rmax in some scale, non-increasing / single edges, unknown method / unit / cosmology, no limits): "
        "number of bins, strict monotonicity, edges[0]==zmin and edges[-1]==zmax BITWISE, linear edges vs exact "
        "linspace (2 ulp), comoving / logspace interior edges vs an independent astropy evaluation (1e-9), angles vs "
        "r/D(z) (4 ulp), modify(**delta) == create(**merged) with bitwise identical edges (deltas incl. explicit None = "
        "back to the default), original untouched, equality "
        "of equal parameters. non-trivial: >= 2 bins; distinct by parameter tuple")

METHODS = ["linear", "comoving", "logspace"]
UNITS = ["rad", "deg", "arcmin", "arcsec", "kpc", "Mpc", "kpc/h", "Mpc/h"]
COSMOS = ["Planck15", "WMAP9", "Planck18"]


def rand_params(rng, ci):
    unit = UNITS[ci % len(UNITS)]
    multi = (ci // 8) % 2 == 1
    if multi:
        rmin, rmax = [rng.choice([1, 5, 10]), rng.choice([20, 50])], [rng.choice([15, 19]), rng.choice([100, 500])]
    else:
        rmin, rmax = rng.choice([0.5, 1, 10, 100]), rng.choice([150, 1000, 5000.5])
    p = dict(rmin=rmin, rmax=rmax, unit=unit, rweight=rng.choice([None, None, -1.0, 0.5]),
             resolution=rng.choice([None, 10, 50]), closed=["left", "right"][(ci // 3) % 2],
             cosmology=COSMOS[(ci // 5) % 3])
    if ci % 4 == 3:
        lo = rng.choice([0.0, 0.01, 0.2])
        p["edges"] = [lo] + list(lo + np.cumsum([rng.choice([0.05, 0.1, 0.7]) for _ in range(rng.choice([1, 2, 4]))]))
    else:
        p.update(zmin=rng.choice([0.0, 0.01, 0.07, 0.5, 1.0]), num_bins=rng.choice([1, 2, 5, 30]), method=METHODS[ci % 3])
        p["zmax"] = p["zmin"] + rng.choice([0.3, 1.0, 2.5])
    return p


def enc_params(p):
    e = p.get("edges")
    if e is not None and p.get("zmin") is None:
        return " ".join(["n", "n", "0", "custom", f"{len(e)} " + " ".join(fr(x) for x in e),
                         "1" if p.get("closed", "right") == "left" else "0"])
    return " ".join([
        "n" if p.get("zmin") is None else fr(p["zmin"]), "n" if p.get("zmax") is None else fr(p["zmax"]),
        str(p.get("num_bins", 30) or 0), p.get("method", "linear"),
        "n" if e is None else f"{len(e)} " + " ".join(fr(x) for x in e), "1" if p.get("closed", "right") == "left" else "0"])


def enc_delta(d):
    e = d.get("edges")
    return " ".join([
        "n" if "zmin" not in d else fr(d["zmin"]), "n" if "zmax" not in d else fr(d["zmax"]),
        "n" if "num_bins" not in d else str(d["num_bins"]), d.get("method", "n"),
        "n" if e is None else f"{len(e)} " + " ".join(fr(x) for x in e),
        "n" if "closed" not in d else ("1" if d["closed"] == "left" else "0")])


def merged_params(p, d):
    """the merge rule of the model: new edges override; a custom binning keeps its edges unless generation
    parameters are given; otherwise limits / bin number / method are overridden field-wise, a custom binning
    contributing the limits and bin number it exposes (and the method 'custom' unless a method is given)"""
    m = dict(p)
    bin_keys = ("zmin", "zmax", "num_bins", "method")
    custom = p.get("edges") is not None and p.get("zmin") is None
    if "edges" in d:
        for k in bin_keys:
            m.pop(k, None)
        m["edges"] = d["edges"]
    elif custom and not any(k in d for k in bin_keys):
        pass
    else:
        if custom:
            e = p["edges"]
            m.update(zmin=float(e[0]), zmax=float(e[-1]), num_bins=len(e) - 1, method="custom")
        m.pop("edges", None)
    for k, v in d.items():
        if k != "edges":
            m[k] = v
    return m


def run(prop, tier, seed, replay):
    import astropy.cosmology
    from yaw import Configuration

    ck = Check(prop, tier, seed, kernels=["k_config", "k_cosmo"],
               theorems=THEOREMS + ["Yaw.C15Cosmo.parse_spec", "Yaw.C15Cosmo.yaml_spec", "Yaw.C15Cosmo.yaml_roundtrip",
                                    "Yaw.C15Cosmo.eq_spec", "Yaw.C15Cosmo.eq_rejects_other", "Yaw.C15Cosmo.cosmo_flags"],
               lean_modules=["YawVerif.Props.C15", "YawVerif.Props.C15Cosmo"], rule=RULE,
               assumptions=["astropy comoving_distance is strictly increasing and z_at_value inverts it to ~1e-9",
                            "np.linspace computes start + k*step with the end point set exactly"])
    ck.translate()
    ck.lean_check()
    rng = ck.rng
    n_cases = 96 if tier == "quick" else 960
    reqs, expect = [], []
    k_deg = float(np.pi / 180.0)

    def attempt(f):
        try:
            return f(), None
        except Exception as e:  # noqa: BLE001
            return None, type(e).__name__

    for ci in range(n_cases):
        p = rand_params(rng, ci)
        cfg, err = attempt(lambda: Configuration.create(**p))
        key = tuple(sorted((k, str(v)) for k, v in p.items()))
        ck.count(f"method={p.get('method', 'custom')}")
        ck.count(f"unit={p['unit']}")
        if err:
            ck.add_violation(f"valid parameters rejected with {err}", {"params": p})
            continue
        cosmo = getattr(astropy.cosmology, p["cosmology"])
        edges = cfg.binning.edges
        nb = len(edges) - 1
        ck.case({"params": {k: (v if not isinstance(v, np.ndarray) else v.tolist()) for k, v in p.items()}}
                if len(ck.samples) < 4 else None, key if nb >= 2 else None)
        rep = {"params": p}
        if "edges" in p:
            if not np.array_equal(edges, np.asarray(p["edges"], dtype=float)):
                ck.add_violation("custom edges are not used as given", rep)
        else:
            if nb != p["num_bins"] or not np.all(np.diff(edges) > 0):
                ck.add_violation(f"{p['method']}: {nb} bins for num_bins={p['num_bins']} or edges not strictly increasing", rep)
                continue
            if edges[0] != p["zmin"] or edges[-1] != p["zmax"]:
                ck.add_violation(f"{p['method']} binning does not span exactly [zmin, zmax]: first edge {edges[0]!r} "
                                 f"(zmin {p['zmin']!r}), last edge {edges[-1]!r} (zmax {p['zmax']!r})", rep,
                                 signature=None)
                continue
            if p["method"] == "linear":
                reqs.append(f"lin{ci} linspace {fr(p['zmin'])} {fr(p['zmax'])} {p['num_bins']}")
                expect.append(("linspace", edges, rep))
            else:
                if p["method"] == "comoving":
                    g = lambda z: cosmo.comoving_distance(z).value  # noqa: E731
                else:
                    g = lambda z: np.log(1.0 + z)  # noqa: E731
                gv = g(edges)
                lin = np.linspace(gv[0], gv[-1], nb + 1)
                if not np.allclose(gv, lin, rtol=1e-8, atol=1e-9 * abs(gv[-1])):
                    ck.add_violation(f"{p['method']} edges are not equidistant in the binning quantity", rep)
                    continue
        if cfg.binning.closed != p["closed"]:
            ck.add_violation("closed side not as requested", rep)
        # ---- angles -----------------------------------------------------------------------------
        z = float(rng.choice([0.05, 0.3, 1.1, 2.4]))
        amin, amax = cfg.scales.scales.get_angle_radian(z, cosmology=cfg.cosmology)
        dA, dC = float(cosmo.angular_diameter_distance(z).value), float(cosmo.comoving_distance(z).value)
        for which, arr, rr in (("min", amin, np.atleast_1d(p["rmin"])), ("max", amax, np.atleast_1d(p["rmax"]))):
            want = O.angle_of_scale(rr, p["unit"], z, cosmo)
            if not np.allclose(np.atleast_1d(arr), want, rtol=1e-15 * 8, atol=0):
                ck.add_violation(f"angle of r{which} in {p['unit']} at z={z}: {arr} != r/D(z) = {want}", rep)
                break
            for a_impl, r_ in zip(np.atleast_1d(arr), rr):
                reqs.append(f"ang{ci} angle {p['unit']} {fr(float(r_))} {fr(dA)} {fr(dC)} {fr(k_deg)}")
                expect.append(("angle", float(a_impl), rep))
        # ---- modifications ------------------------------------------------------------------------
        before = copy.deepcopy(cfg.to_dict())
        edges_before = edges.copy()
        for _ in range(2):
            d = {}
            kind = rng.choice(["scales", "closed", "zlim", "bins", "method", "edges", "cosmology", "multi", "custom_method", "reset"])
            if kind == "scales":
                d["rmin"] = 0.25 if not isinstance(p["rmin"], list) else [0.25, 0.5]
                if isinstance(p["rmin"], list):
                    d["rmax"] = [15, 600]
            elif kind == "closed":
                d["closed"] = "left" if p["closed"] == "right" else "right"
            elif kind == "zlim":
                d["zmin"], d["zmax"] = 0.125, 0.875
            elif kind == "bins":
                d["num_bins"] = rng.choice([1, 3, 7])
            elif kind == "method":
                d["method"] = rng.choice(METHODS)
            elif kind == "edges":
                d["edges"] = [0.1, 0.25, 0.75, 1.5]
            elif kind == "cosmology":
                d["cosmology"] = rng.choice(COSMOS)
            elif kind == "reset":       # an explicit None is a value (back to the default), not "leave unchanged"
                for k in rng.sample(["cosmology", "rweight", "resolution"], rng.choice([1, 2])):
                    d[k] = None
            elif kind == "multi":
                d.update(zmin=0.2, zmax=1.7, num_bins=4, method=rng.choice(METHODS), closed="left", unit=rng.choice(UNITS),
                         cosmology=rng.choice(COSMOS))
            else:
                d["method"] = "custom"
            ck.count(f"modify={kind}")
            mp = merged_params(p, d)
            got, e1 = attempt(lambda: cfg.modify(**d))
            want, e2 = attempt(lambda: Configuration.create(**mp))
            ck.case(None, (key, tuple(sorted((k, str(v)) for k, v in d.items()))))
            mrep = {"params": p, "delta": d, "merged": mp}
            if bool(e1) != bool(e2):
                ck.add_violation(f"modify({d}) {'raised ' + e1 if e1 else 'succeeded'} but create(merged) "
                                 f"{'raised ' + e2 if e2 else 'succeeded'}", mrep)
            elif not e1:
                same = (np.array_equal(got.binning.edges, want.binning.edges) and got.binning.closed == want.binning.closed
                        and got.binning.method == want.binning.method and got.scales.to_dict() == want.scales.to_dict()
                        and got.cosmology.name == want.cosmology.name)
                eq, e3 = attempt(lambda: got == want)
                if not same or e3 or not eq:
                    ck.add_violation(f"modify({d}) differs from create(merged parameters)"
                                     + (f" (== raised {e3})" if e3 else ""), mrep)
            if "unit" not in d and "rmin" not in d and "cosmology" not in d:
                reqs.append(f"mod{ci} modify {enc_params(p)} {enc_delta(d)}")
                expect.append(("modify", bool(e1), mrep))
            if cfg.to_dict() != before or not np.array_equal(cfg.binning.edges, edges_before):
                ck.add_violation("modify changed the original configuration", mrep)
        # ---- equality -----------------------------------------------------------------------------------
        twin, _ = attempt(lambda: Configuration.create(**p))
        eq, e = attempt(lambda: cfg == twin)
        if e or not eq:
            ck.add_violation(f"configurations with equal parameters do not compare equal ({e})", rep)
        other, _ = attempt(lambda: cfg.modify(closed="left" if p["closed"] == "right" else "right"))
        if other is not None:
            ne, e = attempt(lambda: cfg == other)
            if e or ne:
                ck.add_violation("configurations with different closed side compare equal", rep)
    # ---- cosmologies given as objects: curved astropy models and a user-defined CustomCosmology ----------
    from yaw.cosmology import CustomCosmology

    class ScaledCosmology(CustomCosmology):
        """Planck15 distances stretched by different factors (D_A is NOT D_C / (1 + z) here)"""

        def to_format(self, format="mapping"):
            return "scaled"

        def comoving_distance(self, z):
            return astropy.cosmology.Planck15.comoving_distance(z) * 1.25

        def angular_diameter_distance(self, z):
            return astropy.cosmology.Planck15.angular_diameter_distance(z) * 0.75

    objects = [("open", astropy.cosmology.LambdaCDM(H0=70, Om0=0.3, Ode0=0.5)),
               ("closed", astropy.cosmology.LambdaCDM(H0=65, Om0=0.4, Ode0=0.9)), ("custom", ScaledCosmology())]
    for oi, (oname, cosmo) in enumerate(objects):
        for unit in ("kpc", "Mpc", "kpc/h", "Mpc/h", "arcmin"):
            p = dict(rmin=[100.0, 250.0], rmax=[900.0, 2000.0], unit=unit, zmin=0.1, zmax=1.5, num_bins=4, method="linear")
            cfg, err = attempt(lambda: Configuration.create(cosmology=cosmo, **p))
            rep = {"params": p, "cosmology": oname}
            ck.count(f"cosmology-object={oname}")
            ck.case(None, ("cosmo-object", oname, unit))
            if err:
                ck.add_violation(f"a configuration with a {oname} cosmology object is rejected with {err}", rep)
                continue
            for z in (0.25, 1.7):
                amin, amax = cfg.scales.scales.get_angle_radian(z, cosmology=cfg.cosmology)
                for which, arr, rr in (("min", amin, p["rmin"]), ("max", amax, p["rmax"])):
                    want = O.angle_of_scale(rr, unit, z, cosmo)
                    if not np.allclose(np.atleast_1d(arr), want, rtol=1e-13, atol=0):
                        ck.add_violation(f"{oname} cosmology: angle of r{which} in {unit} at z={z}: {np.atleast_1d(arr).tolist()} "
                                         f"!= r/D(z) = {np.atleast_1d(want).tolist()}", rep)
                        break
    # ---- malformed stream ------------------------------------------------------------------------------
    bad = [
        dict(rmin=10, rmax=10, zmin=0.1, zmax=1.0), dict(rmin=100, rmax=10, zmin=0.1, zmax=1.0),
        dict(rmin=[1, 50], rmax=[10, 20], zmin=0.1, zmax=1.0), dict(rmin=[1, 2], rmax=[10], zmin=0.1, zmax=1.0),
        dict(rmin=1, rmax=10, edges=[0.1, 0.1, 0.3]), dict(rmin=1, rmax=10, edges=[0.3, 0.2, 0.1]),
        dict(rmin=1, rmax=10, edges=[0.5]), dict(rmin=1, rmax=10), dict(rmin=1, rmax=10, zmin=0.1),
        dict(rmin=1, rmax=10, zmax=1.0), dict(rmin=1, rmax=10, zmin=0.1, zmax=1.0, method="quadratic"),
        dict(rmin=1, rmax=10, zmin=0.1, zmax=1.0, unit="parsec"), dict(rmin=1, rmax=10, zmin=0.1, zmax=1.0, cosmology="Planck99"),
        dict(rmin=1, rmax=10, zmin=1.0, zmax=0.1), dict(rmin=1, rmax=10, zmin=0.5, zmax=0.5),
        dict(rmin=1, rmax=10, zmin=0.1, zmax=1.0, closed="both"),
        # not-a-number is not "smaller than" / "increasing": edges and scale limits that are NaN are invalid parameters
        dict(rmin=1, rmax=10, edges=[0.1, float("nan"), 1.0]), dict(rmin=1, rmax=10, edges=[float("nan"), 0.5, 1.0]),
        dict(rmin=1, rmax=10, edges=[0.1, 0.5, float("nan")]), dict(rmin=1, rmax=10, zmin=float("nan"), zmax=1.0),
        dict(rmin=1, rmax=10, zmin=0.1, zmax=float("nan")),
        dict(rmin=float("nan"), rmax=10, zmin=0.1, zmax=1.0), dict(rmin=1, rmax=float("nan"), zmin=0.1, zmax=1.0),
        dict(rmin=[1, float("nan")], rmax=[10, 20], zmin=0.1, zmax=1.0),
    ]
    for p in bad:
        cfg, err = attempt(lambda: Configuration.create(**p))
        ck.count("malformed")
        ck.case(None, ("bad", str(p)))
        if not err:
            ck.add_violation(f"invalid parameters accepted: {p}", {"params": p})
    # ---- (a) implementation vs model ---------------------------------------------------------------------
    ans = ck.driver("GenConfig", [r for r in reqs])
    if ans is not None:
        for (kind, obs, rep), a in zip(expect, ans):
            ck.count(f"tie:{kind}")
            if kind == "linspace":
                vals = [Fraction(t) for t in a.split()]
                if len(vals) != len(obs) or not all(ulp_close(float(x), v, 2, max(abs(vals[0]), abs(vals[-1]))) for x, v in zip(obs, vals)):
                    ck.add_tie_break("linear edges vs linspace model", {"case": rep})
            elif kind == "angle":
                impl_model, spec = (Fraction(t) for t in a.split())
                if not ulp_close(obs, impl_model, 4):
                    ck.add_tie_break("angle vs generated kernel", {"case": rep, "impl": obs, "model": float(impl_model)})
            elif kind == "modify":
                m_out, c_out = [x.strip() for x in a.split("|")]
                if (m_out == "error") != obs:
                    ck.add_tie_break("modify outcome vs model", {"case": rep, "model": m_out, "impl_raised": obs})
    # ---- cosmology handling: every kind of value a caller can pass as `cosmology=` -----------------------------------
    import astropy.cosmology as AC
    import cosmos
    from yaw.config.combined import cosmology_to_yaml, parse_cosmology
    from yaw.cosmology import cosmology_is_equal
    from yaw.config import Configuration as _Cfg
    custom1, custom2 = cosmos.get("custom")[0], cosmos.get("custom2")[0]
    values = {
        "None": None, "'Planck15'": "Planck15", "'WMAP9'": "WMAP9", "'NoSuchModel'": "NoSuchModel", "''": "",
        "Planck15": AC.Planck15, "WMAP9": AC.WMAP9, "unnamed-LambdaCDM": AC.LambdaCDM(H0=70, Om0=0.3, Ode0=0.5),
        "named-but-not-predefined": AC.FlatLambdaCDM(H0=70, Om0=0.3, name="mine"),
        "modified-Planck15": AC.Planck15.clone(H0=71.0), "custom": custom1, "custom2": custom2, "42": 42, "dict": {"H0": 70},
    }

    def describe(v):
        from yaw.cosmology import CustomCosmology
        is_f, is_c = isinstance(v, AC.FLRW), isinstance(v, CustomCosmology)
        name = v if isinstance(v, str) else (v.name if is_f else None)
        return (v is None, isinstance(v, str), is_f, is_c, name in AC.available)

    def outcome(f):
        try:
            return ("ok", f())
        except Exception as e:  # noqa: BLE001
            return ("raise:" + type(e).__name__, None)
    creq, cexp = [], []
    for label, v in values.items():
        d = describe(v)
        enc = " ".join(str(int(x)) for x in d)
        # parse
        st, got = outcome(lambda: parse_cosmology(v))
        if st == "ok":
            impl = "default" if v is None else ("named" if isinstance(v, str) else "same")
            right = (got is AC.Planck15) if v is None else ((got is getattr(AC, v, None)) if isinstance(v, str) else (got is v))
            if not right:
                ck.add_violation(f"parse_cosmology({label}) returns another model ({got!r})", {"cosmology": label})
                continue
        else:
            impl = st
        spec = ("default" if v is None else (("named" if d[4] else "raise:ConfigError") if isinstance(v, str)
                else ("same" if (d[2] or d[3]) else "raise:ConfigError")))
        ck.count(f"cosmology:parse:{impl}")
        ck.case(None, ("cosmo-parse", label))
        if impl != spec:
            ck.add_violation(f"parse_cosmology({label}): {impl}, documented: {spec}", {"cosmology": label})
        creq.append(f"p.{len(creq)} parse {enc}")
        cexp.append((impl, label))
        # Configuration.create goes through the same helper and stores the parsed model
        st2, cfg = outcome(lambda: _Cfg.create(rmin=100, rmax=1000, zmin=0.1, zmax=1.0, num_bins=3, cosmology=v))
        if (st2 == "ok") != (st == "ok") or (st2 == "ok" and cfg.cosmology is not got):
            ck.add_violation(f"Configuration.create(cosmology={label}) {st2} but parse_cosmology {st}", {"cosmology": label})
        # write (objects only make sense here; strings / None are not cosmologies)
        if not isinstance(v, str) and v is not None:
            sty, name = outcome(lambda: cosmology_to_yaml(v))
            implw = "name" if sty == "ok" else sty
            specw = "name" if (d[2] and not d[3] and d[4]) else ("raise:ConfigError" if (d[3] or d[2]) else "raise:TypeError")
            ck.case(None, ("cosmo-yaml", label))
            if implw != specw or (sty == "ok" and getattr(AC, name, None) is not v):
                ck.add_violation(f"cosmology_to_yaml({label}): {implw} {name!r}, documented: {specw} (the predefined model itself)",
                                 {"cosmology": label})
            creq.append(f"y.{len(creq)} yaml {enc}")
            cexp.append((implw, label))
    objs = [k for k, v in values.items() if not isinstance(v, str) and v is not None]
    for la in objs:
        for lb in objs:
            a, b = values[la], values[lb]
            da, db = describe(a), describe(b)
            ste, val = outcome(lambda: cosmology_is_equal(a, b))
            imple = (str(bool(val)).lower() if ste == "ok" else ste)
            both_flrw = da[2] and db[2]
            ae = bool(AC.cosmology_equal(a, b)) if both_flrw else False
            valid = (da[2] or da[3]) and (db[2] or db[3])
            spece = ("raise:TypeError" if not valid else ("true" if (da[3] and db[3]) else (str(ae).lower() if both_flrw else "false")))
            ck.case(None, ("cosmo-eq", la, lb))
            if imple != spece:
                ck.add_violation(f"cosmology_is_equal({la}, {lb}) = {imple}, documented: {spece}", {"a": la, "b": lb})
            creq.append(f"e.{len(creq)} eq {' '.join(str(int(x)) for x in da)} {' '.join(str(int(x)) for x in db)} {int(ae)}")
            cexp.append((imple, f"{la} == {lb}"))
    cans = ck.driver("GenCosmo", creq)
    if cans is not None:
        for (impl, label), a_ in zip(cexp, cans):
            if impl != a_:
                ck.add_tie_break("cosmology decision vs generated chain", {"value": label, "impl": impl, "model": a_})
    return ck.finish()
