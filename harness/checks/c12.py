"""C12 — patch metadata describe the patch; patch i belongs to centre i; measurement guards."""
from __future__ import annotations

import warnings
from fractions import Fraction

import numpy as np

import catalogs as C
import gen_sky as G
import oracle as O
from core import Check, fr, to_frac

np.seterr(all="ignore")
warnings.filterwarnings("ignore")

THEOREMS = [
    "Yaw.C12.meta_counts", "Yaw.C12.radius_contains", "Yaw.C12.radius_tight", "Yaw.C12.centres_aligned",
    "Yaw.C12.missing_centre_rejected", "Yaw.C12.centres_take_precedence", "Yaw.C12.unchecked_pairing_misaligns", "Yaw.C12.guard_rejects",
    "Yaw.C12.guard_rejects_zero_radius", "Yaw.C12.guard_any", "Yaw.C12.ids_guard", "Yaw.C12.glue_pinned",
]
RULE = ("catalogs created in all three patch modes (given centres in random order incl. centres that attract no "
        "object, given centres together with a disagreeing patch-index column, patch-index column with gaps, patch_num via treecorr), 1..6 patches incl. single-object patches, "
        "weighted / unweighted, 1 and 3 workers, small chunk sizes, spatially sorted input whose patches first appear in "
        "descending index order; checked: num_records, sum_weights (EXACT), every "
        "record within the stored radius of the stored centre (robust atan2 formula, 1e-12 slack), keys = 0..N-1 and "
        "centres bitwise equal to the given ones, nearest reported centre reproduces the partition, reopened catalog "
        "has identical metadata; pairs of catalogs with differing id sets / shifted centres must be refused by "
        "PatchLinkage.from_catalogs. non-trivial: >= 2 patches; distinct by case description")


def angsep(v1, v2):
    """robust angular separation of unit vectors"""
    cr = np.linalg.norm(np.cross(v1, v2), axis=-1)
    return np.arctan2(cr, (v1 * v2).sum(axis=-1))


def check_catalog(ck, cat, rep, *, given_centres=None, mode=""):
    """metadata of every patch vs its records"""
    from yaw import AngularCoordinates
    reqs = []
    keys = list(cat.keys())
    cents = cat.get_centers().data
    radii = cat.get_radii().data
    nrec, sw = cat.get_num_records(), cat.get_sum_weights()
    allvec, allpid = [], []
    for k, pid in enumerate(keys):
        patch = cat[pid]
        data = patch.load_data()
        n = len(data)
        w = data["weights"] if patch.has_weights else None
        if nrec[k] != n:
            ck.add_violation(f"[{mode}] patch {pid}: stored num_records {nrec[k]} != {n} records", dict(rep, patch=pid))
            return None
        exp_sw = float(np.sum(w)) if w is not None else float(n)
        if sw[k] != exp_sw:
            ck.add_violation(f"[{mode}] patch {pid}: stored sum_weights {sw[k]} != {exp_sw}", dict(rep, patch=pid))
            return None
        vec = O.to_vec(data["ra"], data["dec"])
        cvec = O.to_vec(cents[k:k + 1, 0], cents[k:k + 1, 1])
        d = angsep(vec, cvec)
        if d.max() > radii[k] * (1 + 1e-12) + 1e-15:
            ck.add_violation(f"[{mode}] patch {pid}: a record lies {d.max()!r} from the stored centre, outside the "
                             f"stored radius {radii[k]!r}", dict(rep, patch=pid))
            return None
        allvec.append(vec)
        allpid.append(np.full(n, pid))
        impl_d = patch.coords.distance(AngularCoordinates(cents[k])).data
        reqs.append((f"meta n={n}", f"meta {n} " + " ".join(fr(x) for x in impl_d) + (" 1 " + " ".join(fr(x) for x in w) if w is not None else " 0"),
                     (n, to_frac(sw[k]), to_frac(radii[k]))))
    if given_centres is not None:
        N = len(given_centres)
        if keys != list(range(N)):
            ck.add_violation(f"[{mode}] catalog created from {N} centres has patches {keys}", rep)
            return None
        if not np.array_equal(cents, given_centres):
            ck.add_violation(f"[{mode}] reported centres differ from the given ones (in order)", rep)
            return None
        # reported centres reproduce the partition
        vec, pid = np.concatenate(allvec), np.concatenate(allpid)
        cv = O.to_vec(cents[:, 0], cents[:, 1])
        d2 = ((vec[:, None, :] - cv[None, :, :]) ** 2).sum(axis=2)
        near = np.argmin(d2, axis=1)
        srt = np.sort(d2, axis=1)
        decided = (srt[:, 1] - srt[:, 0] > 1e-12) if N > 1 else np.ones(len(vec), dtype=bool)
        if np.any((near != pid) & decided):
            ck.add_violation(f"[{mode}] a record is nearer to another patch's reported centre than to its own", rep)
            return None
    return reqs


def run(prop, tier, seed, replay):
    from yaw import AngularCoordinates, Catalog, Configuration
    from yaw.catalog.catalog import InconsistentPatchesError
    from yaw.correlation.measurements import PatchLinkage

    ck = Check(prop, tier, seed, kernels=["k_patchmeta"], theorems=THEOREMS, lean_modules=["YawVerif.Props.C12"], rule=RULE,
               assumptions=["scipy.cluster.vq.vq assigns every record to its nearest centre (first minimum on ties)",
                            "treecorr patch centres are an arbitrary centre list"])
    ck.translate()
    ck.lean_check()
    rng = ck.rng
    n_cases = 30 if tier == "quick" else 300
    root = C.scratch_root()
    reqs = []
    conf = Configuration.create(rmin=0.01, rmax=0.05, unit="rad", zmin=0.1, zmax=1.0, num_bins=2)
    try:
        for ci in range(n_cases):
            workers = 1 if ci % 3 else 3
            with C.Workers(workers):
                if (root / f"c{ci % 4}").exists() and not (root / f"c{ci % 4}" / "patch_ids.bin").exists():
                    C.remove(root / f"c{ci % 4}")           # left by a creation that was refused: not a cache, not overwritable
                field = G.make_field(rng)
                N = field["N"]
                mode = ["centers", "name", "centers_missing", "num", "centers", "centers_and_name"][ci % 6]
                n = rng.choice([N, N + 3, 30, 80])
                if mode == "centers" and ci % 2 == 0:
                    n = max(n, 30)          # several chunks of 7 (stratum below)
                weights = (rng.random() < 0.5) or ci % 4 == 1       # (the zero-weight stratum below needs weights)
                s = G.make_sample(rng, field, n=max(n, N), extent_mode=rng.choice(["compact", "wide", "mixed"]),
                                  zrange=(0.1, 1.0), weights=weights)
                if weights and ci % 2 == 1 and len(s["ra"]) >= 3 * N:
                    # stratum: the outermost record of every patch carries weight exactly 0 (masked objects stay records:
                    # they are counted, and the stored radius has to reach them)
                    v_ = O.to_vec(s["ra"], s["dec"])
                    cv_ = O.to_vec(field["ra"], field["dec"])
                    pid_ = np.asarray(s["patch"])
                    w_ = np.asarray(s["w"], dtype=float).copy()
                    for p_ in range(N):
                        sel_ = np.flatnonzero(pid_ == p_)
                        if len(sel_) >= 3:
                            far_ = sel_[np.argmax(((v_[sel_] - cv_[p_]) ** 2).sum(axis=1))]
                            w_[far_] = 0.0
                    s["w"] = w_
                    ck.count("stratum=zero-weight-outermost-record")
                chunk = rng.choice([None, 7, 16])
                if mode == "centers" and ci % 2 == 0:
                    # spatially sorted input read in small chunks: patches make their first appearance one after the
                    # other, highest index first (order of first appearance != order of the ids)
                    idx = np.argsort(-np.asarray(s["patch"]), kind="stable")
                    s = {k: (v if v is None or k == "extent" or np.ndim(v) == 0 else np.asarray(v)[idx]) for k, v in s.items()}
                    chunk = 7
                rep = {"mode": mode, "N": N, "workers": workers, "chunksize": chunk, "field": {"ra": field["ra"].tolist(), "dec": field["dec"].tolist()},
                       "sample": {k: (None if v is None else np.asarray(v).tolist()) for k, v in s.items() if k != "extent"}}
                ck.count(f"mode={mode}")
                ck.count(f"workers={workers}")
                desc = (mode, N, n, weights, workers, chunk, field["base"])
                try:
                    if mode == "name":
                        ids = s["patch"] * rng.choice([1, 1, 2])          # possibly gaps: 0, 2, 4, …
                        cat = C.make_catalog(root / f"c{ci % 4}", s["ra"], s["dec"], z=s["z"], w=s["w"], patch=ids, chunksize=chunk)
                        r = check_catalog(ck, cat, rep, mode=mode)
                        if set(cat.keys()) != set(np.unique(ids).tolist()):
                            ck.add_violation(f"[name] patches {list(cat.keys())} != ids {np.unique(ids).tolist()}", rep)
                    elif mode == "num":
                        if n < 30:
                            continue
                        cat = C.make_catalog(root / f"c{ci % 4}", s["ra"], s["dec"], z=s["z"], w=s["w"], patch_num=min(N, 3),
                                             probe_size=max(n // 2, 30), chunksize=chunk)
                        r = check_catalog(ck, cat, rep, mode=mode)
                    else:
                        order = rng.sample(range(N), N)
                        cra, cdec = field["ra"][order], field["dec"][order]
                        if mode == "centers_missing":
                            # add a centre far away from every object: it attracts nothing
                            far = G.from_vec(-G.to_vec(*G.BASES[field["base"]]))
                            pos = rng.randrange(N + 1)
                            cra, cdec = np.insert(cra, pos, far[0]), np.insert(cdec, pos, far[1])
                        given = np.column_stack([cra, cdec])
                        given_buf = given.copy()       # the caller's own array: reused for something else afterwards
                        try:
                            if mode == "centers_and_name":
                                # given centres take precedence over a patch-index column (documented); the column
                                # deliberately disagrees with the nearest-centre assignment
                                df = C.dataframe(s["ra"], s["dec"], s["z"], s["w"], (np.asarray(s["patch"]) + 1) % N)
                                cat = Catalog.from_dataframe(root / f"c{ci % 4}", df, ra_name="ra", dec_name="dec", redshift_name="z",
                                                             weight_name="w" if s["w"] is not None else None, patch_name="patch",
                                                             patch_centers=AngularCoordinates(given_buf), degrees=False,
                                                             overwrite=True, **({} if chunk is None else {"chunksize": chunk}))
                                given_buf[:] = 0.25
                            else:
                                cat = C.make_catalog(root / f"c{ci % 4}", s["ra"], s["dec"], z=s["z"], w=s["w"],
                                                     centers=AngularCoordinates(given_buf), chunksize=chunk)
                            given_buf[:] = 0.25        # a catalog must not keep looking at the caller's memory
                        except Exception as e:  # noqa: BLE001
                            ck.case(None, desc if N >= 2 else None)
                            # legitimate only if some given centre really attracts no object
                            v = O.to_vec(s["ra"], s["dec"])
                            cv = O.to_vec(cra, cdec)
                            near = np.argmin(((v[:, None, :] - cv[None, :, :]) ** 2).sum(axis=2), axis=1)
                            if len(set(near.tolist())) < len(cra):
                                ck.count("creation-raised:empty-centre")
                                continue
                            ck.add_violation(f"creation from {len(cra)} centres that all attract objects raised "
                                             f"{type(e).__name__}: {e}", rep)
                            continue
                        if mode == "centers_missing":
                            ck.add_violation("creation with a centre that attracts no object returned a catalog with "
                                             f"patches {list(cat.keys())} instead of raising", rep,
                                             signature=None)
                            r = None
                        else:
                            r = check_catalog(ck, cat, rep, given_centres=given, mode=mode)
                            keys = list(cat.keys())
                            reqs.append(("pair", f"pair {len(keys)} " + " ".join(map(str, keys)) + f" {len(given)}",
                                         " ".join(f"{i}:{i}" for i in range(len(given)))))
                    if r:
                        reqs.extend(r)
                        # reopened catalog: identical metadata
                        cat2 = Catalog(root / f"c{ci % 4}")
                        if not (np.array_equal(cat2.get_centers().data, cat.get_centers().data)
                                and np.array_equal(cat2.get_radii().data, cat.get_radii().data)
                                and cat2.get_num_records() == cat.get_num_records()
                                and cat2.get_sum_weights() == cat.get_sum_weights()):
                            ck.add_violation(f"[{mode}] metadata of the reopened catalog differ", rep)
                    ck.case(dict(rep, sample="…") if len(ck.samples) < 3 else None, desc if N >= 2 else None)
                    # ---- guards of a measurement --------------------------------------------------
                    if mode == "centers" and r and N >= 2:
                        cents, radii = cat.get_centers().data, cat.get_radii().data
                        variant = ["shift_far", "shift_far", "shift_near", "ids"][(ci // 5) % 4]
                        if variant == "ids":
                            s2 = G.make_sample(rng, field, n=max(n, N), extent_mode="compact", zrange=(0.1, 1.0), weights=weights)
                            keep = s2["patch"] != 0
                            other = C.make_catalog(root / f"o{ci}", s2["ra"][keep], s2["dec"][keep], z=s2["z"][keep],
                                                   w=None if s2["w"] is None else s2["w"][keep], patch=s2["patch"][keep])
                            expect = True
                            reqs.append(("ids", f"ids {N} " + " ".join(map(str, range(N))) + f" 1 {N - 1} "
                                         + " ".join(map(str, range(1, N))), "1"))
                        else:
                            # same objects, one centre displaced by more than the radius / a tenth of it
                            k = rng.randrange(N)
                            rk = max(float(radii[k]), 1e-3)
                            delta = 1.5 * rk if variant == "shift_far" else 0.1 * rk
                            c2 = cents.copy()
                            c2[k, 1] = c2[k, 1] + delta if c2[k, 1] < 0 else c2[k, 1] - delta
                            # the displaced catalog holds fewer records (it is not the reference of the linkage)
                            keep = np.ones(len(s["ra"]), dtype=bool)
                            if len(s["ra"]) > 2 * N:
                                drop = rng.sample(range(N, len(s["ra"])), (len(s["ra"]) - N) // 3)
                                keep[drop] = False
                            try:
                                other = C.make_catalog(root / f"o{ci}", s["ra"][keep], s["dec"][keep], z=s["z"][keep],
                                                       w=None if s["w"] is None else s["w"][keep],
                                                       centers=AngularCoordinates(c2))
                            except ValueError:
                                C.remove(root / f"o{ci}")
                                continue
                            if list(other.keys()) != list(cat.keys()):
                                C.remove(root / f"o{ci}")
                                continue
                            d = cat.get_centers().distance(other.get_centers()).data
                            big, small = (cat, other) if sum(cat.get_num_records()) >= sum(other.get_num_records()) else (other, cat)
                            rr = big.get_radii().data
                            expect = bool(np.any(d > rr)) if variant == "shift_far" else None
                            reqs.append(("guard", f"guard {N} " + " ".join(fr(x) for x in d) + " " + " ".join(fr(x) for x in rr),
                                         None))
                        first_other = rng.random() < 0.5
                        try:
                            if first_other:
                                PatchLinkage.from_catalogs(conf, other, cat)
                            else:
                                PatchLinkage.from_catalogs(conf, cat, other)
                            raised = False
                        except InconsistentPatchesError:
                            raised = True
                        reqs[-1] = (reqs[-1][0], reqs[-1][1], ("raised", raised)) if reqs[-1][0] == "guard" else reqs[-1]
                        ck.count(f"guard:{variant}:{'other-first' if first_other else 'ref-first'}:{'raised' if raised else 'accepted'}")
                        ck.case(None, (ci, variant))
                        if expect and not raised:
                            ck.add_violation(f"measurement accepted catalogs with {'different patch ids' if variant == 'ids' else 'a centre farther away than the patch radius'}",
                                             dict(rep, variant=variant))
                        C.remove(root / f"o{ci}")
                finally:
                    if ci % 2 == 0:
                        C.remove(root / f"c{ci % 4}")       # (odd cases leave their catalog: the next user of the path overwrites it)
                    C.remove(root / f"o{ci}")
        # ---- stratum: objects a few nano-radian off the boundary between two patches (survey edges, tiling overlaps): each
        #      belongs to the centre it is nearer to — by 4e-10 in squared chord length, far above double-precision rounding
        nprng_n = np.random.default_rng(rng.randrange(2 ** 32))
        for rep_i in range(2):
            c1 = G.to_vec(*[(0.7, 0.2), (5.9, -1.1)][rep_i])
            c2 = G.to_vec(*[(0.8, 0.25), (6.1, -1.0)][rep_i])
            mid = (c1 + c2) / np.linalg.norm(c1 + c2)
            along = np.cross(c1, c2)
            along /= np.linalg.norm(along)
            across = (c2 - c1) / np.linalg.norm(c2 - c1)
            n_b = 200
            s_ = nprng_n.uniform(-0.02, 0.02, n_b)
            t_ = nprng_n.choice([-2e-9, 2e-9, -5e-9, 5e-9], n_b)
            pts = mid[None, :] + s_[:, None] * along[None, :]
            pts /= np.linalg.norm(pts, axis=1, keepdims=True)
            pts = pts + t_[:, None] * across[None, :]
            ra_n, dec_n = G.from_vec(pts)
            # plus a few objects close to either centre so that both patches are well populated
            near1, near2 = G.from_vec(G.scatter(nprng_n, c1, 0.01, 20)), G.from_vec(G.scatter(nprng_n, c2, 0.01, 20))
            ra_n, dec_n = np.concatenate([ra_n, near1[0], near2[0]]), np.concatenate([dec_n, near1[1], near2[1]])
            given_n = np.column_stack(G.from_vec(np.array([c1, c2])))
            v_n = O.to_vec(ra_n, dec_n)
            cv_n = O.to_vec(given_n[:, 0], given_n[:, 1])
            d2_n = ((v_n[:, None, :] - cv_n[None, :, :]) ** 2).sum(axis=2)
            want_n = np.argmin(d2_n, axis=1)
            clear_n = np.abs(d2_n[:, 0] - d2_n[:, 1]) > 1e-11
            with C.Workers(1):
                cat_n = C.make_catalog(root / "near", ra_n, dec_n, centers=AngularCoordinates(given_n.copy()), chunksize=64)
            ck.case(None, ("near-boundary", rep_i))
            ck.count("stratum=objects-nanoradians-off-a-patch-boundary")
            got_n = {}
            for pid_ in cat_n.keys():
                d_ = cat_n[pid_].load_data()
                for a_, b_ in zip(d_["ra"].tolist(), d_["dec"].tolist()):
                    got_n[(a_, b_)] = pid_
            wrong_n = [i for i in np.flatnonzero(clear_n) if got_n.get((float(ra_n[i]), float(dec_n[i]))) != int(want_n[i])]
            if wrong_n:
                ck.add_violation(f"{len(wrong_n)} of {int(clear_n.sum())} objects 2 - 5 nano-radian off the boundary between two given centres "
                                 "are stored in the patch of the centre that is farther away",
                                 {"mode": "centers", "centres": given_n.tolist(), "ra": ra_n[wrong_n[:5]].tolist(), "dec": dec_n[wrong_n[:5]].tolist()})
            C.remove(root / "near")
        # ---- stratum: one LARGE patch (more records than any block / buffer size a helper may work in, and not a multiple of a
        #      power of two) whose outermost records come last in the input — counts, weight sum and radius still describe it
        nprng_b = np.random.default_rng(rng.randrange(2 ** 32))
        # (records are regrouped within an input chunk, so the outskirts form an input chunk of their own, after the core)
        for n_core, n_out, chunk_b in ((2 * 32818, 1500, 32818), (4 * 32800, 40, 32800)):
            if tier == "quick" and n_core > 100000:
                continue
            ra_b = np.concatenate([0.5 + nprng_b.uniform(-0.01, 0.01, n_core), 0.5 + nprng_b.uniform(0.02, 0.03, n_out), [2.0, 2.001]])
            dec_b = np.concatenate([0.1 + nprng_b.uniform(-0.01, 0.01, n_core), 0.1 + nprng_b.uniform(0.02, 0.03, n_out), [0.0, 0.001]])
            ids_b = np.concatenate([np.zeros(n_core + n_out, dtype=int), [1, 1]])
            w_b = nprng_b.integers(1, 4, len(ra_b)).astype(float)
            with C.Workers(1):
                cat_b = C.make_catalog(root / "big", ra_b, dec_b, w=w_b, patch=ids_b, chunksize=chunk_b)
            ck.case(None, ("big-patch", n_core))
            ck.count("stratum=large-patch")
            for k_, pid_ in enumerate(cat_b.keys()):
                data_ = cat_b[pid_].load_data()
                cen_ = cat_b.get_centers().data[k_]
                d_ = angsep(O.to_vec(data_["ra"], data_["dec"]), O.to_vec(cen_[0:1], cen_[1:2]))
                rad_ = float(cat_b.get_radii().data[k_])
                sel_ = ids_b == pid_
                if (cat_b.get_num_records()[k_] != int(sel_.sum()) or cat_b.get_sum_weights()[k_] != float(w_b[sel_].sum())
                        or d_.max() > rad_ * (1 + 1e-12) + 1e-15):
                    ck.add_violation(f"patch {pid_} of {int(sel_.sum())} records: stored num_records {cat_b.get_num_records()[k_]}, sum_weights "
                                     f"{cat_b.get_sum_weights()[k_]} (true {float(w_b[sel_].sum())}), radius {rad_!r} but a record lies "
                                     f"{float(d_.max())!r} from the stored centre ({int((d_ > rad_ * (1 + 1e-12) + 1e-15).sum())} records outside)",
                                     {"mode": "name", "records": int(sel_.sum()), "outermost_records_last": n_out, "chunksize": chunk_b})
                    break
            C.remove(root / "big")
        # ---- stratum: a reference patch of radius EXACTLY zero (single object, centre = the object) whose partner
        #      patch lies elsewhere: the alignment guard must refuse it (theorem guard_rejects_zero_radius)
        with C.Workers(1):
            for gi, (ra0, dec0) in enumerate([(45.0, 0.0), (90.0, 0.0), (0.0, 0.0), (135.0, 45.0)]):
                nprng = np.random.default_rng(seed * 100 + gi)
                n1 = 40
                ra_b = np.concatenate([[np.deg2rad(ra0)], np.deg2rad(200.0) + nprng.uniform(-0.02, 0.02, n1)])
                dec_b = np.concatenate([[np.deg2rad(dec0)], np.deg2rad(-20.0) + nprng.uniform(-0.02, 0.02, n1)])
                ids = np.concatenate([[0], np.ones(n1, dtype=int)])
                big = C.make_catalog(root / f"g{gi}a", ra_b, dec_b, z=nprng.uniform(0.1, 1, n1 + 1), patch=ids)
                # partner: patch 1 at the same place, patch 0 about 55 degrees away from the single object
                # (the reference catalog is chosen by comparing the per-patch record counts as tuples, so the partner's
                #  patch 0 holds a single object as well: then the larger patch 1 makes `big` the reference)
                ra_s = np.concatenate([[np.deg2rad(ra0 + 55.0)], np.deg2rad(200.0) + nprng.uniform(-0.02, 0.02, 10)])
                dec_s = np.concatenate([[np.deg2rad(dec0 * 0.5)], np.deg2rad(-20.0) + nprng.uniform(-0.02, 0.02, 10)])
                small = C.make_catalog(root / f"g{gi}b", ra_s, dec_s, z=nprng.uniform(0.1, 1, 11),
                                       patch=np.concatenate([np.zeros(1, dtype=int), np.ones(10, dtype=int)]))
                r0 = float(big.get_radii().data[0])
                ck.count(f"guard:zero-radius:{'exact' if r0 == 0.0 else 'tiny'}")
                for order in ("ref-first", "other-first"):
                    try:
                        PatchLinkage.from_catalogs(conf, *((big, small) if order == "ref-first" else (small, big)))
                        raised = False
                    except InconsistentPatchesError:
                        raised = True
                    ck.case(None, ("guard-zero", gi, order))
                    if not raised:
                        ck.add_violation(f"measurement accepted two catalogs whose patch 0 lies 55 degrees apart (the larger "
                                         f"catalog's patch 0 is a single object at ({ra0}, {dec0}) deg with stored radius {r0!r})",
                                         {"variant": "zero-radius", "position_deg": [ra0, dec0], "order": order, "radius": r0})
                C.remove(root / f"g{gi}a")
                C.remove(root / f"g{gi}b")
    finally:
        C.remove(root)
    # ---- (a) implementation vs Lean model ------------------------------------------------------
    ans = ck.driver("GenPatchMeta", [f"{i} {r[1]}" for i, r in enumerate(reqs)])
    if ans is not None:
        for (kind, req, exp), a in zip(reqs, ans):
            ck.count(f"tie:{kind.split()[0]}")
            if kind.startswith("meta"):
                t = a.split()
                got = (int(t[0]), Fraction(t[1]), Fraction(t[2]))
                if got != exp:
                    ck.add_tie_break("Metadata.compute: implementation vs model", {"request": req[:200], "model": str(got), "impl": str(exp)})
            elif kind == "pair":
                if a != exp:
                    ck.add_tie_break("load_patches centre pairing vs model", {"request": req, "model": a})
            elif kind == "ids":
                if a != exp:
                    ck.add_tie_break("id-set guard vs model", {"request": req, "model": a})
            elif kind == "guard" and exp is not None:
                if (a == "1") != exp[1]:
                    ck.add_tie_break("check_patch_conistency vs model", {"request": req[:300], "model": a, "impl_raised": exp[1]})
    return ck.finish()

