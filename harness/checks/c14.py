"""C14 — spherical geometry primitives are accurate everywhere on the sphere."""
from __future__ import annotations

import warnings

import numpy as np

from core import Check, Infra

np.seterr(all="ignore")
warnings.filterwarnings("ignore")

THEOREMS = ["Yaw.C14.toVec_unit", "Yaw.C14.angle_chord_inverse", "Yaw.C14.chord_angle_inverse",
            "Yaw.C14.chord_strictMono", "Yaw.C14.angle_strictMono", "Yaw.C14.ra_range", "Yaw.C14.fromVec_toVec",
            "Yaw.C14.fromVec_pole", "Yaw.C14.distance_eq_angle", "Yaw.C14.distance_symm",
            "Yaw.C14.distance_triangle", "Yaw.C14.chord_le_two", "Yaw.C14.distance_clipped", "Yaw.C14.mean_pinned", "Yaw.C14.fromVec_scale", "Yaw.C14.mean_direction", "Yaw.C14.mean_single"]
RULE = ("points on the whole sphere incl. exact poles, the RA wrap, colatitudes 1e-3..1e-15, separations 1e-16..pi incl. "
        "exact and near antipodes; compared with a 60-digit mpmath oracle under explicit bounds: to_3d 4 ulp(1) per "
        "component; from_3d(to_3d) declination 8 ulp / cos(dec), right ascension 16 ulp / (|sin ra| cos dec); "
        "separation 8 ulp * (1 + 1/sqrt(1-(c/2)^2)); chord <-> angle round "
        "trips 8 ulp x conditioning; all ill-conditioned cases (arcsin / arccos towards +-1: poles, RA in {0, pi}, "
        "near-antipodal separations) capped at 6e-8 = 2 sqrt(2 k u), k = 4; both maps order preserving; RA in "
        "[0, 2 pi); no exception anywhere; mean direction 6e-8. non-trivial: every point set counts; distinct by generated value")
U = 2.0 ** -52


def run(prop, tier, seed, replay):
    try:
        import mpmath as mp
    except ImportError as e:
        raise Infra("mpmath is not installed in /verif/.pydeps (run setup.sh)") from e
    from yaw.coordinates import AngularCoordinates, AngularDistances

    mp.mp.dps = 60
    ck = Check(prop, tier, seed, kernels=["k_sphere"], theorems=THEOREMS, lean_modules=["YawVerif.Props.C14"], rule=RULE,
               assumptions=["libm sin/cos/arcsin/arccos/sqrt are accurate to < 1 ulp (runtime behaviour, not modelled)",
                            "PARTIAL: the rounding bounds are validated against mpmath, the theorems are over the reals"])
    ck.translate()
    ck.lean_check()
    rng = ck.rng
    nprng = np.random.default_rng(rng.randrange(2 ** 32))
    n = 1500 if tier == "quick" else 20000

    def attempt(f, what, rep):
        try:
            return f()
        except Exception as e:  # noqa: BLE001
            ck.add_violation(f"{what} raised {type(e).__name__}: {e}", rep)
            return None

    # ---- point sets ---------------------------------------------------------------------------------
    ra = nprng.uniform(0, 2 * np.pi, n)
    dec = np.arcsin(nprng.uniform(-1, 1, n))
    special_ra = np.array([0.0, np.pi, 2 * np.pi - 1e-16, 1e-300, np.pi / 2, 3 * np.pi / 2, np.nextafter(2 * np.pi, 0)])
    special_dec = np.array([np.pi / 2, -np.pi / 2, 0.0, np.pi / 2 - 1e-8, -np.pi / 2 + 1e-12, 1e-300, np.pi / 2 - 1e-3])
    gra, gdec = np.meshgrid(special_ra, special_dec)
    ra = np.concatenate([ra, gra.ravel(), nprng.uniform(0, 2 * np.pi, 200)])
    dec = np.concatenate([dec, gdec.ravel(), np.sign(nprng.uniform(-1, 1, 200)) * (np.pi / 2 - 10.0 ** nprng.uniform(-15, -3, 200))])
    coords = AngularCoordinates(np.column_stack([ra, dec]))
    ck.count("points", len(ra))
    # to_3d
    vec = attempt(coords.to_3d, "to_3d", {})
    if vec is None:
        return ck.finish()
    bad = 0
    for i in rng.sample(range(len(ra)), min(len(ra), 400)):
        r_, d_ = mp.mpf(float(ra[i])), mp.mpf(float(dec[i]))
        ex = (mp.cos(r_) * mp.cos(d_), mp.sin(r_) * mp.cos(d_), mp.sin(d_))
        ck.case({"ra": float(ra[i]), "dec": float(dec[i])} if len(ck.samples) < 3 else None, ("to3d", float(ra[i]), float(dec[i])))
        if any(abs(mp.mpf(float(vec[i, k])) - ex[k]) > 4 * U for k in range(3)):
            bad += 1
            ck.add_violation(f"to_3d({ra[i]!r}, {dec[i]!r}) = {vec[i].tolist()} is more than 4 ulp from the exact vector",
                             {"ra": float(ra[i]), "dec": float(dec[i])})
            break
    # input given in other number types (single precision catalogs, integer degrees converted by the caller, lists): the
    # values ARE exact reals; the result must be as accurate as for the same values given in double precision
    for dt in ("float32", "float16", "list", "int64"):
        k = 60
        if dt == "int64":
            r0 = nprng.integers(0, 7, k).astype("int64")
            d0 = nprng.integers(-1, 2, k).astype("int64")
            arr = np.column_stack([r0, d0])
        else:
            r0 = nprng.uniform(0, 2 * np.pi, k).astype("float16" if dt == "float16" else "float32")
            d0 = np.arcsin(nprng.uniform(-1, 1, k)).astype(r0.dtype)
            arr = np.column_stack([r0, d0])
        given = arr.astype("float64").tolist() if dt == "list" else arr
        cc = attempt(lambda: AngularCoordinates(given), f"AngularCoordinates({dt} input)", {"dtype": dt})
        if cc is None:
            continue
        v = attempt(cc.to_3d, f"to_3d ({dt} input)", {"dtype": dt})
        sep = attempt(lambda: cc.distance(AngularCoordinates(np.roll(arr.astype("float64"), 1, axis=0))).data,
                      f"distance ({dt} input)", {"dtype": dt})
        ck.count(f"input-dtype={dt}")
        if v is None or sep is None:
            continue
        for i in range(k):
            r_, d_ = mp.mpf(float(arr[i, 0])), mp.mpf(float(arr[i, 1]))
            ex = (mp.cos(r_) * mp.cos(d_), mp.sin(r_) * mp.cos(d_), mp.sin(d_))
            ck.case(None, ("dtype", dt, i))
            if any(abs(mp.mpf(float(v[i, j])) - ex[j]) > 4 * U for j in range(3)):
                ck.add_violation(f"to_3d of the point ({float(arr[i, 0])!r}, {float(arr[i, 1])!r}) given as {dt} = {v[i].tolist()} is "
                                 "more than 4 ulp from the exact vector (the same values given as float64 are converted exactly)",
                                 {"ra": float(arr[i, 0]), "dec": float(arr[i, 1]), "dtype": dt})
                break
        ref64 = AngularCoordinates(arr.astype("float64")).distance(AngularCoordinates(np.roll(arr.astype("float64"), 1, axis=0))).data
        if not np.array_equal(sep, ref64):
            i = int(np.argmax(np.abs(sep - ref64)))
            ck.add_violation(f"separation of two points given as {dt} ({sep[i]!r}) differs from the separation of the same "
                             f"points given as float64 ({ref64[i]!r})", {"dtype": dt, "p": arr[i].tolist(),
                                                                         "q": np.roll(arr, 1, axis=0)[i].tolist()})
    # small point sets of every size: the conversion treats each point on its own, whatever the number of points
    for npts in (1, 2, 3, 4, 5):
        for rep_i in range(3):
            r0 = nprng.uniform(0.1, 2 * np.pi - 0.1, npts)
            d0 = nprng.uniform(-1.2, 1.2, npts)
            small = AngularCoordinates(np.column_stack([r0, d0]))
            rt = attempt(lambda: AngularCoordinates.from_3d(small.to_3d()), f"from_3d(to_3d) of {npts} point(s)", {"n": npts})
            ck.case(None, ("small-set", npts, rep_i))
            ck.count(f"set-size={npts}")
            if rt is None:
                continue
            if len(rt) != npts or np.max(np.abs(rt.ra - r0)) > 1e-9 or np.max(np.abs(rt.dec - d0)) > 1e-9:
                ck.add_violation(f"from_3d(to_3d(c)) is not c for a set of {npts} point(s): ra {r0.tolist()} dec {d0.tolist()} "
                                 f"come back as ra {rt.ra.tolist()} dec {rt.dec.tolist()}", {"ra": r0.tolist(), "dec": d0.tolist()})
                break
            mn = attempt(lambda: small.mean(), f"mean of {npts} point(s)", {"n": npts})
            if mn is not None:
                v = small.to_3d().sum(axis=0)
                v = v / np.linalg.norm(v)
                mv = mn.to_3d()[0]
                if np.max(np.abs(mv - v)) > 1e-12:
                    ck.add_violation(f"mean of {npts} point(s) is not the direction of their vector sum",
                                     {"ra": r0.tolist(), "dec": d0.tolist()})
                    break
    # from_3d(to_3d)
    back = attempt(lambda: AngularCoordinates.from_3d(vec), "from_3d", {})
    if back is not None:
        bra, bdec = back.ra, back.dec
        if not (np.all(bra >= 0) and np.all(bra < 2 * np.pi)):
            i = int(np.argmax((bra < 0) | (bra >= 2 * np.pi)))
            ck.add_violation(f"right ascension {bra[i]!r} outside [0, 2 pi)", {"ra": float(ra[i]), "dec": float(dec[i])})
        cosd = np.maximum(np.cos(dec), 1e-300)
        # declination: arcsin near +-1 loses half the digits
        dtol = np.minimum(8 * U / cosd + 8 * U, 6e-8)          # arcsin is ill-conditioned towards +-1
        derr = np.abs(bdec - dec)
        if np.any(derr > dtol):
            i = int(np.argmax(derr - dtol))
            ck.add_violation(f"from_3d(to_3d): declination {dec[i]!r} comes back as {bdec[i]!r}", {"ra": float(ra[i]), "dec": float(dec[i])})
        dra = np.abs(((bra - ra % (2 * np.pi)) + np.pi) % (2 * np.pi) - np.pi)
        sinr = np.maximum(np.abs(np.sin(ra)), 1e-300)
        # arccos(x / r) is ill-conditioned towards RA in {0, pi}: error ~ u / |sin ra|, at worst sqrt(2 k u)
        rtol_ = np.minimum(16 * U / (sinr * cosd) + 16 * U, 6e-8 / cosd)
        ok_pole = np.abs(np.cos(dec)) < 1e-9          # RA meaningless next to the pole
        viol = (dra > rtol_ + 1e-15) & ~ok_pole
        if np.any(viol):
            i = int(np.argmax(viol))
            ck.add_violation(f"from_3d(to_3d): right ascension {ra[i]!r} (dec {dec[i]!r}) comes back as {bra[i]!r}",
                             {"ra": float(ra[i]), "dec": float(dec[i])})
    # ---- separations ------------------------------------------------------------------------------------
    m = 600 if tier == "quick" else 6000
    i1 = nprng.integers(0, len(ra), m)
    seps = np.concatenate([10.0 ** nprng.uniform(-16, 0, m // 2), np.pi - 10.0 ** nprng.uniform(-16, 0, m // 4),
                           nprng.uniform(0, np.pi, m - m // 2 - m // 4)])
    phi = nprng.uniform(0, 2 * np.pi, m)
    # second point at angular distance seps from the first, direction phi (computed in mp for exactness of the oracle)
    a = AngularCoordinates(np.column_stack([ra[i1], dec[i1]]))
    va = a.to_3d()
    e1 = np.cross(va, np.array([0.0, 0.0, 1.0]) + 1e-3)
    e1 /= np.linalg.norm(e1, axis=1, keepdims=True)
    e2 = np.cross(va, e1)
    vb = np.cos(seps)[:, None] * va + np.sin(seps)[:, None] * (np.cos(phi)[:, None] * e1 + np.sin(phi)[:, None] * e2)
    b = AngularCoordinates.from_3d(vb)
    anti = AngularCoordinates.from_3d(-va)          # exact antipodes
    # many exact antipodes: the chord may exceed 2 by a rounding error (about 0.2 % of random positions)
    big = AngularCoordinates(np.column_stack([nprng.uniform(0, 2 * np.pi, 30000), np.arcsin(nprng.uniform(-1, 1, 30000))]))
    big_anti = AngularCoordinates.from_3d(-big.to_3d())
    dbig = attempt(lambda: big.distance(big_anti).data, "distance between exact antipodes", {"label": "antipodes-30000"})
    ck.count("antipodal pairs", 30000)
    if dbig is not None and np.any(np.abs(dbig - np.pi) > 6e-8):
        ck.add_violation(f"separation of antipodes {dbig[np.argmax(np.abs(dbig - np.pi))]!r} is not pi", {"label": "antipodes"})
    for label, p, q in (("pairs", a, b), ("antipodes", a, anti), ("identical", a, a)):
        d = attempt(lambda p=p, q=q: p.distance(q).data, f"distance ({label})", {"label": label})
        if d is None:
            continue
        d2 = attempt(lambda p=p, q=q: q.distance(p).data, f"distance ({label})", {"label": label})
        if d2 is not None and not np.array_equal(d, d2):
            ck.add_violation("separation is not symmetric", {"label": label})
        if not (np.all(d >= 0) and np.all(d <= np.pi + 4 * U)):
            ck.add_violation(f"separation outside [0, pi]: {d.min()!r} .. {d.max()!r}", {"label": label})
        for i in rng.sample(range(m), 150):
            pr, pd, qr, qd = (mp.mpf(float(x)) for x in (p.ra[i], p.dec[i], q.ra[i], q.dec[i]))
            # exact angle between the two stored sky positions (haversine in 60 digits)
            h = mp.sin((qd - pd) / 2) ** 2 + mp.cos(pd) * mp.cos(qd) * mp.sin((qr - pr) / 2) ** 2
            ex = 2 * mp.asin(mp.sqrt(min(h, mp.mpf(1))))
            c = 2 * mp.sin(ex / 2)
            amp = 1 + 1 / mp.sqrt(max(1 - (c / 2) ** 2, mp.mpf(10) ** -40))
            tol = min(8 * U * amp * max(ex, mp.mpf(1)) + 8 * U, mp.mpf(6e-8))
            ck.case(None, (label, float(p.ra[i]), float(q.ra[i])))
            if abs(mp.mpf(float(d[i])) - ex) > tol:
                ck.add_violation(f"separation {d[i]!r} differs from the exact angle {float(ex)!r} by more than {float(tol):.2e}",
                                 {"p": [float(p.ra[i]), float(p.dec[i])], "q": [float(q.ra[i]), float(q.dec[i])]})
                break
    # ---- chord <-> angle ----------------------------------------------------------------------------------
    t = np.sort(np.concatenate([10.0 ** nprng.uniform(-300, 0, 300), nprng.uniform(0, np.pi, 600), [0.0, np.pi],
                                np.pi - 10.0 ** nprng.uniform(-16, -1, 100)]))
    chord = attempt(lambda: AngularDistances(t).to_3d(), "AngularDistances.to_3d", {})
    if chord is not None:
        if np.any(np.diff(chord) < 0):
            ck.add_violation("angle -> chord is not order preserving", {})
        rt = attempt(lambda: AngularDistances.from_3d(chord).data, "AngularDistances.from_3d", {})
        if rt is not None:
            if np.any(np.diff(rt) < 0):
                ck.add_violation("chord -> angle is not order preserving", {})
            amp = 1 + 1 / np.sqrt(np.maximum(1 - (chord / 2) ** 2, 1e-300))
            tol = np.minimum(8 * U * amp * np.maximum(t, 1e-300) + 8 * U * t, 6e-8)
            if np.any(np.abs(rt - t) > tol + 1e-320):
                i = int(np.argmax(np.abs(rt - t) - tol))
                ck.add_violation(f"angle -> chord -> angle: {t[i]!r} comes back as {rt[i]!r}", {"angle": float(t[i])})
        for i in rng.sample(range(len(t)), 100):
            ex = 2 * mp.sin(mp.mpf(float(t[i])) / 2)
            ck.case(None, ("chord", float(t[i])))
            if abs(mp.mpf(float(chord[i])) - ex) > 4 * U * max(ex, mp.mpf(10) ** -320):
                ck.add_violation(f"chord of angle {t[i]!r} is {chord[i]!r}, more than 4 ulp off", {"angle": float(t[i])})
                break
    dd = np.sort(np.concatenate([nprng.uniform(0, 2, 500), [0.0, 2.0], 2 - 10.0 ** nprng.uniform(-16, -1, 100)]))
    ang = attempt(lambda: AngularDistances.from_3d(dd).data, "AngularDistances.from_3d", {})
    if ang is not None and np.any(np.diff(ang) < 0):
        ck.add_violation("chord -> angle is not order preserving", {})
    # ---- mean direction -------------------------------------------------------------------------------------
    for _ in range(40 if tier == "quick" else 400):
        k = rng.choice([1, 2, 5, 50])
        c0 = rng.randrange(len(ra))
        ext = rng.choice([1e-6, 1e-2, 0.5])
        rr = (ra[c0] + nprng.uniform(-ext, ext, k)) % (2 * np.pi)
        dd_ = np.clip(dec[c0] + nprng.uniform(-ext, ext, k), -np.pi / 2, np.pi / 2)
        w = nprng.uniform(0.5, 2, k) if rng.random() < 0.5 else None
        if w is not None:
            # the overall scale of the weights is arbitrary (probabilities, likelihoods, counts): it cycles over 40 decades
            w = w * [1.0, 1e-20, 1e20, 3e-12, 1e-30][_ % 5]
            ck.count("mean:weight-scale=%g" % [1.0, 1e-20, 1e20, 3e-12, 1e-30][_ % 5])
        pts = AngularCoordinates(np.column_stack([rr, dd_]))
        mean = attempt(lambda: pts.mean(w), "mean", {"ra": rr.tolist(), "dec": dd_.tolist()})
        if mean is None:
            continue
        ww = [mp.mpf(1)] * k if w is None else [mp.mpf(float(x)) for x in w]
        sx = sum(wi * mp.cos(mp.mpf(float(r))) * mp.cos(mp.mpf(float(d))) for wi, r, d in zip(ww, rr, dd_))
        sy = sum(wi * mp.sin(mp.mpf(float(r))) * mp.cos(mp.mpf(float(d))) for wi, r, d in zip(ww, rr, dd_))
        sz = sum(wi * mp.sin(mp.mpf(float(d))) for wi, d in zip(ww, dd_))
        nrm = mp.sqrt(sx * sx + sy * sy + sz * sz)
        mv = mean.to_3d()[0]
        ck.case(None, ("mean", float(rr[0]), k))
        # the mean is returned as (ra, dec): its conversion carries the from_3d bounds (<= 6e-8)
        if any(abs(mp.mpf(float(mv[j])) - [sx, sy, sz][j] / nrm) > 6e-8 for j in range(3)):
            ck.add_violation("mean direction differs from the normalised (weighted) vector sum by more than 6e-8",
                             {"ra": rr.tolist(), "dec": dd_.tolist(), "w": None if w is None else w.tolist()})
    # ---- stratum: input RA outside [0, 2 pi) (other conventions), one point and several: the mean's RA is in range
    for k in (1, 1, 1, 2, 5):
        for shift in (-2 * np.pi, 2 * np.pi, -np.pi):
            base = rng.uniform(0.2, 6.0)
            rr = base + nprng.uniform(-1e-3, 1e-3, k) + shift
            dd_ = nprng.uniform(-1.0, 1.0, k) * 0.5
            pts = AngularCoordinates(np.column_stack([rr, dd_]))
            w = nprng.uniform(0.5, 2, k) if rng.random() < 0.5 else None
            mean = attempt(lambda: pts.mean(w), "mean", {"ra": rr.tolist(), "dec": dd_.tolist()})
            if mean is None:
                continue
            ck.case(None, ("mean-range", k, float(shift)))
            mra = float(np.atleast_1d(mean.ra)[0])
            if not (0.0 <= mra < 2 * np.pi):
                ck.add_violation(f"mean of {k} point(s) with right ascension {rr.tolist()} has RA {mra} outside [0, 2 pi)",
                                 {"ra": rr.tolist(), "dec": dd_.tolist()})
            else:
                want = float(np.mean(rr) % (2 * np.pi)) if k == 1 else None
                if want is not None and abs(mra - want) > 1e-7:
                    ck.add_violation(f"mean of the single point RA={rr[0]} is RA={mra}, expected {want}",
                                     {"ra": rr.tolist(), "dec": dd_.tolist()})
    # ---- stratum: the same instance used repeatedly — what a call returns is the caller's to modify, and an instance
    #      answers for the coordinates it holds NOW (it wraps the caller's float64 buffer without copying)
    for k in (1, 3, 8):
        buf = np.column_stack([nprng.uniform(0, 2 * np.pi, k), np.arcsin(nprng.uniform(-1, 1, k))])
        other = AngularCoordinates(np.column_stack([nprng.uniform(0, 2 * np.pi, k), np.arcsin(nprng.uniform(-1, 1, k))]))
        c = AngularCoordinates(buf)
        rep = {"points": buf.tolist(), "other": other.data.tolist()}
        xyz = c.to_3d()
        d_first = c.distance(other).data.copy()
        m_first = c.mean().data.copy()
        xyz *= 3.7                                   # the caller's own array
        ck.case(None, ("reuse", k))
        fresh = AngularCoordinates(buf.copy())
        if not (np.array_equal(c.to_3d(), fresh.to_3d()) and np.array_equal(c.distance(other).data, d_first)
                and np.array_equal(c.mean().data, m_first)):
            ck.add_violation("scaling the array returned by to_3d() in place changes later results of the same instance "
                             "(to_3d / distance / mean)", dict(rep, step="scaled the returned unit vectors by 3.7"))
            continue
        buf[:, 0] = (buf[:, 0] + 1.0) % (2 * np.pi)    # the coordinates themselves change (shared buffer)
        buf[:, 1] = -buf[:, 1]
        fresh = AngularCoordinates(buf.copy())
        if np.array_equal(c.data, fresh.data) and not (
                np.array_equal(c.to_3d(), fresh.to_3d()) and np.array_equal(c.distance(other).data, fresh.distance(other).data)
                and np.array_equal(c.mean().data, fresh.mean().data)):
            ck.add_violation("an instance whose coordinates (.ra / .dec) read the new values still answers to_3d / distance / "
                             "mean for the old ones", dict(rep, step="coordinate buffer changed in place", new=buf.tolist()))
    return ck.finish()
