"""C10 — redshift-bin membership follows the closed-side rule everywhere."""
from __future__ import annotations

import warnings
from fractions import Fraction

import numpy as np

import catalogs as C
from core import Check, Infra, fr, to_frac

np.seterr(all="ignore")
warnings.filterwarnings("ignore")

THEOREMS = [
    "Yaw.C10.digitize_spec", "Yaw.C10.binIndex_spec", "Yaw.C10.binIndex_none", "Yaw.C10.hist_rule",
    "Yaw.C10.consumers_agree", "Yaw.C10.member_unique",
]
RULE = ("catalogs of 1..4 patches whose redshifts are drawn with probability ~0.6 from the edge set itself (inner and "
        "outer edges), else below zmin / above zmax / inside; both closed sides; weighted (integer weights) and "
        "unweighted; bins and patches without objects. Observables (EXACT): per-bin num_records and sum_weights of "
        "BinnedTrees per patch, HistData.from_catalog per-bin totals, sum_weights1/2 of autocorrelate's DD/DR and of "
        "crosscorrelate's DD/RD (reference randoms binned inside the measurement), "
        "against (a) the generated digitize/histogram model and (b) the closed-side membership spec. non-trivial: "
        "at least one redshift exactly on an edge and >= 2 bins; distinct by request text")


def in_binning(z, edges, closed):
    if closed == "right":
        return (z > edges[0]) & (z <= edges[-1])
    return (z >= edges[0]) & (z < edges[-1])


def observe(case, cat, edges, closed, P, ci):
    """all implementation observables of one case"""
    import yaw
    from yaw.binning import Binning
    from yaw.catalog.trees import BinnedTrees
    from yaw.config import BinningConfig, Configuration
    from yaw.redshifts import HistData, _redshift_histogram
    if ci % 3 == 1:
        # trees cached for the same edges but the other closed side must not be reused
        cat.build_trees(edges, closed="left" if closed == "right" else "right")
        case["history"] = "trees built before for the same edges and the other closed side"
    if ci % 3 == 2:
        # ... nor trees cached for edges that differ from the requested ones by one unit in the last place (the same
        # numbers computed another way, e.g. literals vs. arange): a redshift ON an edge changes its bin
        near = np.array([np.nextafter(e, np.inf if k % 2 == 0 else -np.inf) for k, e in enumerate(edges)])
        cat.build_trees(near, closed=closed)
        case["history"] = "trees built before for edges one ulp away: " + repr(near.tolist())
    if ci % 5 == 3 and P >= 2:
        # the build runs in worker processes (the binning travels to them through pickle): the closed side must survive the trip
        with C.Workers(2):
            cat.build_trees(edges, closed=closed, force=True)
        case["history"] = case.get("history", "") + " | trees built by 2 worker processes"
    else:
        cat.build_trees(edges, closed=closed)
    trees_num, trees_sum = [], []
    for p in range(P):
        bt = BinnedTrees(cat[p])
        ts = list(bt.trees)
        trees_num.append([t.num_records for t in ts])
        trees_sum.append([t.sum_weights for t in ts])
    case["trees_num"], case["trees_sum"] = trees_num, trees_sum
    cfg = BinningConfig(Binning(edges, closed=closed))
    hd = HistData.from_catalog(cat, cfg)
    case["hist"] = hd.data
    case["hist_patch"] = [_redshift_histogram(cat[p], cfg.binning) for p in range(P)]
    if ci % 4 == 0:
        conf = Configuration.create(rmin=0.1, rmax=1.0, unit="rad", edges=edges, closed=closed)
        cf = yaw.autocorrelate(conf, cat, cat, count_rr=False)[0]
        case["sw1"] = cf.dd.sum_weights.sum_weights1
        case["sw2"] = cf.dr.sum_weights.sum_weights2
    if "rand" in case:
        # reference randoms are binned inside crosscorrelate only: their trees must follow the configured closed side too
        conf = Configuration.create(rmin=0.1, rmax=1.0, unit="rad", edges=edges, closed=closed)
        cf = yaw.crosscorrelate(conf, cat, case["unk"], ref_rand=case["rand"])[0]
        case["sw_rd"] = cf.rd.sum_weights.sum_weights1
        case["sw_dd_cross"] = cf.dd.sum_weights.sum_weights1


def run(prop, tier, seed, replay):
    import yaw
    from yaw.binning import Binning
    from yaw.catalog.trees import BinnedTrees
    from yaw.config import BinningConfig, Configuration
    from yaw.redshifts import HistData

    import plan_tie
    ck = Check(prop, tier, seed, kernels=["k_binning", "k_plan"], theorems=THEOREMS + plan_tie.THEOREMS,
               lean_modules=["YawVerif.Props.C10", plan_tie.MODULE],
               rule=RULE + "; measurement plans: autocorrelate / crosscorrelate instrumented for every presence pattern "
                           "of the random catalogs (roles of the trees, closed side forwarded, CorrFunc members)",
               assumptions=["np.digitize / np.histogram semantics as documented by numpy (modelled)",
                            "float comparison of identical binary64 values is exact"])
    ck.translate()
    ck.lean_check()
    rng = ck.rng
    n_cases = 40 if tier == "quick" else 400
    if ck.tie_breaks:
        n_cases *= 2
    root = C.scratch_root()
    plan_tie.check_plan(ck, root)
    reqs, cases = [], []
    try:
        with C.Workers(1):
            for ci in range(n_cases):
                B = rng.choice([1, 2, 3, 4, 6])
                lo = rng.choice([0.0, 0.01, 0.1, 0.25])
                if ci % 7 == 2:
                    lo = [2.0, 3.5, 1.9][(ci // 7) % 3]        # high-redshift binnings: edges at and above 2 (their ulp is 4e-16 and more)
                    ck.count("stratum=edges-above-2")
                widths = [rng.choice([0.05, 0.1, 0.125, 0.3]) for _ in range(B)]
                edges = np.concatenate([[lo], lo + np.cumsum(widths)])
                if ci % 4 == 3:
                    # stratum: EQUAL-WIDTH bins whose edges are decimal literals / an arithmetic progression — not the
                    # numbers np.linspace would regenerate from the end points; most redshifts sit on the edges
                    B = rng.choice([3, 5, 9])
                    if (ci // 4) % 2 == 0:
                        edges = np.array([float(f"{0.1 * (k + 1):.1f}") for k in range(B + 1)])
                    else:
                        edges = 0.1 + 0.1 * np.arange(B + 1)
                    ck.count("stratum=equal-width-literal-edges")
                if ci % 20 in (5, 14):
                    # stratum: MANY bins (more than a byte / a signed byte can index), objects on edges across the whole
                    # range and above zmax — index arithmetic of the tree builder must not wrap
                    B = rng.choice([260, 300, 515])
                    edges = 0.01 + 0.005 * np.arange(B + 1)
                    ck.count("stratum=many-bins")
                closed = ["left", "right"][(ci // 8) % 2 if ci % 4 == 3 else ci % 2]
                P = rng.choice([1, 2, 3, 4])
                weighted = (ci // 2) % 2 == 0
                n = rng.choice([1, 3, 8, 20, 40])
                z, w, pid = [], [], []
                for i in range(max(n, P)):
                    r = rng.random()
                    if r < 0.6:
                        zz = float(rng.choice(list(edges)))
                    elif r < 0.7:
                        zz = float(edges[0]) - rng.choice([0.001, 0.5]) if edges[0] > 0.001 else float(edges[0])
                    elif r < 0.8:
                        zz = float(edges[-1]) + rng.choice([1e-9, 0.5])
                    else:
                        zz = rng.uniform(float(edges[0]), float(edges[-1]))
                    z.append(zz)
                    w.append(float(rng.choice([1, 2, 3, 5, 10, 100])))
                    pid.append(i if i < P else rng.randrange(P))
                z, w, pid = np.array(z), np.array(w), np.array(pid)
                if rng.random() < 0.3 and P >= 2:
                    z[pid == 0] = edges[-1] + 1.0      # a patch without any object inside the binning
                ra = np.array([rng.uniform(0.0, 0.3) for _ in z]) + pid
                dec = np.array([rng.uniform(-0.2, 0.2) for _ in z])
                cat = C.make_catalog(root / f"c{ci}", ra, dec, z=z, w=w if weighted else None, patch=pid)
                ww = w if weighted else np.ones_like(w)
                case = dict(ci=ci, B=B, P=P, closed=closed, weighted=weighted, edges=edges, z=z, w=ww, pid=pid, cat=cat)
                if ci % 4 == 2:
                    case["rand"] = C.make_catalog(root / f"r{ci}", ra, dec, z=z, w=w if weighted else None, patch=pid)
                    # (a catalog cannot serve as binned reference and unbinned unknown sample of ONE measurement: own copy)
                    case["unk"] = C.make_catalog(root / f"u{ci}", ra, dec, z=z, w=w if weighted else None, patch=pid)
                on_edge = bool(np.isin(z, edges).any())
                case_reqs = []
                for p in range(P):
                    sel = pid == p
                    toks = [f"{ci}.{p}", "bin", "1" if closed == "right" else "0", str(B)] + [fr(e) for e in edges]
                    toks.append(str(int(sel.sum())))
                    for a, b in zip(z[sel], ww[sel]):
                        toks += [fr(a), fr(b)]
                    case_reqs.append(" ".join(toks))
                ck.count(f"closed={closed}")
                ck.count(f"weighted={weighted}")
                ck.count(f"B={B}")
                ck.case({"closed": closed, "edges": edges.tolist(), "z": z.tolist(), "patch": pid.tolist(),
                         "weighted": weighted} if ci < 3 else None,
                        case_reqs[-1] if on_edge and B >= 2 else None)
                rep = {"closed": closed, "edges": edges.tolist(), "z": z.tolist(), "w": ww.tolist(),
                       "patch": pid.tolist(), "weighted": weighted}
                try:
                    observe(case, cat, edges, closed, P, ci)
                except Exception as exc:  # noqa: BLE001
                    empty_patch = any(not np.any(in_binning(z[pid == p], edges, closed)) for p in range(P))
                    ck.add_violation(
                        f"{type(exc).__name__} instead of zeros: {exc}", dict(rep, what="raises"),
                        signature="build-trees-patch-without-object-in-binning" if empty_patch
                        and isinstance(exc, UnboundLocalError) else None)
                    C.remove(root / f"c{ci}")
                    continue
                reqs.extend(case_reqs)
                cases.append(case)
                C.remove(root / f"c{ci}")
                C.remove(root / f"r{ci}")
                C.remove(root / f"u{ci}")
    finally:
        C.remove(root)

    gen = ck.driver("GenBinning", reqs)
    spec = ck.driver("SpecDriver", reqs)
    if spec is None:
        raise Infra("SpecDriver does not build")
    pos = 0
    for case in cases:
        P, B = case["P"], case["B"]
        spec_rows, gen_t, gen_h = [], [], []
        for p in range(P):
            spec_rows.append([Fraction(t) for t in spec[pos].split()])
            if gen is not None:
                toks = gen[pos].split()
                gen_t.append([Fraction(t) for t in toks[1:1 + B]])
                gen_h.append([Fraction(t) for t in toks[2 + B:2 + 2 * B]])
            pos += 1
        rep = {"closed": case["closed"], "edges": case["edges"].tolist(), "z": case["z"].tolist(),
               "w": case["w"].tolist(), "patch": case["pid"].tolist(), "weighted": case["weighted"],
               "history_of_the_cache": case.get("history", "fresh cache")}
        # counts: same membership with unit weights
        for p in range(P):
            sel = case["pid"] == p
            exp_sum = spec_rows[p]
            impl_sum = [to_frac(x) for x in case["trees_sum"][p]]
            if impl_sum != exp_sum:
                ck.add_violation(f"per-bin tree weight sums of patch {p} {[float(x) for x in impl_sum]} differ from the "
                                 f"closed-{case['closed']} rule {[float(x) for x in exp_sum]}", dict(rep, what="trees"))
                break
            if gen is not None and impl_sum != gen_t[p]:
                ck.add_tie_break("trees impl vs generated model", {"case": rep})
            hp = [to_frac(x) for x in case["hist_patch"][p]]
            if hp != exp_sum:
                ck.add_violation(f"redshift histogram of patch {p} {[float(x) for x in hp]} differs from the "
                                 f"closed-{case['closed']} rule {[float(x) for x in exp_sum]}", dict(rep, what="hist"))
                break
            if gen is not None and hp != gen_h[p]:
                ck.add_tie_break("histogram impl vs generated model", {"case": rep})
            # num_records: membership count
            zsel = case["z"][sel]
            e = case["edges"]
            if case["closed"] == "right":
                exp_num = [int(((zsel > e[b]) & (zsel <= e[b + 1])).sum()) for b in range(B)]
            else:
                exp_num = [int(((zsel >= e[b]) & (zsel < e[b + 1])).sum()) for b in range(B)]
            if list(case["trees_num"][p]) != exp_num:
                ck.add_violation(f"per-bin num_records of patch {p} {case['trees_num'][p]} != {exp_num}",
                                 dict(rep, what="trees_num"))
                break
        total = [sum(r[b] for r in spec_rows) for b in range(B)]
        if [to_frac(x) for x in case["hist"]] != total:
            ck.add_violation(f"HistData.from_catalog {case['hist'].tolist()} differs from the closed-side rule "
                             f"{[float(x) for x in total]}", dict(rep, what="histdata"))
        names = [n for n in ("sw1", "sw2", "sw_rd", "sw_dd_cross") if n in case]
        if names:
            exp = [[spec_rows[p][b] for p in range(P)] for b in range(B)]
            for name in names:
                got = [[to_frac(x) for x in row] for row in case[name]]
                if got != exp:
                    ck.add_violation(f"sum_weights stored with the pair counts ({name}) differ from the closed-side rule",
                                     dict(rep, what=name))
                    break
    return ck.finish()
