"""C09 — catalog creation is fail-stop: exact catalog or an exception, never a hang."""
from __future__ import annotations

import concurrent.futures as cf
import hashlib
import json
import os
import signal
import subprocess
import warnings
from pathlib import Path

import numpy as np

import catalogs as C
from core import Check, YAW_SRC

warnings.filterwarnings("ignore")
HERE = Path(__file__).resolve().parent.parent
TIMEOUT = 60

THEOREMS = ["Yaw.C09.init_inv", "Yaw.C09.next_inv", "Yaw.C09.progress", "Yaw.C09.terminates", "Yaw.C09.outcome",
            "Yaw.C09.sequential_agrees", "Yaw.C09.path_rule", "Yaw.C09.flags", "Yaw.C09.glue_pinned"]
RULE = ("every fault kind (NaN / inf in each column, unequal column lengths (one column shorter / longer than the others), missing column, patch index -1 / 32768 / "
        "65536+k, centre without object, no patch method, existing cache without overwrite, missing parent directory, "
        "path is a file, overwrite of a non-catalog directory, reader exception, worker exception, a refused location together with an input fault) x chunk position "
        "(first / middle / last) x worker count (1, 2, 4), plus fault-free controls, each executed in its own "
        "subprocess with a 60 s bound (a timeout is the observable 'hang'); checked: raises iff a fault is present, "
        "never a catalog of other data, pre-existing directory byte-identical unless a catalog cache is overwritten, "
        "no valid catalog left after a raise, sequential and parallel agree. non-trivial: a fault is present in a "
        "multi-chunk input; distinct by (fault, position, workers)")


def tree_hash(path: Path):
    if not path.exists():
        return None
    if path.is_file():
        return hashlib.sha256(path.read_bytes()).hexdigest()
    h = hashlib.sha256()
    for p in sorted(path.rglob("*")):
        h.update(str(p.relative_to(path)).encode())
        if p.is_file():
            h.update(p.read_bytes())
    return h.hexdigest()


def run_spec(spec):
    env = dict(os.environ, YAW_SRC=str(YAW_SRC), PYTHONDONTWRITEBYTECODE="1", OMP_NUM_THREADS="1")
    proc = subprocess.Popen(["/venv/bin/python", str(HERE / "impl" / "create_case.py")], stdin=subprocess.PIPE,
                            stdout=subprocess.PIPE, stderr=subprocess.PIPE, text=True, env=env, start_new_session=True)
    try:
        out, err = proc.communicate(json.dumps(spec), timeout=TIMEOUT)
    except subprocess.TimeoutExpired:
        return {"outcome": "hang"}
    finally:
        try:        # the creation's own children (writer, pool) live in the same session: leave nothing behind
            os.killpg(proc.pid, signal.SIGKILL)
        except (ProcessLookupError, PermissionError):
            pass
        try:
            proc.communicate(timeout=5)
        except Exception:  # noqa: BLE001
            pass

    class p:  # noqa: N801
        stdout, stderr = out, err
    for line in p.stdout.splitlines():
        if line.startswith("RESULT "):
            return json.loads(line[7:])
    return {"outcome": "crashed", "stderr": p.stderr[-500:]}


def can_open(cache):
    from yaw import Catalog
    try:
        with C.Workers(1):
            cat = Catalog(cache)
        return True, sum(cat.get_num_records())
    except Exception:  # noqa: BLE001
        return False, 0


def run(prop, tier, seed, replay):
    ck = Check(prop, tier, seed, kernels=["k_creation", "k_createplan", "k_validation"], theorems=THEOREMS + ["Yaw.C09.id_range_spec", "Yaw.C09.id_bound_is_dtype_max", "Yaw.C09.check_after_cast_accepts_garbage", "Yaw.C09.validation_flags", "Yaw.C18P.steps_spec", "Yaw.C18P.passes_spec", "Yaw.C18P.reader_forwarding", "Yaw.C18P.mode_args", "Yaw.C18P.writer_forwarding", "Yaw.C18P.glue_pinned"], lean_modules=["YawVerif.Props.C09", "YawVerif.Props.C18Plan"], rule=RULE,
               level="proof",
               assumptions=["a creation that does not finish within 60 s for <= 300 records is a hang",
                            "process termination (SIGTERM) of the writer is immediate; the OS delivers pipe / queue data"])
    ck.translate()
    ck.lean_check()
    rng = ck.rng
    root = C.scratch_root()
    specs = []
    chunk = 8
    n = 40                    # 5 chunks
    positions = {"first": 1, "middle": 19, "last": 38}
    nprng = np.random.default_rng(rng.randrange(2 ** 32))
    centres = [[0.1, 0.0], [0.3, 0.1], [0.2, -0.2]]

    def base_cols(with_patch=False):
        cc = np.asarray(centres)[np.arange(n) % 3]
        cols = {"ra": (cc[:, 0] + nprng.uniform(-0.03, 0.03, n)).tolist(),
                "dec": (cc[:, 1] + nprng.uniform(-0.03, 0.03, n)).tolist(),
                "w": nprng.choice([1.0, 2.0], n).tolist(), "z": nprng.uniform(0.1, 1, n).tolist()}
        if with_patch:
            cols["patch"] = (np.arange(n) % 3).tolist()
        return cols

    def add(name, spec, expect, pos="-", pre=None):
        specs.append((name, pos, spec, expect, pre))

    workers_set = [1, 2, 4] if tier == "thorough" else [1, 2, 4]
    for w in workers_set:
        common = dict(workers=w, chunksize=chunk)
        # controls
        add("control-centres", dict(common, columns=base_cols(), centres=centres), "ok")
        add("control-ids", dict(common, columns=base_cols(True), patch_name=True), "ok")
        # fault-free controls from files: "a catalog holding exactly the input" for a Parquet file written in pieces (row groups of
        # unequal size, one larger and several smaller than a chunk) and for an HDF5 file
        add("control-parquet-unequal-row-groups", dict(common, columns=base_cols(), centres=centres, source="parquet",
                                                       row_groups=[17, 3, 11, 9]), "ok")
        add("control-hdf5", dict(common, columns=base_cols(), centres=centres, source="hdf5"), "ok")
        for pname, idx in positions.items():
            for col, val in (("ra", float("nan")), ("dec", float("inf")), ("w", float("nan")), ("z", float("-inf"))):
                if tier == "quick" and (col, pname) not in (("ra", "first"), ("dec", "middle"), ("w", "last"), ("z", "middle")):
                    continue
                cols = base_cols()
                cols[col][idx] = val
                add(f"nonfinite-{col}", dict(common, columns=cols, centres=centres), "raise", pname)
            for bad in (-1, 32768, 65536 + 1):
                if tier == "quick" and (bad, pname) not in ((-1, "first"), (32768, "middle"), (65537, "last")):
                    continue
                cols = base_cols(True)
                cols["patch"][idx] = bad
                add(f"patch-id-{bad}", dict(common, columns=cols, patch_name=True), "raise", pname)
            # a missing value in the patch-index column (the column then arrives as floats; NaN is neither a valid index
            # nor comparable with the limits)
            for bad_f in ((None,) if tier == "quick" else (None, float("inf"))):
                cols = base_cols(True)
                cols["patch"] = [float(v) for v in cols["patch"]]
                cols["patch"][idx] = bad_f
                add(f"patch-id-{'missing' if bad_f is None else bad_f}", dict(common, columns=cols, patch_name=True), "raise", pname)
            add("reader-fault", dict(common, columns=base_cols(), centres=centres,
                                     reader_fault_at={"first": 0, "middle": 2, "last": 4}[pname]), "raise", pname)
        add("worker-fault", dict(common, columns=base_cols(), centres=[[0.1, 0.0], [float("nan"), 0.1], [0.2, -0.2]]), "raise")
        add("missing-column", dict(common, columns=base_cols(), centres=centres, ra_name="right_ascension"), "raise")
        add("unequal-lengths", dict(common, columns=base_cols(), centres=centres, source="hdf5", truncate={"dec": n - 3}), "raise")
        # a LONGER second column while the chunk size divides the length of the first one (no slice runs past its end)
        add("unequal-lengths-longer-dec", dict(common, columns=base_cols(), centres=centres, source="hdf5", extend={"dec": 5}), "raise")
        add("unequal-lengths-longer-w", dict(common, columns=base_cols(), centres=centres, source="hdf5", extend={"w": 8}), "raise")
        add("unequal-lengths-longer-patch", dict(common, columns=base_cols(True), patch_name=True, source="hdf5",
                                                  extend={"patch": 3}), "raise")
        add("empty-centre", dict(common, columns=base_cols(), centres=centres + [[3.0, 1.0]]), "raise")
        # very many centres without an object: whatever the library has to say about them must still reach the caller
        # (error objects travel through a pipe of limited capacity in parallel mode)
        many = [[3.0 + 0.0001 * k, 1.0] for k in range(20000)]
        add("many-empty-centres", dict(common, columns=base_cols(), centres=centres + many), "raise")
        add("no-patch-method", dict(common, columns=base_cols()), "raise")
        add("exists-no-overwrite", dict(common, columns=base_cols(), centres=centres, overwrite=False), "raise", pre="catalog")
        add("exists-overwrite-catalog", dict(common, columns=base_cols(), centres=centres, overwrite=True), "ok", pre="catalog")
        add("exists-overwrite-other-dir", dict(common, columns=base_cols(), centres=centres, overwrite=True), "raise", pre="dir")
        # directories that are NOT catalog caches but carry names a careless "is this one of ours?" test could fall for
        add("exists-overwrite-dir-with-patch-named-files", dict(common, columns=base_cols(), centres=centres, overwrite=True),
            "raise", pre="dir-patchfiles")
        add("exists-overwrite-dir-with-patch-named-subdir", dict(common, columns=base_cols(), centres=centres, overwrite=True),
            "raise", pre="dir-patchdir")
        add("exists-overwrite-file", dict(common, columns=base_cols(), centres=centres, overwrite=True), "raise", pre="file")
        add("missing-parent", dict(common, columns=base_cols(), centres=centres), "raise", pre="noparent")
        # TWO faults at once: a location that is refused AND an input that fails in some chunk — whichever is noticed first,
        # the pre-existing cache / directory stays as it was (clean-up after the input fault must not touch what the
        # writer was never allowed to own)
        for pname, idx in positions.items():
            cols = base_cols()
            cols["ra"][idx] = float("nan")
            add("exists-no-overwrite+nonfinite-ra", dict(common, columns=cols, centres=centres, overwrite=False), "raise", pname,
                pre="catalog")
            add("overwrite-other-dir+reader-fault", dict(common, columns=base_cols(), centres=centres, overwrite=True,
                                                        reader_fault_at={"first": 0, "middle": 2, "last": 4}[pname]),
                "raise", pname, pre="dir")

    # prepare pre-existing states, run all specs in parallel subprocesses
    jobs = []
    try:
        for i, (name, pos, spec, expect, pre) in enumerate(specs):
            cache = root / f"case{i}" / "cache"
            cache.parent.mkdir(parents=True)
            spec["cache"] = str(cache)
            spec["input_path"] = str(root / f"case{i}" / "input.hdf5")
            before = None
            if pre == "catalog":
                with C.Workers(1):
                    C.make_catalog(cache, nprng.uniform(0, 1, 12), nprng.uniform(0, 1, 12), patch=np.arange(12) % 2)
            elif pre == "dir":
                (cache / "sub").mkdir(parents=True)
                (cache / "sub" / "precious.txt").write_text("user data")
            elif pre == "dir-patchfiles":
                (cache / "results").mkdir(parents=True)
                (cache / "patch_notes.txt").write_text("which patches to mask")
                (cache / "patch_centers.txt").write_text("0.1 0.2")
                (cache / "results" / "run1.dat").write_text("user data")
            elif pre == "dir-patchdir":
                (cache / "patch_7").mkdir(parents=True)
                (cache / "patch_7" / "thesis.tex").write_text("user data")
                (cache / "patch_old").mkdir()
                (cache / "patch_old" / "meta.yml").write_text("mine: true")
            elif pre == "file":
                cache.write_text("a file")
            elif pre == "noparent":
                spec["cache"] = str(cache / "missing" / "cache")
            before = tree_hash(cache)
            jobs.append((name, pos, spec, expect, pre, before))
        with cf.ThreadPoolExecutor(max_workers=8) as ex:
            results = list(ex.map(lambda j: run_spec(j[2]), jobs))
        for (name, pos, spec, expect, pre, before), res in zip(jobs, results):
            w = spec["workers"]
            cache = Path(spec["cache"])
            ck.count(f"fault={name}")
            ck.count(f"workers={w}")
            ck.count(f"outcome={res['outcome']}")
            fault = expect == "raise"
            ck.case({"fault": name, "position": pos, "workers": w, "outcome": res} if len(ck.samples) < 4 else None,
                    (name, pos, w) if fault else None)
            rep = {"fault": name, "position": pos, "workers": w,
                   "spec": {k: v for k, v in spec.items() if k not in ("cache", "input_path")}, "pre": pre}
            if res["outcome"] == "hang":
                ck.add_violation(f"creation with fault '{name}' ({pos} chunk, {w} worker(s)) did not terminate within "
                                 f"{TIMEOUT} s", rep)
                continue
            if res["outcome"] == "crashed":
                ck.add_violation(f"creation with fault '{name}' crashed the interpreter: {res.get('stderr', '')[-200:]}", rep)
                continue
            if fault and res["outcome"] == "ok":
                gone = " and the user's files in that directory are gone" if (pre or "").startswith("dir") and tree_hash(cache) != before else ""
                ck.add_violation(f"creation with fault '{name}' ({pos} chunk, {w} worker(s)) returned a catalog instead of "
                                 f"raising{gone}", rep)
                continue
            if not fault and res["outcome"] != "ok":
                ck.add_violation(f"fault-free creation ({name}, {w} worker(s)) raised {res.get('exc')}: {res.get('msg')}", rep)
                continue
            if not fault:
                want = sorted(spec["columns"]["ra"])
                got = sorted(x for p in res["ra"] for x in p)
                if got != want:
                    ck.add_violation(f"creation ({name}, {w} worker(s)) returned a catalog of other data", rep)
                continue
            # fault present and it raised: what is left on disk?
            if pre in ("catalog", "dir", "file", "dir-patchfiles", "dir-patchdir"):
                if tree_hash(cache) != before:
                    ck.add_violation(f"'{name}': the pre-existing {'cache' if pre == 'catalog' else pre} was modified although "
                                     "creation raised", rep)
            elif pre != "noparent":
                ok, nrec = can_open(cache)
                if ok:
                    ck.add_violation(f"failed creation ('{name}', {pos} chunk, {w} worker(s)) left a directory that opens as a "
                                     f"valid catalog with {nrec} records", rep)
    finally:
        C.remove(root)
    return ck.finish()
