"""C04 — estimators and the n(z) formula are applied as documented."""
from __future__ import annotations

import math
import warnings
from decimal import Decimal, getcontext
from fractions import Fraction

import numpy as np

import gen_containers as G
from c03 import cmp_ulp, flat_vals
from core import Check, Infra, fr, to_frac, ulp_close

np.seterr(all="ignore")
warnings.filterwarnings("ignore")
getcontext().prec = 60

THEOREMS = [
    "Yaw.C04.ls_eq", "Yaw.C04.ls_missing_rd", "Yaw.C04.dp_dr", "Yaw.C04.dp_rd", "Yaw.C04.dp_none",
    "Yaw.C04.choose_table", "Yaw.C04.norm_cross", "Yaw.C04.norm_auto",
    "Yaw.C04.term_normalisation_cross", "Yaw.C04.term_normalisation_auto",
    "Yaw.C04.nz_formula", "Yaw.C04.nz_same_for_samples", "Yaw.C04.nz_absent_is_one",
    "Yaw.C04.nz_no_autocorr", "Yaw.C04.nz_rat_pieces", "Yaw.C04.nz_glue_pinned",
    "Yaw.C04.hist_normalised_integral", "Yaw.C04.nz_normalised_integral",
]
KERNELS = ["k_jackknife", "k_weights", "k_normalise", "k_estimators", "k_nz"]
RULE = ("all 8 subsets of {dr,rd,rr} x auto/cross x random counts (CorrFunc construction + sample, incl. the "
        "subsets that must raise); RedshiftData.from_corrfuncs with all 4 combinations of optional "
        "autocorrelations; HistData/RedshiftData.normalised incl. NaN entries and negative amplitudes. ULP(16) on the magnitude of the "
        "terms entering each quotient. non-trivial: N >= 2 patches and >= 2 distinct non-zero dd counts")


def dec(q: Fraction) -> Decimal:
    return Decimal(q.numerator) / Decimal(q.denominator)


def expect_nz(num: Fraction, rad: Fraction):
    """num / sqrt(rad) as a 60-digit Decimal, or 'nan' when numpy yields a non-finite value"""
    if rad <= 0:
        return "nan"
    return dec(num) / dec(rad).sqrt()


def close_dec(x: float, d: Decimal, k: int) -> bool:
    if not math.isfinite(x):
        return False
    xd = Decimal(x)
    tol = Decimal(k) * Decimal(2) ** -52 * max(abs(d), Decimal(10) ** -300)
    return abs(xd - d) <= tol


def pipeline_stratum(ck, rng, n_cases):
    import catalogs as C
    import oracle as O
    import yaw
    from yaw import AngularCoordinates, Configuration
    root = C.scratch_root()
    edges = [0.1, 0.4, 0.7, 1.0]
    cents = np.array([[0.2, 0.0], [1.0, 0.3], [2.0, -0.4], [3.0, 0.5]])
    try:
        with C.Workers(1):
            for ci in range(n_cases):
                nprng = np.random.default_rng(rng.randrange(2 ** 31))
                P = 3 + ci % 2

                def sample(n_per, zbins_of_patch, weighted):
                    ra, dec, z, pid = [], [], [], []
                    for p in range(P):
                        k = n_per
                        ra += list(cents[p, 0] + nprng.uniform(-0.02, 0.02, k))
                        dec += list(cents[p, 1] + nprng.uniform(-0.02, 0.02, k))
                        bins = zbins_of_patch(p)
                        lo = np.array([edges[b] for b in nprng.choice(bins, k)])
                        z += list(lo + nprng.uniform(0.01, 0.29, k))
                        pid += [p] * k
                    w = nprng.choice([1.0, 2.0, 3.0], len(ra)) if weighted else None
                    return dict(ra=np.array(ra), dec=np.array(dec), z=np.array(z), w=w, patch=np.array(pid))
                # the reference sample lacks the top bin in patch 0 and the bottom bin in patch 1
                sparse = lambda p: [0, 1] if p == 0 else ([1, 2] if p == 1 else [0, 1, 2])      # noqa: E731
                dense = lambda p: [0, 1, 2]                                                        # noqa: E731
                smp = {"ref": sample(14, sparse, True), "unk": sample(25, dense, ci % 2 == 0),
                       "rref": sample(30, dense, False), "runk": sample(30, dense, False)}
                cen = AngularCoordinates(cents[:P])
                try:
                    cats = {k: C.make_catalog(root / f"p{ci}_{k}", v["ra"], v["dec"], z=v["z"], w=v["w"], centers=cen)
                            for k, v in smp.items()}
                except ValueError:
                    continue
                conf = Configuration.create(rmin=0.002, rmax=0.03, unit="rad", edges=edges, closed="left")
                data = {k: O.CatData(v["ra"], v["dec"], v["patch"], z=v["z"], w=v["w"]) for k, v in smp.items()}

                def term(a, b, binned2):
                    counts, sw1, sw2, margin = O.pair_counts(data[a], None if b is None else data[b], num_patches=P,
                                                             edges=np.array(edges), closed="left", rmin=0.002, rmax=0.03,
                                                             unit="rad", cosmology=None, binned2=binned2)
                    tot = counts[0].sum(axis=(1, 2))
                    if b is None:
                        wtot = 0.5 * sw1.sum(axis=1) ** 2
                    else:
                        wtot = sw1.sum(axis=1) * sw2.sum(axis=1)
                    return tot / wtot, margin
                runs = [("cross dd|dr|rd|rr", lambda: yaw.crosscorrelate(conf, cats["ref"], cats["unk"], ref_rand=cats["rref"],
                                                                        unk_rand=cats["runk"])[0],
                         {"dd": ("ref", "unk", False), "dr": ("ref", "runk", False), "rd": ("rref", "unk", False),
                          "rr": ("rref", "runk", False)}),
                        ("cross dd|rd", lambda: yaw.crosscorrelate(conf, cats["ref"], cats["unk"], ref_rand=cats["rref"])[0],
                         {"dd": ("ref", "unk", False), "rd": ("rref", "unk", False)}),
                        ("auto dd|dr|rr", lambda: yaw.autocorrelate(conf, cats["ref"], cats["rref"], count_rr=True)[0],
                         {"dd": ("ref", None, True), "dr": ("ref", "rref", True), "rr": ("rref", None, True)})]
                for label, fn, terms in runs:
                    rep = {"kind": "pipeline", "measurement": label, "patches": P,
                           "samples": {k: {a: (None if x is None else np.asarray(x).tolist()) for a, x in v.items()}
                                       for k, v in smp.items()}}
                    ck.count("pipeline:" + label)
                    ck.case(None, ("pipeline", ci, label))
                    try:
                        got = fn().sample().data
                    except Exception as e:  # noqa: BLE001
                        ck.add_violation(f"{label} on catalogs sharing their centres raised {type(e).__name__}: {e}", rep)
                        continue
                    vals, bad_margin = {}, False
                    for k, (a, b, binned2) in terms.items():
                        vals[k], margin = term(a, b, binned2)
                        bad_margin = bad_margin or margin < 1e-9
                    if bad_margin:
                        continue
                    if "rr" in vals:
                        want = (vals["dd"] - vals["dr" if "dr" in vals else "rd"] - vals.get("rd", vals.get("dr")) + vals["rr"]) / vals["rr"]
                    else:
                        mixed = vals["rd"] if "rd" in vals else vals["dr"]
                        want = vals["dd"] / mixed - 1.0
                    okmask = np.isfinite(want)
                    if not np.allclose(got[okmask], want[okmask], rtol=1e-9, atol=1e-12) or \
                            not np.array_equal(np.isfinite(got), okmask):
                        ck.add_violation(f"{label}: the sampled correlation function {got.tolist()} is not the documented "
                                         f"estimator of the total pair counts over the products of the samples' total weights "
                                         f"{want.tolist()} (reference sample without objects in some (patch, bin) cells)", rep)
                for k in cats:
                    C.remove(root / f"p{ci}_{k}")
    finally:
        C.remove(root)


def run(prop, tier, seed, replay):
    from yaw.correlation.corrdata import CorrData
    from yaw.correlation.corrfunc import CorrFunc
    from yaw.redshifts import HistData, RedshiftData

    ck = Check(prop, tier, seed, kernels=KERNELS + ["k_glue", "k_ctors"], theorems=THEOREMS + ["Yaw.Glue.glue_flags", "Yaw.C17Ctor.corrfunc_algebra_flags"],
               lean_modules=["YawVerif.Props.C04", "YawVerif.Props.Glue", "YawVerif.Props.C17Ctor"], rule=RULE,
               assumptions=["numpy elementwise +,-,*,/ and sqrt are correctly rounded",
                            "np.nansum skips NaN entries"])
    ck.translate()
    ck.lean_check()
    rng = ck.rng
    n_cases = 64 if tier == "quick" else 640
    if ck.tie_breaks:
        n_cases *= 3

    # ---- estimator table ----------------------------------------------------------------
    reqs, cases = [], []
    for ci in range(n_cases):
        case = G.rand_corrfunc_parts(rng, mask=ci % 8, auto=(ci // 8) % 2 == 0)
        reqs.append(G.enc_cf(str(ci), case))
        cases.append(case)
    # stratum: the normalisation of a REAL measurement — total pair counts over the product of the samples' total weights,
    # with a sparse reference sample whose outer redshift bins are populated in some patches only (DESIGN 9, C04_m8)
    pipeline_stratum(ck, rng, 2 if tier == "quick" else 10)

    # stratum: no hidden state — measurements that come and go, containers changed between two samplings
    import strata_state
    strata_state.run_stratum(ck, rng, 12 if tier == "quick" else 60)

    gen = ck.driver("GenResample", reqs)
    spec = ck.driver("SpecDriver", reqs)
    if spec is None:
        raise Infra("SpecDriver does not build")
    good = []
    for ci, case in enumerate(cases):
        parts, N, B = case["parts"], case["N"], case["B"]
        s = flat_vals(spec[ci])
        g = flat_vals(gen[ci]) if gen is not None else None
        ck.count(f"mask={case['mask']}")
        ck.count("auto" if case["auto"] else "cross")
        nontriv = reqs[ci] if N >= 2 and len(set(parts["dd"].counts.counts.ravel()) - {0.0}) >= 2 else None
        ck.case(G.describe(case) if ci < 3 else None, nontriv)
        try:
            cf = CorrFunc(parts["dd"], parts.get("dr"), parts.get("rd"), parts.get("rr"))
            cd = cf.sample()
            impl_raise = None
        except Exception as e:  # noqa: BLE001
            impl_raise = type(e).__name__
        model_raise = "raise" in s
        if impl_raise or model_raise:
            ck.count(f"raise:{impl_raise}")
            if bool(impl_raise) != model_raise:
                ck.add_violation(
                    f"estimator availability: impl raised {impl_raise}, documented table says raise={model_raise} "
                    f"for mask dr/rd/rr={case['mask']:03b}", {"kind": "cf", "request": reqs[ci]})
            if g is not None and ("raise" in g) != bool(impl_raise):
                ck.add_tie_break("cf raise impl vs generated model", {"request": reqs[ci]})
            continue
        impl, scales = [], []
        terms = {k: v.sample_patch_sum() for k, v in parts.items()}
        for b in range(B):
            for row in [None, *range(N)]:
                impl.append(cd.data[b] if row is None else cd.samples[row, b])
                tv = {k: (t.data[b] if row is None else t.samples[row, b]) for k, t in terms.items()}
                den = tv.get("rr", tv.get("rd", tv.get("dr")))
                sc = sum(abs(to_frac(v)) for v in tv.values() if math.isfinite(v))
                scales.append(sc / abs(to_frac(den)) if math.isfinite(den) and den != 0 else Fraction(1))
        d_spec = cmp_ulp(impl, s, 16, scales)
        if d_spec:
            ck.add_violation(f"CorrFunc.sample is not the documented estimator: {d_spec}",
                             {"kind": "cf", "request": reqs[ci], "impl": [float(x) for x in impl]})
        else:
            if g is not None:
                d = cmp_ulp(impl, g, 16, scales)
                if d:
                    ck.add_tie_break("cf impl vs generated model", {"diff": d, "request": reqs[ci]})
            good.append((case, cf, cd))
            # the same estimator for containers DERIVED from a measurement (every bin / patch selected, scaled by 1): which terms
            # are present — hence which estimator applies — must survive the derivation
            for how, derive in (("bins[:]", lambda x: x.bins[0:B]), ("patches[:]", lambda x: x.patches[0:N]), ("* 1.0", lambda x: x * 1.0),
                                ("first bin", lambda x: x.bins[0])):
                try:
                    cd2 = derive(cf).sample()
                except Exception as e:  # noqa: BLE001
                    ck.add_violation(f"sample() of a CorrFunc derived by {how} raised {type(e).__name__}: {e}", {"kind": "cf", "request": reqs[ci]})
                    break
                ref_d, ref_s = (cd.data[:1], cd.samples[:, :1]) if how == "first bin" else (cd.data, cd.samples)
                if not (np.array_equal(cd2.data, ref_d, equal_nan=True) and np.array_equal(cd2.samples, ref_s, equal_nan=True)):
                    ck.add_violation(f"sample() of a CorrFunc with the members {sorted(cf.to_dict())} derived by {how} differs from the "
                                     f"estimate of the measurement itself (members after the derivation: {sorted(derive(cf).to_dict())})",
                                     {"kind": "cf", "request": reqs[ci], "derived_by": how})
                    break

    # ---- n(z) formula ----------------------------------------------------------------------
    nz_reqs, nz_cases = [], []
    for i in range(n_cases // 2):
        B = rng.choice([1, 2, 3, 5])
        M = rng.choice([1, 2, 4, 6])
        binning = G.rand_binning(rng, B)

        def rnd_cd(pos, neg_col=None):
            vals = []
            for _ in range((M + 1) * B):
                v = rng.choice([0.5, 1.0, 2.0, 0.25, rng.uniform(0.01, 3.0)])
                if not pos and rng.random() < 0.3:
                    v = -v
                if rng.random() < 0.03:
                    v = 0.0 if pos else v
                vals.append(v)
            a = np.array(vals).reshape(M + 1, B)
            if neg_col is not None:
                a[:, neg_col] = -np.abs(a[:, neg_col]) - 0.125
            return CorrData(binning, a[0], a[1:])
        has_ref, has_unk = bool(i & 1), bool(i & 2)
        cross = rnd_cd(False)
        # stratum: a bin in which BOTH autocorrelation amplitudes are negative (value and every sample): their
        # product under the square root is positive, the estimate is finite
        both_neg = rng.randrange(B) if (has_ref and has_unk and (i // 4) % 2 == 0) else None
        ref = rnd_cd(rng.random() < 0.9, both_neg) if has_ref else None
        unk = rnd_cd(rng.random() < 0.9, both_neg) if has_unk else None
        toks = [f"nz{i}", "nz", str(B), str(M), str(int(has_ref)), str(int(has_unk))]
        toks += [fr(x) for x in binning.dz]
        for c in (cross, ref, unk):
            if c is not None:
                toks += [fr(x) for x in c.data] + [fr(x) for x in c.samples.ravel()]
        nz_reqs.append(" ".join(toks))
        nz_cases.append((cross, ref, unk, B, M))
    gnz = ck.driver("GenResample", nz_reqs)
    snz = ck.driver("SpecDriver", nz_reqs)
    for i, (cross, ref, unk, B, M) in enumerate(nz_cases):
        # the same autocorrelation data serve several estimates (one reference sample, many unknown bins): the estimate
        # compared with the model is the SECOND one computed from these operands, and the operands must be left as they were
        before = [None if c is None else (c.data.copy(), c.samples.copy()) for c in (cross, ref, unk)]
        RedshiftData.from_corrdata(cross, ref, unk)
        rd = RedshiftData.from_corrdata(cross, ref, unk)
        changed = [nm for nm, c, b0 in zip(("cross", "ref", "unk"), (cross, ref, unk), before) if c is not None
                   and not (np.array_equal(c.data, b0[0], equal_nan=True) and np.array_equal(c.samples, b0[1], equal_nan=True))]
        if changed:
            ck.add_violation(f"RedshiftData.from_corrdata changes its operands in place ({', '.join(changed)}): a second estimate "
                             "from the same autocorrelation data differs from the first", {"kind": "nz", "request": nz_reqs[i]})
            continue
        impl = [*rd.data, *rd.samples.ravel()]
        ck.count(f"nz ref={ref is not None} unk={unk is not None}")
        ck.case({"kind": "nz", "request": nz_reqs[i][:200]} if i < 2 else None, nz_reqs[i])
        for side, ans in (("spec", snz[i]), ("gen", gnz[i] if gnz is not None else None)):
            if ans is None:
                continue
            vals = [Fraction(t) for t in ans.split()]
            bad = None
            for j, x in enumerate(impl):
                e = expect_nz(vals[2 * j], vals[2 * j + 1])
                if e == "nan":
                    if math.isfinite(x):
                        bad = f"[{j}] impl {x} expected non-finite"
                elif not close_dec(x, e, 16):
                    bad = f"[{j}] impl {x!r} expected {e}"
                if bad:
                    break
            if bad and side == "spec":
                ck.add_violation(f"n(z) is not w_sp / sqrt(dz^2 w_ss w_pp): {bad}",
                                 {"kind": "nz", "request": nz_reqs[i], "impl": [float(x) for x in impl]})
                break
            if bad:
                ck.add_tie_break("nz impl vs generated model", {"diff": bad, "request": nz_reqs[i]})

    # ---- from_corrfuncs = from_corrdata(sample(), ...) -------------------------------------
    for gi, (case, cf, cd) in enumerate(good[:20]):
        a = RedshiftData.from_corrfuncs(cf)
        b = RedshiftData.from_corrdata(cd)
        ck.case(None, None)
        if not (a == b):
            ck.add_violation("from_corrfuncs differs from from_corrdata(sample())", {"kind": "cf", "request": "n/a"})
        # with reference and / or unknown autocorrelation (here: the same measurement in the other roles): each one is
        # sampled and lands in its own slot of from_corrdata
        for use_ref, use_unk in ((True, False), (False, True), (True, True)):
            a2 = RedshiftData.from_corrfuncs(cf, cf if use_ref else None, cf if use_unk else None)
            b2 = RedshiftData.from_corrdata(cd, cd if use_ref else None, cd if use_unk else None)
            ck.count(f"from_corrfuncs ref={use_ref} unk={use_unk}")
            if not (a2 == b2):
                ck.add_violation(f"from_corrfuncs(cross, ref={use_ref}, unk={use_unk}) differs from from_corrdata of the sampled "
                                 "correlation functions", {"kind": "cf", "request": "n/a"})
                break

    # ---- normalisation ------------------------------------------------------------------------
    hn_reqs, hn_cases = [], []
    for i in range(n_cases // 2):
        B = rng.choice([1, 2, 3, 6])
        M = rng.choice([1, 3, 5])
        binning = G.rand_binning(rng, B)
        vals = np.array([float(rng.choice([0, 1, 2, 5, 10, rng.randrange(0, 500)])) for _ in range((M + 1) * B)])
        a = vals.reshape(M + 1, B)
        if a[0].sum() == 0:
            a[0, 0] = 3.0
        with_nan = rng.random() < 0.3 and B >= 2
        if with_nan:
            a[0, rng.randrange(B)] = float("nan")
            if np.nansum(a[0]) == 0:           # the raw integral must be non-zero for the property to apply
                a[0, int(np.argmax(np.isfinite(a[0])))] = 2.0
        cls = HistData if i % 2 == 0 else RedshiftData
        if cls is RedshiftData and i % 4 == 1 and B >= 2:
            # noisy estimates have negative bins: they take part in the integral like any other bin
            k = rng.randrange(B)
            a[:, k] = -np.abs(a[:, k]) - 1.0
            if np.nansum(a[0] * binning.dz) == 0:
                a[0, (k + 1) % B] += 7.0
        obj = cls(binning, a[0].copy(), a[1:].copy())
        hn_cases.append((obj, with_nan))
        if cls is HistData and not with_nan:
            hn_reqs.append(f"hn{i} histnorm {B} {M} {fr(binning.edges.min())} {fr(binning.edges.max())} "
                           + " ".join(fr(x) for x in binning.dz) + " " + " ".join(fr(x) for x in a.ravel()))
        else:
            hn_reqs.append(None)
    live = [r for r in hn_reqs if r is not None]
    ghn = ck.driver("GenResample", live)
    ghn_iter = iter(ghn) if ghn is not None else None
    for i, (obj, with_nan) in enumerate(hn_cases):
        out = obj.normalised()
        dz = obj.binning.dz
        ck.count(f"norm {type(obj).__name__} nan={with_nan}")
        ck.case({"kind": "normalised", "cls": type(obj).__name__, "data": obj.data.tolist()} if i < 2 else None,
                f"norm{i}:{obj.data.tolist()}")
        fin = np.isfinite(out.data)
        integral = sum(to_frac(z) * to_frac(y) for z, y, f in zip(dz, out.data, fin) if f)
        terms = np.asarray(dz) * obj.data
        cond = float(np.nansum(np.abs(terms)) / abs(np.nansum(terms))) if np.nansum(terms) != 0 else 1.0
        cond = min(max(cond, 1.0), 1e6)         # cancellation between positive and negative bins amplifies rounding
        if not fin.any() or abs(integral - 1) > Fraction(64 * len(dz), 2 ** 52) * Fraction(cond):
            ck.add_violation(f"integral of normalised {type(obj).__name__} is {float(integral)} != 1",
                             {"kind": "normalised", "cls": type(obj).__name__, "data": obj.data.tolist(),
                              "edges": obj.binning.edges.tolist()})
        # samples scaled by the same factor as the data
        j = int(np.argmax(fin & (obj.data != 0)))
        if obj.data[j] != 0 and np.isfinite(obj.data[j]):
            f = out.data[j] / obj.data[j]
            # HistData applies a per-bin width correction; compare per bin instead
            ratio_d = out.data / obj.data
            with np.errstate(all="ignore"):
                ratio_s = out.samples / obj.samples
            ok = np.all(~np.isfinite(ratio_s) | np.isclose(ratio_s, ratio_d[None, :], rtol=1e-13, atol=0) | ~np.isfinite(ratio_d[None, :]))
            if not ok:
                ck.add_violation("normalisation scales samples differently from the data",
                                 {"kind": "normalised", "cls": type(obj).__name__, "data": obj.data.tolist()})
        if hn_reqs[i] is not None and ghn_iter is not None:
            ans = next(ghn_iter)
            if ans == "nan":
                continue
            body, _, integ = ans.partition(" integral ")
            vals = flat_vals(body)
            impl = [*out.data, *out.samples.ravel()]
            d = cmp_ulp(impl, vals, 32, None)
            if d:
                ck.add_tie_break("HistData.normalised impl vs generated model", {"diff": d, "request": hn_reqs[i]})
            if Fraction(integ) != 1:
                ck.add_tie_break("generated HistData.normalised does not integrate to 1", {"request": hn_reqs[i]})
    return ck.finish()
