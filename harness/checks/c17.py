"""C17 — container algebra and indexing."""
from __future__ import annotations

import warnings
from fractions import Fraction

import numpy as np

import gen_containers as G
from core import Check, Infra, fr, to_frac

np.seterr(all="ignore")
warnings.filterwarnings("ignore")

THEOREMS = [
    "Yaw.C17.add_counts", "Yaw.C17.add_requires_compat", "Yaw.C17.closed_side_matters", "Yaw.C17.mul_counts",
    "Yaw.C17.nc_scale", "Yaw.C17.sample_mul_invariant_ls", "Yaw.C17.sample_mul_invariant_dp",
    "Yaw.C17.eq_refl", "Yaw.C17.eq_symm", "Yaw.C17.normIdx_spec", "Yaw.C17.sliceRange_bounds",
    "Yaw.C17.bins_slice", "Yaw.C17.bins_int_eq_slice", "Yaw.C17.bins_int_rejects", "Yaw.C17.patches_slice",
    "Yaw.C17.slice_commutes_sum", "Yaw.C17.patch_slice_sum", "Yaw.C17.iter_bins",
    "Yaw.C17.bins_sel", "Yaw.C17.bins_sel_empty", "Yaw.C17.sliceSel_step_one",
    "Yaw.C17Ctor.counts_ctor_spec", "Yaw.C17Ctor.sumweights_ctor_spec", "Yaw.C17Ctor.sampled_ctor_spec",
    "Yaw.C17Ctor.normalised_ctor_spec", "Yaw.C17Ctor.corrfunc_ctor_spec", "Yaw.C17Ctor.drain_from",
    "Yaw.C17Ctor.iteration_complete", "Yaw.C17Ctor.indexer_flags", "Yaw.C17Ctor.cf_add_symmetric", "Yaw.C17Ctor.corrfunc_algebra_flags",
]
RULE = ("random containers (B 1..5, N 1..6, auto/cross, members dd + random subset of dr/rd/rr) x operation drawn "
        "from {mul by scalar, add (compatible / other edges / other closed side / other patch number), bins[int], "
        "bins[slice], patches[int], patches[slice], iteration over bins and patches, ==, CorrData +,-,bins} applied "
        "to CorrFunc, NormalisedCounts, PatchedCounts, PatchedSumWeights and CorrData; result arrays compared "
        "EXACTLY with the Lean container model, error vs raise, plus commutation with sample_patch_sum/sample(). "
        "non-trivial: N >= 2, B >= 2; distinct by (request, class)")


def enc_container(nc) -> str:
    b = nc.binning
    B, N = nc.num_bins, nc.num_patches
    toks = [str(B), str(N), "1" if nc.auto else "0", "1" if str(b.closed) == "left" else "0"]
    toks += [fr(x) for x in b.edges]
    toks += [fr(x) for x in nc.counts.counts.ravel()]
    toks += [fr(x) for x in nc.sum_weights.sum_weights1.ravel()]
    toks += [fr(x) for x in nc.sum_weights.sum_weights2.ravel()]
    return " ".join(toks)


def dec_container(ans: str):
    if ans == "raise":
        return None
    t = ans.split()
    B, N = int(t[0]), int(t[1])
    pos = 4
    edges = [Fraction(x) for x in t[pos:pos + B + 1]]
    pos += B + 1
    counts = [Fraction(x) for x in t[pos:pos + B * N * N]]
    pos += B * N * N
    w1 = [Fraction(x) for x in t[pos:pos + B * N]]
    pos += B * N
    w2 = [Fraction(x) for x in t[pos:pos + B * N]]
    return dict(B=B, N=N, auto=t[2] == "1", closed="left" if t[3] == "1" else "right", edges=edges,
                counts=counts, w1=w1, w2=w2)


def same(arr, fracs) -> bool:
    a = np.asarray(arr, dtype=float).ravel()
    return len(a) == len(fracs) and all(np.isfinite(x) and to_frac(x) == f for x, f in zip(a, fracs))


def cmp_nc(nc, m, what="nc"):
    """real NormalisedCounts / PatchedCounts / PatchedSumWeights vs model dict"""
    from yaw.correlation.paircounts import NormalisedCounts, PatchedCounts, PatchedSumWeights
    errs = []
    if nc.num_bins != m["B"] or nc.num_patches != m["N"]:
        return f"{what}: shape ({nc.num_bins},{nc.num_patches}) vs model ({m['B']},{m['N']})"
    if not same(nc.binning.edges, m["edges"]) or str(nc.binning.closed) != m["closed"]:
        errs.append("binning")
    if isinstance(nc, NormalisedCounts):
        c, w = nc.counts, nc.sum_weights
    elif isinstance(nc, PatchedCounts):
        c, w = nc, None
    elif isinstance(nc, PatchedSumWeights):
        c, w = None, nc
    if c is not None and (c.counts.shape != (m["B"], m["N"], m["N"]) or not same(c.counts, m["counts"])):
        errs.append("counts")
    if w is not None and (not same(w.sum_weights1, m["w1"]) or not same(w.sum_weights2, m["w2"])):
        errs.append("sum_weights")
    if bool(nc.auto) != m["auto"]:
        errs.append("auto")
    return f"{what}: {','.join(errs)} differ" if errs else None


def pyidx(kind, a, b):
    if kind == "int":
        return a
    if isinstance(kind, tuple):
        return slice(a, b, kind[1])
    return slice(a, b)


def run(prop, tier, seed, replay):
    from yaw.binning import Binning
    from yaw.correlation.corrfunc import CorrFunc

    ck = Check(prop, tier, seed, kernels=["k_jackknife", "k_weights", "k_normalise", "k_estimators", "k_algebra", "k_ctors"],
               theorems=THEOREMS + ["Yaw.C17.eq_fields", "Yaw.C17.class_methods", "Yaw.C17.algebra_flags", "Yaw.C17.glue_pinned"],
               lean_modules=["YawVerif.Props.C17", "YawVerif.Props.C17Ctor"], rule=RULE,
               assumptions=["numpy basic/advanced indexing and broadcasting as documented"])
    ck.translate()
    ck.lean_check()
    rng = ck.rng
    n_cases = 120 if tier == "quick" else 1500
    reqs, todo = [], []

    def pick_index(n):
        if rng.random() < 0.5:
            return ("int", rng.choice([0, n - 1, -1, -n, n, -n - 1, rng.randrange(-n - 1, n + 2)]), None)
        cands = [None, 0, 1, n - 1, n, n + 2, -1, -n, -n - 2, rng.randrange(-n - 1, n + 2)]
        if rng.random() < 0.35:
            return (("step", rng.choice([2, 2, 3])), rng.choice([None, None, 0, 1, -n]), rng.choice([None, None, n, -1]))
        return ("slice", rng.choice(cands), rng.choice(cands))

    # ---- stratum: operators are pure — no operand is changed by +, *, +=, sum() or a running total, and accumulating
    #      the same list twice gives the same total (adding containers adds their counts, nothing else) ------------------
    def snapshot(x):
        if hasattr(x, "counts") and hasattr(x, "sum_weights"):          # NormalisedCounts
            return (x.counts.counts.copy(), x.sum_weights.sum_weights1.copy(), x.sum_weights.sum_weights2.copy())
        if hasattr(x, "counts"):
            return (x.counts.copy(),)
        return tuple(snapshot(m) for m in (x.dd, x.dr, x.rd, x.rr) if m is not None)

    def same(a, b):
        return len(a) == len(b) and all(same(u, v) if isinstance(u, tuple) else np.array_equal(u, v) for u, v in zip(a, b))

    for pi in range(6 if tier == "quick" else 40):
        auto = pi % 2 == 0
        N, B = rng.choice([2, 3]), rng.choice([1, 2])
        base = G.rand_corrfunc_parts(rng, N=N, B=B, auto=auto, mask=5)
        binning = base["binning"]
        w1 = base["parts"]["dd"].sum_weights.sum_weights1
        w2 = base["parts"]["dd"].sum_weights.sum_weights2
        level = ["counts", "normalised", "corrfunc"][pi % 3]

        def fresh_list():
            out = []
            for _ in range(3):
                nc = G.make_nc(binning, G.rand_counts(rng, B, N, auto, 0.2), w1, w2, auto)
                if level == "counts":
                    out.append(nc.counts)
                elif level == "normalised":
                    out.append(nc)
                else:
                    out.append(CorrFunc(nc, G.make_nc(binning, G.rand_counts(rng, B, N, False, 0.2), w1, w2, False)))
            return out
        items = fresh_list()
        before = [snapshot(x) for x in items]
        rep = {"kind": "purity", "level": level, "auto": auto, "N": N, "B": B}
        ck.count(f"purity:{level}")
        ck.case(None, ("purity", pi))
        try:
            t1 = items[0] + items[1] + items[2]
            # the running-total idiom; `0 + x` (and hence sum()) is offered by the count containers through __radd__,
            # CorrFunc offers `+` only: its totals start from the first item
            zero_ok = level != "corrfunc"
            total = 0 if zero_ok else items[0]
            for x in (items if zero_ok else items[1:]):
                total += x
            t2 = sum(items) if zero_ok else sum(items[1:], items[0])
            total_again = 0 if zero_ok else items[0]
            for x in (items if zero_ok else items[1:]):
                total_again += x
            _ = items[1] * 3.0
        except Exception as e:  # noqa: BLE001
            ck.add_violation(f"adding compatible {level} containers raised {type(e).__name__}: {e}", rep)
            continue
        after = [snapshot(x) for x in items]
        if not all(same(a, b) for a, b in zip(before, after)):
            k = next(i for i, (a, b) in enumerate(zip(before, after)) if not same(a, b))
            ck.add_violation(f"operand {k} of a sum of {level} containers was changed by the operators "
                             "(+, running total with +=, sum(), * scalar)", rep)
            continue
        if not (same(snapshot(t1), snapshot(total)) and same(snapshot(t1), snapshot(t2)) and same(snapshot(t1), snapshot(total_again))):
            ck.add_violation(f"a + b + c, a running total, sum() and a second running total over the same {level} "
                             "containers do not agree", rep)

    for ci in range(n_cases):
        OPS = ["mul", "add", "add", "add", "bins", "bins", "bins", "patches", "patches", "iter", "eq", "add"]
        op = OPS[ci % len(OPS)]          # stratified: every operation / variant is exercised in every run
        # stratum: non-contiguous selections (step > 1) on at least three bins / patches, in every run
        forced_step = op in ("bins", "patches") and ci % len(OPS) in (4, 7)
        case = G.rand_corrfunc_parts(rng, N=rng.choice([3, 4, 6] if forced_step else [1, 2, 3, 4, 6]),
                                     B=rng.choice([3, 5] if forced_step else [1, 2, 3, 5]),
                                     mask=rng.choice([1, 2, 3, 5, 7]))
        parts = case["parts"]
        cf = CorrFunc(parts["dd"], parts.get("dr"), parts.get("rd"), parts.get("rr"))
        entry = dict(case=case, cf=cf, op=op, idx=ci)
        if op == "mul":
            s = rng.choice([2, 0.5, -1, 3, 0, 1.5, 10, 1])
            entry["arg"] = s
            for k, nc in parts.items():
                reqs.append(f"{ci}.{k} cont {enc_container(nc)} mul {fr(s)}")
        elif op == "add":
            VARIANTS = ["ok", "patches", "edges", "closed", "patches", "bins", "ok"]
            variant = VARIANTS[(ci // len(OPS) + ci) % len(VARIANTS)]
            N2, B2 = case["N"], case["B"]
            binning2 = case["binning"]
            if variant == "edges":
                e = case["binning"].edges.copy()
                # clearly different / different in the 7th digit / different by one unit in the last place: unequal is unequal
                how = ["far", "1e-7", "ulp"][(ci // len(OPS)) % 3]
                k_ = rng.randrange(len(e))
                if how == "far":
                    e[-1] += 0.5
                elif how == "1e-7":
                    e[k_] = e[k_] * (1 + 1e-7) if e[k_] != 0 else 1e-9
                else:
                    e[k_] = np.nextafter(e[k_], 10.0)
                ck.count(f"add:other-edges:{how}")
                binning2 = Binning(e, closed=str(case["binning"].closed))
            elif variant == "closed":
                binning2 = Binning(case["binning"].edges.copy(),
                                   closed="left" if str(case["binning"].closed) == "right" else "right")
            elif variant == "patches":
                # include the shapes numpy would silently broadcast (one operand with a single patch)
                N2 = rng.choice([2, 3]) if case["N"] == 1 else rng.choice([1, 1, case["N"] + 1])
            elif variant == "bins":
                B2 = case["B"] + 1
                binning2 = G.rand_binning(rng, B2, str(case["binning"].closed))
            other = {}
            for k, nc in parts.items():
                cnt = G.rand_counts(rng, B2, N2, nc.auto, 0.3)
                if variant in ("patches", "bins"):
                    w1 = G.rand_weights(rng, B2, N2)
                    w2 = w1 if nc.auto else G.rand_weights(rng, B2, N2)
                else:
                    w1, w2 = nc.sum_weights.sum_weights1, nc.sum_weights.sum_weights2
                other[k] = G.make_nc(binning2, cnt, w1, w2, nc.auto)
                reqs.append(f"{ci}.{k} cont {enc_container(nc)} add {enc_container(other[k])}")
            entry["other"] = other
            entry["variant"] = variant
        elif op in ("bins", "patches"):
            n = case["B"] if op == "bins" else case["N"]
            kind, a, b = (("step", 2), rng.choice([None, 0, 1]), None) if forced_step else pick_index(n)
            entry["index"] = (kind, a, b)
            if kind == "int":
                enc = f"int {a}"
            elif isinstance(kind, tuple):
                enc = f"step {'n' if a is None else a} {'n' if b is None else b} {kind[1]}"
            else:
                enc = f"slice {'n' if a is None else a} {'n' if b is None else b}"
            for k, nc in parts.items():
                reqs.append(f"{ci}.{k} cont {enc_container(nc)} {op} {enc}")
        elif op == "iter":
            for k, nc in parts.items():
                for j in range(case["B"]):
                    reqs.append(f"{ci}.{k}.b{j} cont {enc_container(nc)} bins int {j}")
                for j in range(case["N"]):
                    reqs.append(f"{ci}.{k}.p{j} cont {enc_container(nc)} patches int {j}")
        todo.append(entry)

    ans = ck.driver("SpecDriver", reqs)
    if ans is None:
        raise Infra("SpecDriver does not build")
    model = {r.split(" ", 1)[0]: dec_container(a) for r, a in zip(reqs, ans)}
    reqmap = {r.split(" ", 1)[0]: r for r in reqs}

    def attempt(f):
        try:
            return f(), None
        except Exception as e:  # noqa: BLE001
            return None, type(e).__name__

    def check_obj(entry, label, get_result, members_of_result, model_key, req_key):
        """apply an operation on a real object; compare member containers with the model"""
        res, err = attempt(get_result)
        ck.count(f"{entry['op']}:{label}:{'raise' if err else 'ok'}")
        keys = sorted(entry["case"]["parts"])
        expected_raise = any(model[model_key(k)] is None for k in keys)
        nontriv = (req_key, label) if entry["case"]["N"] >= 2 and entry["case"]["B"] >= 2 else None
        ck.case({"op": entry["op"], "class": label, "detail": str(entry.get("index", entry.get("arg", entry.get("variant"))))}
                if len(ck.samples) < 5 else None, nontriv)
        if err or expected_raise:
            if bool(err) != expected_raise:
                ck.add_violation(
                    f"{label}.{entry['op']} {entry.get('index', entry.get('variant', ''))}: implementation "
                    f"{'raised ' + err if err else 'returned a value'}, container model says "
                    f"{'error' if expected_raise else 'value'}",
                    {"class": label, "op": entry["op"], "request": reqmap[model_key(keys[0])],
                     "detail": str(entry.get("index", entry.get("variant", entry.get("arg"))))},
                    signature=None)
            return None
        for k, obj in members_of_result(res):
            d = cmp_nc(obj, model[model_key(k)], f"{label}.{k}")
            if d:
                ck.add_violation(f"{label}.{entry['op']} {entry.get('index', entry.get('arg', ''))}: {d}",
                                 {"class": label, "op": entry["op"], "request": reqmap[model_key(k)]})
                return None
        return res

    for entry in todo:
        ci, cf, op, parts = entry["idx"], entry["cf"], entry["op"], entry["case"]["parts"]
        keys = sorted(parts)
        if op == "mul":
            s = entry["arg"]
            check_obj(entry, "CorrFunc", lambda: cf * s, lambda r: r.to_dict().items(), lambda k: f"{ci}.{k}", ci)
            k0 = rng.choice(keys)
            sub = dict(entry, case=dict(entry["case"], parts={k0: parts[k0]}))
            check_obj(sub, "NormalisedCounts", lambda: parts[k0] * s, lambda r: [(k0, r)], lambda k: f"{ci}.{k}", ci)
            check_obj(sub, "PatchedCounts", lambda: parts[k0].counts * s, lambda r: [(k0, r)], lambda k: f"{ci}.{k}", ci)
            # sampled estimates unchanged by a non-zero factor
            if s != 0:
                r, err = attempt(lambda: (cf * s).sample())
                if not err:
                    base = cf.sample()
                    # entries with a zero denominator are inf/nan on both sides (sign may flip with s < 0)
                    def agree(u, v):
                        fu, fv = np.isfinite(u), np.isfinite(v)
                        return np.array_equal(fu, fv) and np.allclose(u[fu], v[fv], rtol=1e-12, atol=0)
                    if not (agree(r.data, base.data) and agree(r.samples, base.samples)):
                        ck.add_violation("scalar multiplication changes the sampled estimate",
                                         {"class": "CorrFunc", "op": "mul", "request": reqmap[f"{ci}.dd"], "s": s})
        elif op == "add":
            other = entry["other"]
            r, e2 = attempt(lambda: CorrFunc(other["dd"], other.get("dr"), other.get("rd"), other.get("rr")))
            if r is not None:
                check_obj(entry, "CorrFunc", lambda: cf + r, lambda x: x.to_dict().items(), lambda k: f"{ci}.{k}", ci)
            k0 = rng.choice(keys)
            sub = dict(entry, case=dict(entry["case"], parts={k0: parts[k0]}))
            check_obj(sub, "NormalisedCounts", lambda: parts[k0] + other[k0], lambda x: [(k0, x)], lambda k: f"{ci}.{k}", ci)
            check_obj(sub, "PatchedCounts", lambda: parts[k0].counts + other[k0].counts, lambda x: [(k0, x)],
                      lambda k: f"{ci}.{k}", ci)
            # sum() convenience: 0 + x
            if entry["variant"] == "ok":
                check_obj(sub, "NormalisedCounts.sum", lambda: sum([parts[k0], other[k0]]), lambda x: [(k0, x)],
                          lambda k: f"{ci}.{k}", ci)
        elif op in ("bins", "patches"):
            kind, a, b = entry["index"]
            item = pyidx(kind, a, b)
            acc = (lambda o: o.bins[item]) if op == "bins" else (lambda o: o.patches[item])
            res = check_obj(entry, "CorrFunc", lambda: acc(cf), lambda x: x.to_dict().items(), lambda k: f"{ci}.{k}", ci)
            k0 = rng.choice(keys)
            sub = dict(entry, case=dict(entry["case"], parts={k0: parts[k0]}))
            check_obj(sub, "NormalisedCounts", lambda: acc(parts[k0]), lambda x: [(k0, x)], lambda k: f"{ci}.{k}", ci)
            check_obj(sub, "PatchedCounts", lambda: acc(parts[k0].counts), lambda x: [(k0, x)], lambda k: f"{ci}.{k}", ci)
            check_obj(sub, "PatchedSumWeights", lambda: acc(parts[k0].sum_weights), lambda x: [(k0, x)],
                      lambda k: f"{ci}.{k}", ci)
            # commutation with sampling (bins): sample of the selection = selection of the sample
            if res is not None and op == "bins":
                s1, e1 = attempt(lambda: res.sample())
                s2, e2 = attempt(lambda: cf.sample().bins[item])
                if bool(e1) != bool(e2) or (not e1 and not (s1 == s2)):
                    ck.add_violation(f"bin selection does not commute with sample(): {e1} / {e2}",
                                     {"class": "CorrFunc", "op": "bins", "request": reqmap[f"{ci}.dd"],
                                      "detail": str(entry["index"])})
        elif op == "iter":
            for label, obj_of in (("CorrFunc", None), ("NormalisedCounts", lambda nc: nc),
                                  ("PatchedCounts", lambda nc: nc.counts), ("PatchedSumWeights", lambda nc: nc.sum_weights)):
                for axis, n in (("b", entry["case"]["B"]), ("p", entry["case"]["N"])):
                    if label == "CorrFunc":
                        it = (lambda: list(cf.bins)) if axis == "b" else (lambda: list(cf.patches))
                        members = lambda x: x.to_dict().items()  # noqa: E731
                        ks = keys
                    else:
                        k0 = keys[0]
                        o = obj_of(parts[k0])
                        it = (lambda o=o: list(o.bins)) if axis == "b" else (lambda o=o: list(o.patches))
                        members = lambda x, k0=k0: [(k0, x)]  # noqa: E731
                        ks = [k0]
                    items, err = attempt(it)
                    ck.count(f"iter:{label}:{axis}:{'raise' if err else 'ok'}")
                    ck.case(None, (ci, label, axis) if n >= 2 else None)
                    if err or len(items) != n:
                        ck.add_violation(
                            f"iteration over {label}.{'bins' if axis == 'b' else 'patches'} "
                            f"{'raised ' + err if err else 'yielded %d items instead of %d' % (len(items), n)}",
                            {"class": label, "op": "iter", "axis": axis, "request": reqmap[f"{ci}.{ks[0]}.{axis}0"]})
                        continue
                    # iterations that overlap in time on ONE container: nested loops, zip with itself, an abandoned loop
                    src_obj = cf if label == "CorrFunc" else o
                    acc = (lambda x=src_obj: x.bins) if axis == "b" else (lambda x=src_obj: x.patches)
                    ov, oerr = attempt(lambda: (
                        sum(1 for _a in acc() for _b in acc()),
                        [a == b for a, b in zip(acc(), acc())],
                        (lambda it1: (next(it1), len(list(acc())), sum(1 for _ in iter(lambda: next(it1, None), None))))(iter(acc()))[1:]))
                    ck.count(f"iter-overlap:{label}:{axis}")
                    if oerr or ov[0] != n * n or ov[1] != [True] * n or ov[2] != (n, n - 1):
                        ck.add_violation(
                            f"overlapping iterations over {label}.{'bins' if axis == 'b' else 'patches'} of one container interfere: "
                            + (f"raised {oerr}" if oerr else f"nested loops visit {ov[0]} pairs (expected {n * n}), zip with itself pairs "
                               f"equal items: {ov[1]}, a full loop started inside an abandoned one yields {ov[2][0]} items and the "
                               f"abandoned one continues with {ov[2][1]} (expected {n}, {n - 1})"),
                            {"class": label, "op": "iter-overlap", "axis": axis, "request": reqmap[f"{ci}.{ks[0]}.{axis}0"]})
                        continue
                    for j, itx in enumerate(items):
                        bad = next((d for k, obj in members(itx)
                                    if (d := cmp_nc(obj, model[f"{ci}.{k}.{axis}{j}"], f"{label}.{k}[{j}]"))), None)
                        if bad:
                            ck.add_violation(f"iteration item differs: {bad}",
                                             {"class": label, "op": "iter", "request": reqmap[f"{ci}.{ks[0]}.{axis}{j}"]})
                            break
        elif op == "eq":
            ck.case(None, None)
            ck.count("eq")
            cf2 = CorrFunc(*(G.make_nc(nc.binning, nc.counts.counts, nc.sum_weights.sum_weights1,
                                       nc.sum_weights.sum_weights2, nc.auto) if nc is not None else None
                             for nc in (parts["dd"], parts.get("dr"), parts.get("rd"), parts.get("rr"))))
            if not (cf == cf) or not (cf == cf2):
                ck.add_violation("equality is not reflexive/structural", {"class": "CorrFunc", "op": "eq"})
            if case_differs(cf, parts, rng):
                ck.add_violation("containers with different counts compare equal", {"class": "CorrFunc", "op": "eq"})
            # different member sets over identical shared members: unequal in BOTH directions (symmetry)
            names = ["dr", "rd", "rr"]
            present = [k for k in names if parts.get(k) is not None]
            absent = [k for k in names if parts.get(k) is None]
            variants = []
            if present:
                drop = rng.choice(present)
                variants.append((f"without {drop}", {k: (None if k == drop else parts.get(k)) for k in names}))
            if absent:
                add = rng.choice(absent)
                variants.append((f"with extra {add}", {k: (parts["dd"] if k == add else parts.get(k)) for k in names}))
            for label, mem in variants:
                other, err = attempt(lambda: CorrFunc(parts["dd"], mem["dr"], mem["rd"], mem["rr"]))
                if err:
                    continue          # (dd alone is not a valid CorrFunc)
                ck.count("eq:member-sets")
                ab, e1 = attempt(lambda: cf == other)
                ba, e2 = attempt(lambda: other == cf)
                # ... and they cannot be added: one operand's counts would have nowhere to go (a sum that silently drops the counts
                # only one operand has is no sum; the two orders must agree)
                s1, ea = attempt(lambda: cf + other)
                s2, eb = attempt(lambda: other + cf)
                ck.count("add:member-sets")
                if not (ea and eb):
                    ok_ = [sorted(x.to_dict()) for x, e_ in ((s1, ea), (s2, eb)) if not e_]
                    ck.add_violation(f"CorrFunc with members {sorted(cf.to_dict())} + the same {label}: a + b "
                                     f"{'raised ' + ea if ea else 'returned members ' + str(sorted(s1.to_dict()))}, b + a "
                                     f"{'raised ' + eb if eb else 'returned members ' + str(sorted(s2.to_dict()))} (counts of one operand are "
                                     "dropped silently; both orders must be rejected)",
                                     {"class": "CorrFunc", "op": "add", "members": sorted(cf.to_dict()), "other": label, "results": ok_})
                if e1 or e2 or ab or ba or not (cf != other) or not (other != cf):
                    ck.add_violation(f"CorrFunc with members {sorted(cf.to_dict())} vs the same {label}: a == b is {ab}, "
                                     f"b == a is {ba} (both must be False)" + (f" [{e1 or e2}]" if (e1 or e2) else ""),
                                     {"class": "CorrFunc", "op": "eq", "members": sorted(cf.to_dict()), "other": label})

    # ---- CorrData (SampledData) algebra ---------------------------------------------------
    from yaw.correlation.corrdata import CorrData
    for i in range(n_cases // 3):
        B, M = rng.choice([1, 2, 4]), rng.choice([1, 3, 5])
        binning = G.rand_binning(rng, B)
        mk = lambda: CorrData(binning, np.array([float(rng.randrange(-50, 50)) for _ in range(B)]),  # noqa: E731
                              np.array([[float(rng.randrange(-50, 50)) for _ in range(B)] for _ in range(M)]))
        x, y = mk(), mk()
        for name, f, g in (("add", lambda: x + y, np.add), ("sub", lambda: x - y, np.subtract)):
            r, err = attempt(f)
            ck.count(f"CorrData.{name}:{'raise' if err else 'ok'}")
            ck.case(None, ("cd", i, name) if B >= 2 else None)
            if err or not (np.array_equal(r.data, g(x.data, y.data)) and np.array_equal(r.samples, g(x.samples, y.samples))
                           and r.binning == x.binning):
                ck.add_violation(f"CorrData {name} {'raised ' + err if err else 'gave wrong arrays'}",
                                 {"class": "CorrData", "op": name, "B": B, "M": M}, signature=None)
        z = CorrData(G.rand_binning(rng, B + 1), np.zeros(B + 1), np.zeros((M, B + 1)))
        r, err = attempt(lambda: x + z)
        if not err:
            ck.add_violation("CorrData addition accepts a different binning", {"class": "CorrData", "op": "add"})
        kind, a, b = pick_index(B)
        item = pyidx(kind, a, b)
        r, err = attempt(lambda: x.bins[item])
        idx = list(range(B))
        try:
            sel = [idx[item]] if kind == "int" else idx[item]
            exp_err = len(sel) == 0
        except IndexError:
            exp_err = True
        exp_edges = None if exp_err else [x.binning.edges[k] for k in sel] + [x.binning.edges[sel[-1] + 1]]
        ck.count(f"CorrData.bins:{'raise' if err else 'ok'}")
        ck.case(None, ("cdb", i) if B >= 2 else None)
        if bool(err) != exp_err:
            ck.add_violation(f"CorrData.bins[{item}]: raised={err}, expected error={exp_err}",
                             {"class": "CorrData", "op": "bins", "B": B, "index": str(item)})
        elif not err:
            if not (np.array_equal(r.data, x.data[sel]) and np.array_equal(r.samples, x.samples[:, sel])
                    and np.array_equal(r.binning.edges, exp_edges)):
                ck.add_violation(f"CorrData.bins[{item}] selects the wrong sub-arrays",
                                 {"class": "CorrData", "op": "bins", "B": B, "index": str(item)})
    # ---- constructors: arrays of every shape up to 4 dimensions (sizes drawn from {num_bins, num_bins +- 1, N, 1}) -----
    #      (a) accept / reject vs the generated kernels, (b) vs the documented shapes
    from yaw.binning import Binning
    from yaw.correlation.corrdata import CorrData
    from yaw.correlation.paircounts import NormalisedCounts, PatchedCounts, PatchedSumWeights
    creq, cexp = [], []
    nshape = 60 if tier == "quick" else 400
    for i in range(nshape):
        B = rng.choice([1, 2, 3])
        N = rng.choice([1, 2, 4])
        binning = Binning(np.linspace(0.1, 0.1 * (B + 1), B + 1), closed="right")
        pool = [B, B, B + 1, max(1, B - 1), N, N, 1]

        def rshape(force=None):
            if force is not None and rng.random() < 0.45:
                return list(force)
            return [rng.choice(pool) for _ in range(rng.choice([0, 1, 2, 2, 3, 3, 4]))]
        kind = ["counts", "sumw", "sampled", "norm"][i % 4]
        if kind == "counts":
            s = rshape([B, N, N])
            impl = attempt(lambda: PatchedCounts(binning, np.zeros(s), auto=False))[1]
            spec_ok = len(s) == 3 and s[0] == B and s[1] == s[2]
            creq.append(f"c{i} counts {B} {len(s)} {' '.join(map(str, s))}")
            desc = {"class": "PatchedCounts", "num_bins": B, "shape": s}
        elif kind == "sumw":
            s1 = rshape([B, N])
            s2 = list(s1) if rng.random() < 0.7 else rshape([B, N])
            impl = attempt(lambda: PatchedSumWeights(binning, np.zeros(s1), np.zeros(s2), auto=False))[1]
            spec_ok = len(s1) == 2 and s1 == s2 and s1[0] == B
            creq.append(f"c{i} sumw {B} {len(s1)} {' '.join(map(str, s1))} {len(s2)} {' '.join(map(str, s2))}")
            desc = {"class": "PatchedSumWeights", "num_bins": B, "shape1": s1, "shape2": s2}
        elif kind == "sampled":
            d = rshape([B])
            s = rshape([N + 1, B])
            impl = attempt(lambda: CorrData(binning, np.zeros(d), np.zeros(s)))[1]
            spec_ok = d == [B] and len(s) == 2 and s[1] == B
            creq.append(f"c{i} sampled {B} {len(d)} {' '.join(map(str, d))} {len(s)} {' '.join(map(str, s))}")
            desc = {"class": "CorrData", "num_bins": B, "data_shape": d, "samples_shape": s}
        else:
            cB, cN = B, N
            wB = rng.choice([B, B, B + 1])
            wN = rng.choice([N, N, N + 1])
            b2 = Binning(np.linspace(0.1, 0.1 * (wB + 1), wB + 1), closed="right")
            impl = attempt(lambda: NormalisedCounts(PatchedCounts(binning, np.zeros((cB, cN, cN)), auto=False),
                                                    PatchedSumWeights(b2, np.zeros((wB, wN)), np.zeros((wB, wN)), auto=False)))[1]
            spec_ok = cB == wB and cN == wN
            creq.append(f"c{i} norm {cN} {cB} {wN} {wB}")
            desc = {"class": "NormalisedCounts", "counts": [cB, cN], "sum_weights": [wB, wN]}
        ck.count(f"ctor:{kind}:{'raise' if impl else 'ok'}")
        ck.case(None, ("ctor", kind, str(desc)))
        cexp.append((impl, desc))
        if bool(impl) == spec_ok:
            ck.add_violation(f"{desc['class']} constructor {'rejects' if impl else 'accepts'} arrays of shape "
                             f"{ {k: v for k, v in desc.items() if k != 'class'} } "
                             f"({'valid' if spec_ok else 'not the documented shape'}); raised: {impl}", desc)
    cans = ck.driver("GenCtors", creq)
    if cans is not None:
        for (impl, desc), a in zip(cexp, cans):
            if ("raise" if impl else "ok") != a:
                ck.add_tie_break("constructor accept/reject vs generated kernel", {"case": desc, "impl": impl, "model": a})
    return ck.finish()


def case_differs(cf, parts, rng):
    from yaw.correlation.corrfunc import CorrFunc
    nc = parts["dd"]
    c = nc.counts.counts.copy()
    c.flat[rng.randrange(c.size)] += 1.0
    dd2 = G.make_nc(nc.binning, c, nc.sum_weights.sum_weights1, nc.sum_weights.sum_weights2, nc.auto)
    cf2 = CorrFunc(dd2, parts.get("dr"), parts.get("rd"), parts.get("rr"))
    return cf == cf2
