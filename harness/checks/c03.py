"""C03 — jackknife sample k = statistic with patch k left out; delete-one covariance."""
from __future__ import annotations

import json
import math
from fractions import Fraction

import numpy as np
import warnings

np.seterr(all="ignore")
warnings.filterwarnings("ignore")

from core import Check, fr, parse_val, to_frac, ulp_close
import gen_containers as G

THEOREMS = [
    "Yaw.C03.jk_data", "Yaw.C03.jk_counts", "Yaw.C03.loo_eq_removed", "Yaw.C03.jk_counts_removed",
    "Yaw.C03.weights_remove", "Yaw.C03.jk_normalised", "Yaw.C03.jk_corrfunc",
    "Yaw.C03.cov_formula", "Yaw.C03.cov_symm", "Yaw.C03.cov_psd", "Yaw.C03.error_sq_nonneg",
    "Yaw.C03.glue_pinned", "Yaw.C03.hist_jk_row", "Yaw.C03.hist_jk",
]
KERNELS = ["k_jackknife", "k_weights", "k_normalise", "k_estimators", "k_cov", "k_histjk"]
RULE = ("random pair-count containers (N patches 1..7, B bins 1..5, auto/cross, sparsity 0..0.9, integer counts, "
        "half-integer auto diagonal) and random histogram count arrays; compared: sample_patch_sum data/samples "
        "(EXACT), CorrFunc.sample data/samples (ULP 16), covariance (ULP 64N), error, resample_jackknife (EXACT, also for "
        "64..257 (..1000 thorough) patches) "
        "against (a) the generated-kernel model and (b) the leave-one-out spec. non-trivial: N >= 2 and at least "
        "two distinct non-zero counts; distinct by request text")


def flat_vals(answer: str):
    return [parse_val(t) for t in answer.split()]


def cmp_exact(impl_vals, model_vals):
    """impl floats vs model rationals, exactly"""
    if len(impl_vals) != len(model_vals):
        return f"length {len(impl_vals)} != {len(model_vals)}"
    for i, (x, m) in enumerate(zip(impl_vals, model_vals)):
        if m == "nan":
            if math.isfinite(x):
                return f"[{i}] impl {x} model nan"
        elif not math.isfinite(x) or to_frac(x) != m:
            return f"[{i}] impl {x!r} model {m}"
    return None


def cmp_ulp(impl_vals, model_vals, k, scales):
    if len(impl_vals) != len(model_vals):
        return f"length {len(impl_vals)} != {len(model_vals)}"
    for i, (x, m) in enumerate(zip(impl_vals, model_vals)):
        if m == "nan":
            if math.isfinite(x):
                return f"[{i}] impl {x} model nan"
        elif m == "raise":
            return f"[{i}] model raise"
        elif not math.isfinite(x):
            return f"[{i}] impl {x} model {float(m)}"
        elif not ulp_close(x, m, k, scales[i] if scales is not None else None):
            return f"[{i}] impl {x!r} model {float(m)!r}"
    return None


def run(prop, tier, seed, replay):
    from yaw.correlation.corrfunc import CorrFunc
    from yaw.redshifts import resample_jackknife

    # (the classes define no sampling / comparison / pickling method beyond those modelled: Yaw.C17.class_methods)
    ck = Check(prop, tier, seed, kernels=KERNELS + ["k_algebra"], theorems=THEOREMS + ["Yaw.C17.class_methods"],
               lean_modules=["YawVerif.Props.C03", "YawVerif.Props.C17"], rule=RULE,
               assumptions=["einsum / np.cov / np.tile / np.delete behave as documented by numpy",
                            "float sums of integers below 2^53 are exact"])
    ck.translate()
    ck.lean_check()
    rng = ck.rng
    n_cases = 60 if tier == "quick" else 600
    if ck.tie_breaks:
        n_cases *= 3          # failing-input search budget

    reqs, cases = [], []
    if replay:
        obj = json.loads(open(replay).read())
        rep = obj.get("replay", obj)
        return replay_case(ck, rep)

    for ci in range(n_cases):
        kind = rng.choice(["cf", "cf", "jk", "hist"])
        if kind in ("cf", "jk"):
            mask = rng.choice([1, 2, 3, 4 | 1, 4 | 1 | 2, 1, 5])
            case = G.rand_corrfunc_parts(rng, mask=mask)
            case["kind"] = kind
            if ci % 4 == 1:
                # stratum: a patch with negative weights — pair counts, weight products and leave-one-out sums of either sign
                G.negate_data_patch(case, rng.randrange(case["N"]))
                ck.count("stratum=negative-weight-patch")
            if kind == "jk":
                nc = case["parts"][rng.choice(sorted(case["parts"]))]
                case["nc"] = nc
                reqs.append(f"{ci} jk {case['N']} {case['B']} {G.enc_nc(nc)}")
            else:
                reqs.append(G.enc_cf(str(ci), case))
        else:
            N = rng.choice([1, 2, 3, 4, 6, 9])
            B = rng.choice([1, 2, 4])
            counts = np.array([[float(rng.choice([0, 0, 1, 2, 5, 10, rng.randrange(0, 1000)])) for _ in range(B)]
                               for _ in range(N)])
            case = {"kind": "hist", "N": N, "B": B, "counts": counts}
            reqs.append(f"{ci} histjk {N} {B} " + " ".join(fr(x) for x in counts.ravel()))
        cases.append(case)

    # stratum: no hidden state — measurements that come and go, containers changed between two samplings
    import strata_state
    strata_state.run_stratum(ck, rng, 12 if tier == "quick" else 60)

    gen = ck.driver("GenResample", reqs)
    spec = ck.driver("SpecDriver", reqs)
    if spec is None:
        from core import Infra
        raise Infra("SpecDriver does not build")

    cov_reqs, cov_cases = [], []
    for ci, case in enumerate(cases):
        g = flat_vals(gen[ci]) if gen is not None else None
        s = flat_vals(spec[ci])
        N, B = case["N"], case["B"]
        ck.count(f"kind={case['kind']}")
        ck.count(f"N={N}")
        nontriv = None
        if case["kind"] == "jk":
            nc = case["nc"]
            impl = []
            c = nc.counts.sample_patch_sum()
            w = nc.sum_weights.sample_patch_sum()
            for b in range(B):
                impl += [c.data[b], *c.samples[:, b], w.data[b], *w.samples[:, b]]
            c = nc.counts.sample_patch_sum()      # second call: must not depend on the first
            w = nc.sum_weights.sample_patch_sum()
            impl2 = []
            for b in range(B):
                impl2 += [c.data[b], *c.samples[:, b], w.data[b], *w.samples[:, b]]
            if not np.array_equal(np.array(impl), np.array(impl2), equal_nan=True):
                impl = impl2
            if N >= 2 and len(set(nc.counts.counts.ravel()) - {0.0}) >= 2:
                nontriv = reqs[ci]
            ck.case({"kind": "jk", "N": N, "B": B, "auto": bool(nc.auto),
                     "counts": nc.counts.counts.tolist()} if ci < 3 else None, nontriv)
            d_spec = cmp_exact(impl, s)
            if d_spec:
                ck.add_violation(f"sample_patch_sum differs from leave-one-out sum: {d_spec}",
                                 {"kind": "jk", "request": reqs[ci], "impl": [float(x) for x in impl]})
            elif g is not None:
                d = cmp_exact(impl, g)
                if d:
                    ck.add_tie_break("jk impl vs generated model", {"diff": d, "request": reqs[ci]})
        elif case["kind"] == "cf":
            parts = case["parts"]
            try:
                cf = CorrFunc(parts["dd"], parts.get("dr"), parts.get("rd"), parts.get("rr"))
                cd = cf.sample()
                impl_raise = False
            except Exception as e:  # noqa: BLE001
                impl_raise = type(e).__name__
            if N >= 2 and len(set(parts["dd"].counts.counts.ravel()) - {0.0}) >= 2:
                nontriv = reqs[ci]
            ck.case(G.describe(case) if ci < 3 else None, nontriv)
            ck.count(f"mask={case['mask']}")
            model_raise = "raise" in s
            if impl_raise or model_raise:
                ck.count("raise")
                if bool(impl_raise) != model_raise:
                    ck.add_violation(f"estimator selection: impl raised={impl_raise} spec raise={model_raise}",
                                     {"kind": "cf", "request": reqs[ci]})
                continue
            impl, scales = [], []
            terms = {k: v.sample_patch_sum() for k, v in parts.items()}
            for b in range(B):
                for row in [None, *range(N)]:
                    impl.append(cd.data[b] if row is None else cd.samples[row, b])
                    tv = {k: (t.data[b] if row is None else t.samples[row, b]) for k, t in terms.items()}
                    den = tv.get("rr", tv.get("rd", tv.get("dr")))
                    sc = sum(abs(to_frac(v)) for v in tv.values() if math.isfinite(v))
                    scales.append(sc / abs(to_frac(den)) if math.isfinite(den) and den != 0 else Fraction(1))
            d_spec = cmp_ulp(impl, s, 16, scales)
            if not d_spec:
                # every later use of the same container must give the same samples (no hidden state)
                cd2 = cf.sample()
                if not (np.array_equal(cd.data, cd2.data, equal_nan=True)
                        and np.array_equal(cd.samples, cd2.samples, equal_nan=True)):
                    impl2 = []
                    for b in range(B):
                        impl2 += [cd2.data[b], *cd2.samples[:, b]]
                    d_spec = "second sample() of the same container: " + str(cmp_ulp(impl2, s, 16, scales))
                    impl = impl2
            if d_spec:
                ck.add_violation(f"CorrFunc.sample differs from the statistic with the patch removed: {d_spec}",
                                 {"kind": "cf", "request": reqs[ci], "impl": [float(x) for x in impl]})
            elif g is not None:
                d = cmp_ulp(impl, g, 16, scales)
                if d:
                    ck.add_tie_break("cf impl vs generated model", {"diff": d, "request": reqs[ci]})
            # covariance of the implementation's own samples
            smp = cd.samples
            if np.all(np.isfinite(smp)):
                cov_reqs.append(f"cov{ci} cov {N} {B} " + " ".join(fr(x) for x in smp.ravel()))
                cov_cases.append((cd, smp))
            # stratum: samples that are large compared with their scatter (histogram-like counts)
            if ci % 4 == 0 and N >= 2:
                from yaw.correlation.corrdata import CorrData
                base = rng.choice([1e5, 3e7, 5e7, 2.0 ** 40])
                big = np.array([[base + rng.randrange(-4, 5) for _ in range(B)] for _ in range(N)], dtype=float)
                cdb = CorrData(case["binning"], big.mean(axis=0), big)
                cov_reqs.append(f"covbig{ci} cov {N} {B} " + " ".join(fr(x) for x in big.ravel()))
                cov_cases.append((cdb, big))
        else:
            counts = case["counts"]
            smp = resample_jackknife(counts)
            impl = [*counts.sum(axis=0), *smp.ravel()]
            if N >= 2 and len(set(counts.ravel()) - {0.0}) >= 2:
                nontriv = reqs[ci]
            ck.case({"kind": "hist", "counts": counts.tolist()} if ci < 6 else None, nontriv)
            d_spec = cmp_exact(impl, s)
            if d_spec:
                ck.add_violation(
                    f"resample_jackknife sample k is not the sum with patch k left out: {d_spec}",
                    {"kind": "hist", "request": reqs[ci], "impl": [float(x) for x in impl]},
                    signature=hist_signature(counts, smp))
            if g is not None:
                d = cmp_exact(impl, g)
                if d:
                    ck.add_tie_break("histjk impl vs model", {"diff": d, "request": reqs[ci]})

    # stratum: the jackknife samples of the n(z) estimate ARE the estimate of the samples (unequal bin widths, with and
    # without bias corrections): sample k of from_corrdata(x, r, u) = from_corrdata of sample k of x, r, u
    from yaw import RedshiftData
    from yaw.correlation.corrdata import CorrData as _CD
    for ni in range(10 if tier == "quick" else 100):
        B = [3, 4, 6][ni % 3]
        M = rng.choice([2, 3, 5])
        from yaw.binning import Binning
        edges = np.concatenate([[0.1], 0.1 + np.cumsum([[0.05, 0.3, 0.1, 0.25, 0.125, 0.4][(ni + j) % 6] for j in range(B)])])
        binning = Binning(edges, closed=["left", "right"][ni % 2])

        def mk():
            a = np.array([[rng.choice([0.5, 1.0, 2.0, 0.25, 3.0, rng.uniform(0.1, 3.0)]) for _ in range(B)] for _ in range(M + 1)])
            return _CD(binning, a[0], a[1:])
        cross = mk()
        ref = mk() if ni % 4 in (1, 3) else None
        unk = mk() if ni % 4 in (2, 3) else None
        rd = RedshiftData.from_corrdata(cross, ref, unk)
        ck.count("nz-samples")
        ck.case(None, ("nz-samples", ni))
        for kk in range(M):
            one = lambda cd: None if cd is None else _CD(binning, cd.samples[kk], cd.samples[[kk]])  # noqa: E731
            want = RedshiftData.from_corrdata(one(cross), one(ref), one(unk)).data
            if not np.array_equal(rd.samples[kk], want, equal_nan=True):
                ck.add_violation(f"jackknife sample {kk} of the n(z) estimate differs from the estimate computed from sample {kk} "
                                 f"of its inputs (bin widths {np.diff(edges).tolist()})",
                                 {"kind": "nz-samples", "edges": edges.tolist(), "cross": cross.samples.tolist(),
                                  "sample": kk, "got": rd.samples[kk].tolist(), "want": want.tolist()})
                break

    # stratum: many patches (index arithmetic of the resampling; the Lean model is size-independent, the arrays are not)
    for N_big in ([64, 182, 200, 257] if tier == "quick" else [64, 181, 182, 183, 200, 256, 257, 400, 1000]):
        counts = np.array([[float(rng.randrange(0, 50)) for _ in range(2)] for _ in range(N_big)])
        smp = resample_jackknife(counts)
        want = counts.sum(axis=0)[None, :] - counts
        ck.count("hist-many-patches")
        ck.case(None, ("hist-big", N_big))
        if smp.shape != want.shape or not np.array_equal(smp, want):
            bad = int(np.argmax((smp != want).any(axis=1))) if smp.shape == want.shape else -1
            ck.add_violation(f"resample_jackknife with {N_big} patches: sample {bad} is not the sum with patch {bad} left out",
                             {"kind": "hist-big", "N": N_big, "counts": counts.tolist()})

    # covariance / error
    gcov = ck.driver("GenResample", cov_reqs)
    scov = ck.driver("SpecDriver", cov_reqs)
    for i, (cd, smp) in enumerate(cov_cases):
        n, B = smp.shape
        cov = cd.covariance
        ck.case(None, cov_reqs[i] if n >= 2 else None)
        ck.count("cov")
        if scov[i] == "nan":
            if np.any(np.isfinite(cov)):
                ck.add_violation("single-sample covariance is not NaN", {"kind": "cov", "request": cov_reqs[i]})
            continue
        # two-pass covariance: error ~ eps * |x| * |x - mean| per term (not eps * |x|^2)
        mx = max(abs(to_frac(x)) for x in smp.ravel())
        means = [sum(to_frac(x) for x in smp[:, p]) / n for p in range(B)]
        dv = max(abs(to_frac(smp[k, p]) - means[p]) for k in range(n) for p in range(B))
        scale = [(mx * dv + dv * dv) * n] * (B * B)
        d_spec = cmp_ulp(list(cov.ravel()), flat_vals(scov[i]), 64 * n, scale)
        if d_spec:
            ck.add_violation(f"covariance is not the delete-one jackknife covariance: {d_spec}",
                             {"kind": "cov", "request": cov_reqs[i], "impl": cov.tolist()})
        elif gcov is not None:
            d = cmp_ulp(list(cov.ravel()), flat_vals(gcov[i]), 64 * n, scale)
            if d:
                ck.add_tie_break("cov impl vs generated model", {"diff": d, "request": cov_reqs[i]})
        if not np.array_equal(cov, cov.T):
            ck.add_violation("covariance not symmetric", {"kind": "cov", "request": cov_reqs[i]})
        ev = np.linalg.eigvalsh(cov)
        if ev.min() < -1e-9 * max(float(dv * dv), abs(ev).max()):
            ck.add_violation("covariance not positive semi-definite", {"kind": "cov", "request": cov_reqs[i]})
        err = cd.error
        if not np.allclose(err, np.sqrt(np.diag(cov)), rtol=1e-15, atol=0, equal_nan=True):
            ck.add_violation("error is not the root of the covariance diagonal", {"kind": "cov", "request": cov_reqs[i]})
    return ck.finish()


def hist_signature(counts, smp):
    """signature of the recorded finding F22: samples are the leave-one-out sums in REVERSED patch order"""
    loo = counts.sum(axis=0) - counts
    if np.array_equal(smp, loo[::-1]) and not np.array_equal(smp, loo):
        return "hist-jackknife-reversed-order"
    return None


def replay_case(ck, rep):
    from yaw.redshifts import resample_jackknife
    req = rep["request"]
    spec = ck.driver("SpecDriver", [req])
    print("request:", req[:300])
    print("spec   :", spec[0][:300])
    if rep.get("kind") == "hist":
        toks = req.split()
        N, B = int(toks[2]), int(toks[3])
        counts = np.array([float(Fraction(t)) for t in toks[4:]]).reshape(N, B)
        smp = resample_jackknife(counts)
        impl = [*counts.sum(axis=0), *smp.ravel()]
        print("impl   :", impl)
        d = cmp_exact(impl, flat_vals(spec[0]))
        print("diff   :", d)
        return 1 if d else 0
    print("impl (recorded):", rep.get("impl"))
    return 0
