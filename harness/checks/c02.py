"""C02 — catalog creation stores every input record exactly once, unchanged."""
from __future__ import annotations

import warnings
from collections import Counter
from decimal import Decimal, getcontext

import numpy as np

import catalogs as C
import oracle as O
from core import Check

np.seterr(all="ignore")
warnings.filterwarnings("ignore")
getcontext().prec = 50
PI = Decimal("3.14159265358979323846264338327950288419716939937510582097494")

THEOREMS = ["Yaw.C02.chunks_flatten", "Yaw.C02.arraySplit_flatten", "Yaw.C02.writer_flush_complete",
            "Yaw.C02.pipeline_multiset", "Yaw.C02.arrivals_perm", "Yaw.C02.sequential_exact",
            "Yaw.C02.pipeline_independent", "Yaw.C02.header_roundtrip", "Yaw.C02.glue_pinned",
            "Yaw.C02.Grp.runs_flatten", "Yaw.C02.Grp.runs_spec", "Yaw.C02.Grp.groupby_spec", "Yaw.C02.Grp.groupby_model_spec",
            "Yaw.C02.Grp.groupby_pinned"]
RULE = ("catalog creation from data frames (column dtypes f8/f4/i8/i4/u1; default, offset and permuted row labels), FITS (big-endian), HDF5 and Parquet (uniform and non-uniform row groups) "
        "(several row-group sizes), lengths around multiples of the chunk size, chunk sizes 1..n+1, optional columns in "
        "all combinations, degrees/radian, patch centres / patch-index column / generated centres, 1..4 worker "
        "processes (real pools), progress on/off: per-patch multisets of the 64-bit record patterns of the new and of "
        "the reopened catalog compared EXACTLY with the expected records; deg->rad within 1 ulp of the exact product; "
        "nearest-centre assignment checked where the two nearest centres differ by > 1e-12. non-trivial: more than "
        "one chunk and more than one patch; distinct by case description")


def expected_records(cols, degrees):
    out = {}
    for k in ("ra", "dec"):
        v = np.asarray(cols[k]).astype(np.float64)
        out[k] = np.deg2rad(v) if degrees else v
    for k in ("weights", "redshifts"):
        if cols.get(k) is not None:
            out[k] = np.asarray(cols[k]).astype(np.float64)
    return out


def rows_as_bytes(rec: dict, names):
    arr = np.column_stack([rec[k] for k in names]).astype("<f8")
    return [r.tobytes() for r in arr]


def deg2rad_ok(x, stored):
    exact = Decimal(float(x)) * PI / Decimal(180)
    err = abs(Decimal(float(stored)) - exact)
    return err <= Decimal(2) ** -52 * max(abs(exact), Decimal(10) ** -300)


def run(prop, tier, seed, replay):
    import h5py
    import pandas as pd
    import pyarrow as pa
    import pyarrow.parquet as pq
    from astropy.io import fits
    from yaw import AngularCoordinates, Catalog

    ck = Check(prop, tier, seed, kernels=["k_reader", "k_createplan", "k_wrappers", "k_glue", "k_probe"], theorems=THEOREMS + ["Yaw.Glue.fits_flags", "Yaw.Glue.reader_ext_table", "Yaw.C18Probe.probe_spec", "Yaw.C18Probe.probe_flags", "Yaw.C05.progress_wrapper_flags", "Yaw.C18P.steps_spec", "Yaw.C18P.passes_spec", "Yaw.C18P.reader_forwarding", "Yaw.C18P.mode_args", "Yaw.C18P.writer_forwarding", "Yaw.C18P.glue_pinned"], lean_modules=["YawVerif.Props.C02", "YawVerif.Props.C02Groupby", "YawVerif.Props.C18Plan", "YawVerif.Props.C05", "YawVerif.Props.Glue", "YawVerif.Props.C18Probe"], rule=RULE,
               assumptions=["np.argsort/np.unique/np.split group the records of a chunk by patch id (order within a group "
                            "unspecified: multisets are compared)",
                            "multiprocessing.Pool.map delivers every part exactly once",
                            "FITS/HDF5/Parquet libraries return the stored float64 values"])
    ck.translate()
    ck.lean_check()
    rng = ck.rng
    root = C.scratch_root()
    n_cases = 40 if tier == "quick" else 400
    reqs, expect = [], []
    try:
        for ci in range(n_cases):
            c = rng.choice([1, 3, 7, 16, 50])
            n = max(3, rng.choice([1, 2, 4]) * c + rng.choice([-1, 0, 1]))
            workers = [1, 2, 1, 3, 4][ci % 5]
            source = ["df", "fits", "df", "hdf5", "parquet", "df"][ci % 6]
            degrees = ci % 2 == 0
            has_w, has_z = bool(ci & 1), bool(ci & 2)
            mode = ["centers", "name", "centers", "num"][ci % 4]
            if mode == "num":
                n = max(n, 30)
            N = rng.choice([1, 2, 3, 4])
            nprng = np.random.default_rng(rng.randrange(2 ** 32))
            cdeg = np.column_stack([nprng.uniform(10, 60, N), nprng.uniform(-40, 40, N)])
            pid = np.arange(n) % N
            nprng.shuffle(pid)
            # data-frame sources (ci % 6 in 0, 2, 5) cycle through the column dtypes, so that every dtype meets both
            # `degrees` settings in every run
            dtype = ["f8", "f4", "i8", "f4", "i4", "u1", "f8", "f4"][(ci // 2) % 8] if source == "df" else "f8"
            ra = cdeg[pid, 0] + nprng.uniform(-2, 2, n)
            dec = cdeg[pid, 1] + nprng.uniform(-2, 2, n)
            if dtype in ("i8", "i4", "u1"):
                ra, dec = np.round(ra), np.round(np.abs(dec))
            ra, dec = ra.astype(dtype), dec.astype(dtype)
            if not degrees:
                ra, dec = np.deg2rad(ra.astype("f8")), np.deg2rad(dec.astype("f8"))
                if dtype == "f4":
                    ra, dec = ra.astype("f4"), dec.astype("f4")
            # (integer weight columns get integral weights: 0.5 would be cast to 0, and a patch whose weights sum to
            # zero has no weighted centre - creation refuses it loudly, which is not what this property is about)
            wdt = (rng.choice(["f8", "i8"]) if source == "df" else "f8") if has_w else None
            w = nprng.choice([1, 2, 3] if wdt == "i8" else [1, 2, 3, 0.5], n).astype(wdt) if has_w else None
            # FITS tables store unsigned integers and scaled columns with TZERO / TSCAL: the weight column cycles through the
            # ways a survey table may hold it (the values a reader of the file sees are what must be stored)
            wfits = None
            if source == "fits" and has_w:
                wfits = ["D", "u2", "i4", "u4", "scaled", "E"][(ci // 6) % 6]
                if wfits in ("u2", "u4", "i4"):
                    w = nprng.choice([1, 2, 3, 40000 if wfits != "i4" else 7], n).astype(wfits)
                elif wfits == "scaled":
                    w = nprng.choice([1.0, 1.5, 2.0, 3.5], n)
                elif wfits == "E":
                    w = w.astype("f4")
                ck.count(f"fits-weight-column={wfits}")
            z = nprng.uniform(0.01, 2, n) if has_z else None
            cols = {"ra": ra, "dec": dec, "weights": w, "redshifts": z}
            rep = {"n": n, "chunksize": c, "workers": workers, "source": source, "degrees": degrees, "mode": mode,
                   "dtype": dtype, "N": N, "cols": {k: (None if v is None else np.asarray(v).tolist()) for k, v in cols.items()},
                   "patch": pid.tolist(), "centres_deg": cdeg.tolist()}
            desc = (n, c, workers, source, degrees, mode, dtype, has_w, has_z, N)
            ck.count(f"source={source}")
            ck.count(f"workers={workers}")
            ck.count(f"mode={mode}")
            ck.count(f"dtype={dtype}")
            names = ["ra", "dec"] + (["weights"] if has_w else []) + (["redshifts"] if has_z else [])
            frame = {"ra": ra, "dec": dec}
            if has_w:
                frame["w"] = w
            if has_z:
                frame["z"] = z
            if mode == "name":
                frame["patch"] = pid.astype("i8")
            kw = dict(ra_name="ra", dec_name="dec", weight_name="w" if has_w else None, redshift_name="z" if has_z else None,
                      degrees=degrees, chunksize=c, overwrite=True, progress=bool(ci % 7 == 3))
            cents_rad = np.deg2rad(cdeg)
            if mode == "centers":
                kw["patch_centers"] = AngularCoordinates(cents_rad)
            elif mode == "name":
                kw["patch_name"] = "patch"
            else:
                kw.update(patch_num=min(N, 3), probe_size=n)
            if (root / f"c{ci % 3}").exists() and not (root / f"c{ci % 3}" / "patch_ids.bin").exists():
                C.remove(root / f"c{ci % 3}")       # left by a refused creation: not a cache, not overwritable
            try:
                with C.Workers(workers):
                    if source == "df":
                        pdf = pd.DataFrame(frame)
                        idx_kind = ["default", "offset", "shuffled-labels", "default"][(ci // 3) % 4]
                        if idx_kind == "offset":             # e.g. what a row selection without reset_index leaves
                            pdf.index = np.arange(len(pdf)) * 3 + 1000
                        elif idx_kind == "shuffled-labels":
                            pdf.index = nprng.permutation(len(pdf))
                        ck.count(f"index={idx_kind}")
                        cat = Catalog.from_dataframe(root / f"c{ci % 3}", pdf, **kw)
                    else:
                        path = root / f"in{ci}.{ {'fits': 'fits', 'hdf5': 'hdf5', 'parquet': 'pqt'}[source] }"
                        if source == "fits":
                            def fits_col(k, v):
                                if k == "w" and wfits == "u2":
                                    return fits.Column(name=k, format="I", bzero=2 ** 15, array=v)
                                if k == "w" and wfits == "u4":
                                    return fits.Column(name=k, format="J", bzero=2 ** 31, array=v)
                                if k == "w" and wfits == "i4":
                                    return fits.Column(name=k, format="J", array=v)
                                if k == "w" and wfits == "scaled":      # raw int16 values, scaled by the header keywords set below
                                    return fits.Column(name=k, format="I", array=np.round((v - 1.0) / 0.5).astype("i2"))
                                if k == "w" and wfits == "E":
                                    return fits.Column(name=k, format="E", array=v)
                                return fits.Column(name=k, format="K" if v.dtype.kind == "i" else "D", array=v)
                            hdu_ = fits.BinTableHDU.from_columns([fits_col(k, v) for k, v in frame.items()])
                            if wfits == "scaled":
                                iw_ = list(frame).index("w") + 1
                                hdu_.header[f"TSCAL{iw_}"] = 0.5
                                hdu_.header[f"TZERO{iw_}"] = 1.0
                            hdu_.writeto(path)
                        elif source == "hdf5":
                            with h5py.File(path, "w") as f:
                                for k, v in frame.items():
                                    f[k] = v
                        else:
                            tab = pa.table(frame)
                            if (ci // 6) % 2 == 1 or c < 3:
                                pq.write_table(tab, path, row_group_size=rng.choice([1, 3, 8, 1000]))
                            else:       # row groups of differing sizes (files appended to / written by other tools)
                                with pq.ParquetWriter(path, tab.schema) as wr:
                                    at = 0
                                    first = True
                                    while at < len(tab):
                                        k = max(2, c - 1) if first else rng.choice([1, 1, 2])   # c = chunk size
                                        first = False
                                        wr.write_table(tab.slice(at, k))
                                        at += k
                                ck.count("parquet:non-uniform-row-groups")
                        cat = Catalog.from_file(root / f"c{ci % 3}", path, **kw)
                        path.unlink()
            except Exception as e:  # noqa: BLE001
                exp = expected_records(cols, degrees)
                v = O.to_vec(exp["ra"], exp["dec"])
                cv = O.to_vec(cents_rad[:, 0], cents_rad[:, 1])
                near = np.argmin(((v[:, None, :] - cv[None, :, :]) ** 2).sum(axis=2), axis=1)
                if mode == "centers" and len(set(near.tolist())) < N:
                    ck.count("rejected:empty-centre")
                elif mode == "num":
                    ck.count(f"rejected:num:{type(e).__name__}")
                else:
                    ck.add_violation(f"creation raised {type(e).__name__}: {e}", rep)
                C.remove(root / f"c{ci % 3}")
                continue
            exp = expected_records(cols, degrees)
            # expected patch of every record
            if mode == "name":
                exp_pid = pid
            else:
                cc = cat.get_centers().data if mode == "num" else cents_rad
                v = O.to_vec(exp["ra"], exp["dec"])
                cv = O.to_vec(cc[:, 0], cc[:, 1])
                d2 = ((v[:, None, :] - cv[None, :, :]) ** 2).sum(axis=2)
                exp_pid = np.argmin(d2, axis=1)
                srt = np.sort(d2, axis=1)
                undecided = (srt[:, 1] - srt[:, 0] <= 1e-12) if d2.shape[1] > 1 else np.zeros(n, dtype=bool)
            exp_rows = rows_as_bytes(exp, names)
            bad = None
            for label, catalog in (("created", cat), ("reopened", Catalog(root / f"c{ci % 3}"))):
                got_all = Counter()
                for p in catalog.keys():
                    data = catalog[p].load_data()
                    if list(data.dtype.names) != names:
                        bad = f"{label}: patch {p} has columns {data.dtype.names}, expected {names}"
                        break
                    got = Counter(rows_as_bytes({k: data[k] for k in names}, names))
                    got_all.update(got)
                    if mode == "name" or mode in ("centers", "num"):
                        want = Counter(r for r, q, u in zip(exp_rows, exp_pid, (np.zeros(n, bool) if mode == "name" else undecided)) if q == p and not u)
                        missing = want - got
                        if missing:
                            bad = f"{label}: patch {p} lacks {sum(missing.values())} of its records"
                            break
                if bad:
                    break
                if got_all != Counter(exp_rows):
                    lost = Counter(exp_rows) - got_all
                    extra = got_all - Counter(exp_rows)
                    bad = (f"{label}: stored records differ from the input: {sum(lost.values())} lost, "
                           f"{sum(extra.values())} not in the input (of {n})")
                    break
            if ci % 2 == 0:
                C.remove(root / f"c{ci % 3}")   # odd cases leave their catalog: the next creation at this path overwrites it,
                #                                  after this process has read its patches (nothing of it may survive)
            ck.case({k: rep[k] for k in ("n", "chunksize", "workers", "source", "degrees", "mode", "dtype", "N")}
                    if len(ck.samples) < 4 else None, desc if (n > c and N > 1) else None)
            if bad:
                ck.add_violation(bad, rep)
                continue
            if degrees:
                for x, s_ in list(zip(cols["ra"], exp["ra"]))[:20]:
                    if not deg2rad_ok(x, s_):
                        ck.add_violation(f"degree to radian conversion of {x!r} gives {s_!r}: more than 1 ulp off", rep)
                        break
            reqs.append(f"h{ci} header {int(has_w)} {int(has_z)} 0")
            expect.append(("header", (1 | 2 | (4 if has_w else 0) | (8 if has_z else 0))))
            reqs.append(f"s{ci} split {workers} {min(n, c)}")
            expect.append(("split", [len(x) for x in np.array_split(np.arange(min(n, c)), workers)]))
        # ---- controlled pool: the parts of a chunk are delivered in a chosen order; asynchronous submissions complete
        #      only when waited for (DESIGN 5.C02: "all orders in which workers deliver their part") --------------------
        import multiprocessing
        from unittest import mock
        from ctrl_pool import CtrlPool
        orders = [("identity", lambda k: list(range(k))), ("reversed", lambda k: list(range(k))[::-1]),
                  ("rotated", lambda k: list(range(1, k)) + [0] if k else [])]
        for si, (n, c, workers) in enumerate([(41, 10, 3), (23, 7, 2), (40, 10, 4), (9, 20, 3)][: 4 if tier == "quick" else 4]):
            nprng = np.random.default_rng(rng.randrange(2 ** 32))
            cdeg = np.array([[20.0, -10.0], [40.0, 5.0], [60.0, 25.0]])
            pid = np.arange(n) % 3
            ra = np.deg2rad(cdeg[pid, 0] + nprng.uniform(-2, 2, n))
            dec = np.deg2rad(cdeg[pid, 1] + nprng.uniform(-2, 2, n))
            w = nprng.choice([1.0, 2.0, 0.5], n)
            cols = {"ra": ra, "dec": dec, "weights": w, "redshifts": None}
            names = ["ra", "dec", "weights"]
            exp_rows = Counter(rows_as_bytes(expected_records(cols, False), names))
            for label, order in orders:
                CtrlPool.order, CtrlPool.log, CtrlPool.dropped = staticmethod(order), [], 0
                rep = {"n": n, "chunksize": c, "workers": workers, "source": "df", "mode": "centers",
                       "delivery_order_of_the_parts_of_a_chunk": label,
                       "cols": {k: (None if v is None else v.tolist()) for k, v in cols.items()}, "centres_deg": cdeg.tolist()}
                try:
                    with C.Workers(workers), mock.patch.object(multiprocessing, "Pool", CtrlPool):
                        cat = Catalog.from_dataframe(root / f"s{si}", pd.DataFrame({"ra": ra, "dec": dec, "w": w}),
                                                     ra_name="ra", dec_name="dec", weight_name="w",
                                                     patch_centers=AngularCoordinates(np.deg2rad(cdeg)), chunksize=c,
                                                     degrees=False, overwrite=True)
                    got = Counter()
                    for p_ in Catalog(root / f"s{si}").keys():
                        d = cat[p_].load_data()
                        got.update(rows_as_bytes({k: d[k] for k in names}, names))
                except Exception as e:  # noqa: BLE001
                    ck.add_violation(f"creation under a controlled worker schedule ({label}) raised {type(e).__name__}: {e}", rep)
                    C.remove(root / f"s{si}")
                    continue
                C.remove(root / f"s{si}")
                ck.count(f"controlled-pool:{label}")
                ck.case(None, ("ctrl", n, c, workers, label))
                if got != exp_rows:
                    lost = exp_rows - got
                    ck.add_violation(f"with the parts of each chunk delivered in '{label}' order (work submitted asynchronously "
                                     f"completes when waited for; {CtrlPool.dropped} submissions were never waited for) "
                                     f"{sum(lost.values())} of {n} records are not stored", rep)
        # ---- groupby (the splitting of a chunk by patch index): keys with gaps, single occurrences, few / many keys -----
        from yaw.utils import groupby
        for gi in range(12 if tier == "quick" else 120):
            m = rng.choice([1, 2, 5, 12, 40])
            universe = rng.choice([[0, 1, 2], [0, 2, 5], [3], [1, 4, 6, 7, 30000], list(range(8))])
            keys = np.array([rng.choice(universe) for _ in range(m)], dtype=np.int64)
            vals = np.arange(m, dtype=np.int64) + 100
            got = [(int(k), sorted(int(x) for x in v)) for k, v in groupby(keys, vals)]
            want = [(int(k), sorted(int(x) for x in vals[keys == k])) for k in sorted(set(keys.tolist()))]
            ck.count("groupby")
            ck.case(None, ("groupby", tuple(keys.tolist())) if len(set(keys.tolist())) >= 2 else None)
            if got != want:
                ck.add_violation(f"groupby(keys={keys.tolist()}) yields {got}, expected every key once with exactly its values {want}",
                                 {"kind": "groupby", "keys": keys.tolist()})
            reqs.append(f"g{gi} groupby {m} " + " ".join(f"{int(k)} {int(v)}" for k, v in zip(keys, vals)))
            expect.append(("groupby", got))
    finally:
        C.remove(root)
    ans = ck.driver("GenReader", reqs)
    if ans is not None:
        for (kind, exp), a in zip(expect, ans):
            if kind == "header" and int(a.split()[0]) != exp:
                ck.add_tie_break("header byte vs model", {"model": a, "impl": exp})
            if kind == "split" and [int(x) for x in a.split()] != exp:
                ck.add_tie_break("np.array_split vs model", {"model": a, "impl": exp})
            if kind == "groupby":
                model = [(int(g.split(":")[0]), sorted(int(x) for x in g.split(":")[1].split(","))) for g in a.split(";") if g]
                if model != exp:
                    ck.add_tie_break("groupby vs model", {"model": model, "impl": exp})
    return ck.finish()
