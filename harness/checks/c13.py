"""C13 — invariance under rotations, row order, patch labels, weight scale; additivity (metamorphic)."""
from __future__ import annotations

import warnings

import numpy as np

import catalogs as C
import gen_sky as G
import oracle as O
from c01 import make_config
from core import Check

np.seterr(all="ignore")
warnings.filterwarnings("ignore")

THEOREMS = [
    "Yaw.C13.rotation_preserves_chord", "Yaw.C13.rotation_preserves_angle", "Yaw.C13.count_of_equal_pairs",
    "Yaw.C13.row_perm_invariant", "Yaw.C13.counts_additive", "Yaw.C13.label_perm_equivariant",
    "Yaw.C13.weight_scale_invariant_cross", "Yaw.C13.weight_scale_invariant_auto",
    "Yaw.C13.mean_perm", "Yaw.C13.cov_perm_invariant",
]
RULE = ("metamorphic runs of the real pipeline (crosscorrelate with DD, DR [, RD, RR], CorrFunc.sample, "
        "RedshiftData.from_corrfuncs): base measurement vs the same data (1) rigidly rotated (random rotations, onto "
        "a pole, across RA=0), (2) with shuffled rows, (3) with permuted centre list, (4) with all weights of one "
        "catalog scaled (power of two: bitwise; other factors down to 1e-9: 1e-11 relative), (5) split into two "
        "catalogs. Counts EXACT whenever no pair separation is within 1e-9 of a threshold (checked with the "
        "oracle); covariance to 1e-10 of its largest entry. non-trivial: >= 2 patches and a non-zero off-diagonal "
        "count; distinct by (case, transformation)")


def rotation(rng, kind, base_vec):
    nprng = np.random.default_rng(rng.randrange(2 ** 32))
    if kind == "random":
        q, r = np.linalg.qr(nprng.normal(size=(3, 3)))
        q = q * np.sign(np.diag(r))
        if np.linalg.det(q) < 0:
            q[:, 0] = -q[:, 0]
        return q
    target = {"north": np.array([0, 0, 1.0]), "south": np.array([0, 0, -1.0]), "ra0": np.array([1.0, 0, 0])}[kind]
    v = np.cross(base_vec, target)
    s, c = np.linalg.norm(v), float(base_vec @ target)
    if s < 1e-12:
        return np.eye(3)
    vx = np.array([[0, -v[2], v[1]], [v[2], 0, -v[0]], [-v[1], v[0], 0]])
    return np.eye(3) + vx + vx @ vx * ((1 - c) / s ** 2)


def measure(root, tag, config, samples, field, mode, use_rr):
    import yaw
    from yaw import AngularCoordinates, RedshiftData
    cats = []
    for k, s in enumerate(samples):
        if mode == "centers":
            cents = AngularCoordinates(np.column_stack([field["ra"], field["dec"]]))
            cats.append(C.make_catalog(root / f"{tag}_{k}", s["ra"], s["dec"], z=s["z"], w=s["w"], centers=cents))
        else:
            cats.append(C.make_catalog(root / f"{tag}_{k}", s["ra"], s["dec"], z=s["z"], w=s["w"], patch=s["patch"]))
    kw = dict(unk_rand=cats[3])
    if use_rr:
        kw["ref_rand"] = cats[2]
    cfs = yaw.crosscorrelate(config, cats[0], cats[1], **kw)
    out = []
    for cf in cfs:
        cd = cf.sample()
        rd = RedshiftData.from_corrfuncs(cf)
        out.append(dict(cf=cf, cd=cd, rd=rd, cov=cd.covariance))
    for k in range(len(samples)):
        C.remove(root / f"{tag}_{k}")
    return out


def margins_ok(samples, field, mode, cfgkw, cosmology, N):
    """no pair separation within the guard band of any threshold (so counts are decidable in floats)"""
    def ids(s):
        if mode != "centers":
            return s["patch"]
        v = O.to_vec(s["ra"], s["dec"])
        return np.argmin(((v[:, None, :] - field["vec"][None, :, :]) ** 2).sum(axis=2), axis=1)
    data = [O.CatData(s["ra"], s["dec"], ids(s), z=s["z"], w=s["w"]) for s in samples]
    for a, b in ((0, 1), (0, 3), (2, 1), (2, 3)):
        _, _, _, m = O.pair_counts(data[a], data[b], num_patches=N, edges=np.array(cfgkw["edges"]),
                                   closed=cfgkw["closed"], rmin=np.atleast_1d(cfgkw["rmin"]),
                                   rmax=np.atleast_1d(cfgkw["rmax"]), unit=cfgkw["unit"], cosmology=cosmology,
                                   rweight=cfgkw["rweight"], resolution=cfgkw["resolution"], binned2=False)
        if m < 1e-8:
            return False
    return True


def same_counts(a, b, perm=None, exact=True):
    for x, y in zip(a, b):
        for name in ("dd", "dr", "rd", "rr"):
            p, q = getattr(x["cf"], name), getattr(y["cf"], name)
            if (p is None) != (q is None):
                return f"{name} presence"
            if p is None:
                continue
            cp, cq = p.counts.counts, q.counts.counts
            s1p, s2p = p.sum_weights.sum_weights1, p.sum_weights.sum_weights2
            s1q, s2q = q.sum_weights.sum_weights1, q.sum_weights.sum_weights2
            if perm is not None:
                cq = cq[:, perm][:, :, perm]
                s1q, s2q = s1q[:, perm], s2q[:, perm]
            if not (np.array_equal(cp, cq) if exact else np.allclose(cp, cq, rtol=1e-12, atol=1e-300)):
                return f"{name} counts (sum {cp.sum()} vs {cq.sum()})"
            if not (np.array_equal(s1p, s1q) and np.array_equal(s2p, s2q)):
                return f"{name} sum_weights"
    return None


def close(u, v, rtol):
    fu, fv = np.isfinite(u), np.isfinite(v)
    if not np.array_equal(fu, fv):
        return False
    if not fu.any():
        return True
    scale = max(np.abs(u[fu]).max(), 1e-300)
    return bool(np.all(np.abs(u[fu] - v[fv]) <= rtol * scale))


def well_conditioned(cf):
    """(sample, bin) entries whose jackknife value is determined up to rounding: the leave-one-out weight products and the
    leave-one-out denominator of the estimator are not (numerically) zero.  Where they cancel to zero the value is 0/0 or x/0
    in exact arithmetic and nan / inf / huge by accident of rounding — no statement about rounding applies there."""
    den = cf.rr if cf.rr is not None else (cf.dr if cf.dr is not None else cf.rd)
    ok = None
    for m in (cf.dd, cf.dr, cf.rd, cf.rr):
        if m is None:
            continue
        w = m.sum_weights.sample_patch_sum()
        good = np.abs(w.samples) > 1e-4 * np.abs(w.data)[None, :]
        ok = good if ok is None else (ok & good)
    d = den.sample_patch_sum()
    # (a leave-one-out value that keeps less than 1e-4 of the total amplifies the 1e-16 rounding of its terms beyond the 1e-11 the
    #  comparison allows: ill-conditioned, not compared)
    return ok & (np.abs(d.samples) > 1e-4 * np.abs(d.data)[None, :])


def same_estimates(a, b, rtol, perm=None):
    for x, y in zip(a, b):
        mask = None
        if rtol != 0:
            m1, m2 = well_conditioned(x["cf"]), well_conditioned(y["cf"])
            mask = m1 & (m2[perm] if perm is not None else m2)
        for key in ("cd", "rd"):
            d1, d2 = x[key].data, y[key].data
            s1, s2 = x[key].samples, y[key].samples
            if perm is not None:
                s2 = s2[perm]
            if rtol == 0:
                if not (np.array_equal(d1, d2, equal_nan=True) and np.array_equal(s1, s2, equal_nan=True)):
                    return f"{key} differs bitwise"
                continue
            bins = mask.all(axis=0)
            if not (close(d1[bins], d2[bins], rtol) and close(np.where(mask, s1, 0.0), np.where(mask, s2, 0.0), rtol)):
                worst = float(np.nanmax(np.abs(np.where(mask, s1, 0.0) - np.where(mask, s2, 0.0)))) if mask.any() else float("nan")
                return (f"{key} differs beyond {rtol}: values {d1.tolist()} vs {d2.tolist()}, largest difference of a "
                        f"well-conditioned jackknife sample {worst:.3g} ({int((~mask).sum())} of {mask.size} sample entries are "
                        "singular (leave-one-out denominator zero) and not compared)")
        if rtol == 0:
            ok = close(x["cov"], y["cov"], 1e-10)
        else:
            bins = mask.all(axis=0)
            # (a covariance of samples that agree to rounding is itself rounding noise, ~ (1e-16 * |sample|)^2: the comparison
            #  allows the square of the tolerance of the samples on top of the relative one)
            c1_, c2_ = x["cov"][np.ix_(bins, bins)], y["cov"][np.ix_(bins, bins)]
            fs_ = x["cd"].samples[np.isfinite(x["cd"].samples)]
            floor_ = (1e-11 * (np.abs(fs_).max() if fs_.size else 1.0)) ** 2
            ok = True
            if bins.any():
                f1_, f2_ = np.isfinite(c1_), np.isfinite(c2_)
                ok = bool(np.array_equal(f1_, f2_) and (not f1_.any() or np.all(
                    np.abs(c1_[f1_] - c2_[f2_]) <= max(rtol, 1e-10) * np.abs(c1_[f1_]).max() + floor_)))
        if not ok:
            b_ = np.ones(x["cov"].shape[0], dtype=bool) if rtol == 0 else mask.all(axis=0)
            c1_, c2_ = x["cov"][np.ix_(b_, b_)], y["cov"][np.ix_(b_, b_)]
            with np.errstate(all="ignore"):
                dev_ = float(np.nanmax(np.abs(c1_ - c2_))) if c1_.size else float("nan")
            return (f"covariance differs (compared bins {np.flatnonzero(b_).tolist()}, largest entry {float(np.nanmax(np.abs(c1_))) if c1_.size else 0:.3g}, "
                    f"largest deviation {dev_:.3g}, cd samples {x['cd'].samples.tolist()} vs {y['cd'].samples.tolist()})")
    return None


def run(prop, tier, seed, replay):
    from yaw.catalog.catalog import InconsistentPatchesError
    ck = Check(prop, tier, seed, kernels=["k_jackknife", "k_weights", "k_normalise"], theorems=THEOREMS,
               lean_modules=["YawVerif.Props.C13"], rule=RULE,
               assumptions=["the specification the theorems speak about is equated with the implementation by C01/C03/C04",
                            "rotations are applied in float64 (separations change by ~1e-16 relative; guard band 1e-8)"])
    ck.translate()
    ck.lean_check()
    rng = ck.rng
    n_cases = 8 if tier == "quick" else 80
    root = C.scratch_root()
    try:
        with C.Workers(1):
            scale_count = 0
            for ci in range(n_cases):
                config, cfgkw, cosmology = make_config(rng)
                # base position of the field and kind of rotation cycle deterministically (every run has fields across RA = 0 and
                # on a pole, and rotations onto them); every second field is tight enough for pairs across patch boundaries
                field = G.make_field(rng, num_patches=rng.choice([2, 3, 4]), base=sorted(G.BASES)[ci % len(G.BASES)],
                                     spread=0.05 if ci % 3 != 1 else None)
                N = field["N"]
                edges = cfgkw["edges"]
                zr = (edges[0] - 0.1, edges[-1] + 0.1)
                sizes = [40, 50, 45, 60]
                # extents: by turns random / the largest catalog compact and the others wide / the reverse — which catalog the
                # patch radii are taken from changes under relabelling and splitting, the result must not
                ext_plan = [None, ["wide", "wide", "wide", "compact"], None, ["compact", "compact", "compact", "wide"]][ci % 4]
                samples = [G.make_sample(rng, field, n=sizes[k],
                                         extent_mode=rng.choice(["compact", "wide"]) if ext_plan is None else ext_plan[k],
                                         zrange=zr, edges=edges, weights=True) for k in range(4)]
                # every reference sample has one (patch, redshift bin) cell holding a SINGLE object whose weight is not 1 (and one cell
                # whose objects all carry the same weight 5): a cell's weights count as they are, also when they are all equal
                s0 = samples[0]
                z0, w0, p0 = np.asarray(s0["z"], dtype=float), np.asarray(s0["w"], dtype=float), np.asarray(s0["patch"])
                lo_mid, hi_mid = (edges[0] + edges[1]) / 2, (edges[-2] + edges[-1]) / 2
                idx0 = np.flatnonzero(p0 == 0)
                if len(idx0) >= 2 and len(edges) >= 3:
                    in_last = idx0[(z0[idx0] > edges[-2]) & (z0[idx0] <= edges[-1])]
                    z0[in_last] = lo_mid
                    z0[idx0[0]] = hi_mid
                    w0[idx0[0]] = 3.0
                    idx1 = np.flatnonzero(p0 == (1 if N > 1 else 0))
                    same = idx1[(z0[idx1] > edges[0]) & (z0[idx1] < edges[1])]
                    if N > 1:
                        w0[same] = 5.0
                    s0["z"], s0["w"] = z0, w0
                    ck.count("stratum=single-object-cell")
                if ci % 2 == 1:
                    # stratum: the unknown sample is a bootstrap resample of itself (rows drawn with replacement: the same
                    # position occurs several times), unweighted every other time — every row counts, also a repeated one
                    s1 = samples[1]
                    n1_ = len(s1["ra"])
                    pick_ = np.array([rng.randrange(n1_) for _ in range(n1_)])
                    for key in ("ra", "dec", "z", "w", "patch"):
                        if isinstance(s1.get(key), np.ndarray):
                            s1[key] = s1[key][pick_]
                    if ci % 4 == 1:
                        s1["w"] = None
                    ck.count("stratum=repeated-positions" + (":unweighted" if ci % 4 == 1 else ":weighted"))
                use_rr = rng.random() < 0.5
                rep = {"config": cfgkw, "field": {"ra": field["ra"].tolist(), "dec": field["dec"].tolist()},
                       "samples": [{k: np.asarray(v).tolist() for k, v in s.items() if k != "extent"} for s in samples]}
                for tname in ("rotate", "shuffle", "relabel", "scale", "split"):
                    mode = "name" if tname == "rotate" else "centers"
                    ck.count(f"transform={tname}")
                    try:
                        if not margins_ok(samples, field, mode, cfgkw, cosmology, N):
                            ck.count("rejected:guard-band")
                            continue
                        base = measure(root, f"b{ci}", config, samples, field, mode, use_rr)
                        off = base[0]["cf"].dd.counts.counts.copy()
                        for i in range(N):
                            off[:, i, i] = 0
                        nontriv = (ci, tname) if off.any() else None
                        f2, s2, perm, rtol, detail = field, samples, None, 0, ""
                        if tname == "rotate":
                            kind = ["ra0", "north", "random", "south"][(ci + ci // 4) % 4]
                            R = rotation(rng, kind, G.to_vec(*G.BASES[field["base"]]))
                            s2 = []
                            for s in samples:
                                ra, dec = G.from_vec(G.to_vec(s["ra"], s["dec"]) @ R.T)
                                s2.append(dict(s, ra=ra, dec=dec))
                            cra, cdec = G.from_vec(field["vec"] @ R.T)
                            f2 = dict(field, ra=cra, dec=cdec, vec=G.to_vec(cra, cdec))
                            detail = kind
                            if not margins_ok(s2, f2, mode, cfgkw, cosmology, N):
                                ck.count("rejected:guard-band")
                                continue
                        elif tname == "shuffle":
                            s2 = []
                            for s in samples:
                                p = np.array(rng.sample(range(len(s["ra"])), len(s["ra"])))
                                s2.append({k: (v[p] if isinstance(v, np.ndarray) else v) for k, v in s.items()})
                        elif tname == "relabel":
                            p = np.array(rng.sample(range(N), N))
                            f2 = dict(field, ra=field["ra"][p], dec=field["dec"][p], vec=field["vec"][p])
                            inv = np.argsort(p)
                            perm = inv          # counts'[inv[i], inv[j]] = counts[i, j]
                            detail = str(p.tolist())
                        elif tname == "scale":
                            # tiny factors first (weights in physical units): every run evaluates at least one of them
                            fac = [1e-9, 4.0, 3.0, 1e6, 0.125][scale_count % 5]
                            scale_count += 1
                            which = [0, 1, 0, 3, 0][(scale_count - 1) % 5] if ci % 2 == 0 else rng.choice([0, 1, 3])
                            if samples[which]["w"] is None:
                                which = 0
                            s2 = [dict(s, w=s["w"] * fac) if k == which else s for k, s in enumerate(samples)]
                            rtol = 0 if fac in (4.0, 0.125) else 1e-11
                            detail = f"catalog {which} x {fac}"
                        elif tname == "split":
                            n1 = len(samples[1]["ra"]) // 2
                            parts = []
                            for sl in (slice(0, n1), slice(n1, None)):
                                sub = {k: (v[sl] if isinstance(v, np.ndarray) else v) for k, v in samples[1].items()}
                                parts.append(measure(root, f"s{ci}", config, [samples[0], sub, samples[2], samples[3]],
                                                     field, mode, use_rr))
                            ck.case(None, nontriv)
                            for sidx, b0 in enumerate(base):
                                tot = parts[0][sidx]["cf"].dd.counts.counts + parts[1][sidx]["cf"].dd.counts.counts
                                ref_counts = b0["cf"].dd.counts.counts
                                if not (np.array_equal(tot, ref_counts) if cfgkw["rweight"] is None
                                        else np.allclose(tot, ref_counts, rtol=1e-12, atol=1e-300)):
                                    ck.add_violation(
                                        "raw pair counts are not additive under a split of the unknown catalog: "
                                        f"{tot.sum()} vs {b0['cf'].dd.counts.counts.sum()}", dict(rep, transform="split"))
                                    break
                            continue
                        other = measure(root, f"t{ci}", config, s2, f2, mode, use_rr)
                    except InconsistentPatchesError:
                        ck.count("rejected:inconsistent-patches")
                        continue
                    except ValueError as e:
                        if "contains no data" in str(e):
                            ck.count("rejected:empty-patch")
                            continue
                        raise
                    ck.case({"transform": tname, "detail": detail, "config": cfgkw} if len(ck.samples) < 5 else None, nontriv)
                    if tname == "scale":
                        d = same_estimates(base, other, rtol)
                    else:
                        exact = cfgkw["rweight"] is None
                        d = same_counts(base, other, perm, exact) or same_estimates(
                            base, other, 0 if (tname in ("shuffle", "rotate") and exact) else 1e-11, perm)
                    if d:
                        ck.add_violation(f"result changes under '{tname}' ({detail}): {d}", dict(rep, transform=tname, detail=detail))
    finally:
        C.remove(root)
    return ck.finish()
