"""C06 — MPI runs terminate and the root rank gets the single-process result (simulated MPI worlds)."""
from __future__ import annotations

import json
import os
import subprocess
import threading
import warnings
from pathlib import Path

import numpy as np

import catalogs as C
from core import Check, YAW_SRC

np.seterr(all="ignore")
warnings.filterwarnings("ignore")
HERE = Path(__file__).resolve().parent.parent

THEOREMS = ["Yaw.C06.init_inv", "Yaw.C06.step_inv", "Yaw.C06.inv_reach", "Yaw.C06.progress", "Yaw.C06.measure_decreases",
            "Yaw.C06.exactly_once", "Yaw.C06.no_worker_no_task", "Yaw.C06.initB_inv", "Yaw.C06.stepB_inv",
            "Yaw.C06.invB_reach", "Yaw.C06.no_loss", "Yaw.C06.progressB", "Yaw.C06.measureB_decreases",
            "Yaw.C06.single_sentinel_loses_data", "Yaw.C06.dispatch_correct", "Yaw.C06.writer_correct", "Yaw.C06.root_result_eq_sequential", "Yaw.C06.flags",
            "Yaw.C06.glue_pinned"]
RULE = ("the library's MPI code paths (selected at import time) executed in simulated MPI worlds: world sizes 2..5 "
        "(..6 thorough), max_workers in {None, 1, 2, 3}, ranks on one or two nodes (at least two on the root's node), "
        "scenarios catalog creation (given centres / patch ids / automatic centres; chunks with fewer records than "
        "processing ranks), Catalog(cache) incl. metadata "
        "computation, build_trees, autocorrelate, crosscorrelate, HistData.from_catalog, result I/O, and the bare "
        "dispatch iterator with fewer / more tasks than workers, with and without progress display; schedules: which blocked MPI call completes next "
        "(seeded random, lowest / highest rank first, round robin, starving one rank), which sender a wildcard receive "
        "matches, eager / synchronous / mixed send completion; a state without an enabled call is a deadlock. Checked: "
        "all ranks terminate, no message is left unreceived, no rank raises (except the documented refusal of catalog "
        "creation with fewer than two workers, on all ranks), the root's result equals the single-process result "
        "bitwise; the event trace of every world is replayed through the Lean protocol models. non-trivial: >= 3 ranks "
        "or a non-eager / non-default schedule; distinct by (scenario, size, max_workers, nodes, schedule)")

CENT = np.array([[0.1, 0.0], [0.3, 0.1], [0.2, -0.2], [0.45, -0.1], [0.0, 0.2]])


def frame(n, seed, ncent):
    r = np.random.default_rng(seed)
    cc = CENT[np.arange(n) % ncent]
    z = r.uniform(0.1, 1, n)
    on_edge = r.random(n) < 0.35          # redshifts exactly on bin edges: the closed side decides their bin
    z[on_edge] = r.choice([0.1, 0.4, 0.7, 1.0], int(on_edge.sum()))
    return dict(ra=cc[:, 0] + r.uniform(-.03, .03, n), dec=cc[:, 1] + r.uniform(-.03, .03, n),
                z=z, w=r.choice([1., 2.], n))


def run_batches(jobs, nomp=False, nproc=12):
    """runs jobs in `nproc` runner processes; returns {id: result}"""
    env = dict(os.environ, YAW_SRC=str(YAW_SRC), PYTHONDONTWRITEBYTECODE="1", OMP_NUM_THREADS="1")
    if nomp:
        env["YAW_VERIF_NOMPI"] = "1"
    nproc = max(1, min(nproc, len(jobs)))
    outs = [None] * nproc

    def feed(i):
        p = subprocess.Popen(["/venv/bin/python", str(HERE / "impl" / "mpi_world.py")], stdin=subprocess.PIPE,
                             stdout=subprocess.PIPE, stderr=subprocess.PIPE, text=True, env=env)
        try:
            outs[i] = p.communicate("\n".join(json.dumps(j) for j in jobs[i::nproc]) + "\n", timeout=3000)
        except subprocess.TimeoutExpired:
            p.kill()
            outs[i] = ("", "timeout")
    ths = [threading.Thread(target=feed, args=(i,)) for i in range(nproc)]
    [t.start() for t in ths]
    [t.join() for t in ths]
    res = {}
    for o, e in outs:
        for line in (o or "").splitlines():
            if line.startswith("RESULT "):
                d = json.loads(line[7:])
                res[d["id"]] = d
    return res, [e[-400:] for o, e in outs if e and "Traceback" in e]


def selected(size, mw, names, node_only):
    """worker i (rank i+1) is selected for work by iter_unordered"""
    eff = min(mw or size, size)
    if node_only and names:
        same = [r for r in range(size) if names[r] == names[0]][:eff]
        return [1 if (i + 1) in same else 0 for i in range(size - 1)]
    return [1 if (i + 1) < eff else 0 for i in range(size - 1)]


def canonicalise(trace, size, sel, scenario, params, send_mode):
    """event trace of one world -> requests for the Lean protocol drivers: [(kind, line, meta)]"""
    reqs = []
    n = size - 1
    # ---- writer protocol (catalog creation) ------------------------------------------------------------------------------
    b_lo, b_hi = None, None
    for k, e in enumerate(trace):
        if e["kind"] == "split" and b_lo is None:
            b_lo = k
    if b_lo is not None:
        for k in range(b_lo, len(trace)):
            e = trace[k]
            if e["kind"] == "barrier-done" and e["rank"] == 0 and e["comm"] == "world":
                b_hi = k
                break
        b_hi = b_hi if b_hi is not None else len(trace)
        seg = trace[b_lo:b_hi]
        sub = next((e["comm"] for e in seg if e["comm"] != "world"), None)
        members = sorted({e["rank"] for e in seg if e["comm"] == sub})
        writer = next((e["dst"] for e in seg if e["kind"] == "send" and e["comm"] == "world" and e["tag"] == 1), None)
        if sub is not None and writer is not None:
            idx = {r: j for j, r in enumerate(members)}
            evs, at_barrier, signalled = [], set(), set()
            for e in seg:
                if e["kind"] == "send" and e["comm"] == "world" and e["tag"] == 1 and e["dst"] == writer:
                    j = idx.get(e["rank"])
                    if j is None:
                        evs.append("??")
                    elif e["label"] == "EOQ":
                        if e["rank"] in at_barrier:
                            evs.append("rs")
                        else:
                            evs.append(f"g {j}")
                            signalled.add(e["rank"])
                    else:
                        evs.append(f"s {j}")
                elif e["kind"] == "barrier" and e["comm"] == sub:
                    at_barrier.add(e["rank"])
                    if e["rank"] not in signalled:
                        evs.append(f"tb {idx[e['rank']]}")
                elif e["kind"] == "recv" and e["comm"] == "world" and e["tag"] == 1 and e["rank"] == writer:
                    evs.append(f"r {idx.get(e['src'], 99)}")
            chunks = sum(1 for x in evs if x == "s 0")
            toks = " ".join(evs).split()
            reqs.append(("B", f"writerB {1 if send_mode == 'sync' else 0} {len(members)} {chunks} {len(evs)} {' '.join(toks)}",
                         {"senders": members, "writer": writer, "chunks": chunks}))
    # ---- dispatch rounds ----------------------------------------------------------------------------------------------------
    in_round, evs, first, tasks, rr_at = False, [], 0, 0, {}
    for k, e in enumerate(trace):
        if b_lo is not None and b_lo <= k < (b_hi or 0):
            continue
        if e.get("comm") != "world":
            continue
        if e["kind"] == "send" and e["tag"] == 1 and e["rank"] == 0:
            if not in_round:
                in_round, evs, first, tasks, rr_at = True, [], 0, 0, {}
            lbl = "e" if e["label"] == "EOQ" else "t"
            if lbl == "t":
                tasks += 1
            if first < n:
                evs.append(f"rf {lbl}")
                first += 1
                if first == n:
                    evs.append("rf x")
            elif e["dst"] in rr_at:
                evs[rr_at.pop(e["dst"])] += f" {lbl}"
            else:
                evs.append("??")
        elif not in_round:
            continue
        elif e["kind"] == "recv" and e["tag"] == 2 and e["rank"] == 0:
            rr_at[e["src"]] = len(evs)
            evs.append(f"rr {e['src'] - 1}")
        elif e["kind"] == "recv" and e["tag"] == 1 and e["rank"] != 0:
            evs.append(f"ws {e['rank'] - 1}" if e["label"] == "EOQ" else f"wr {e['rank'] - 1}")
        elif e["kind"] == "send" and e["tag"] == 2 and e["rank"] != 0:
            evs.append(f"wd {e['rank'] - 1}")
        elif e["kind"] == "barrier-done" and e["rank"] == 0:
            evs += ["fin", "b"]
            total = params["ntasks"] if scenario == "iter" else tasks
            reqs.append(("A", f"iterA {n} {' '.join(map(str, sel))} {total} {len(evs)} {' '.join(evs)}", {"tasks": total}))
            in_round = False
    if in_round:
        reqs.append(("A", f"iterA {n} {' '.join(map(str, sel))} {tasks} {len(evs)} {' '.join(evs)}", {"tasks": tasks, "open": True}))
    return reqs


from core import LEAN as VERIF_LEAN  # noqa: E402
COLL_THEOREMS = ["Yaw.C06C.matched_completes", "Yaw.C06C.mismatch_stuck", "Yaw.C06C.bcast_agree",
                 "Yaw.C06C.code_traces_match", "Yaw.C06C.code_table_covers", "Yaw.C06C.code_collectives_complete"]
# functions whose collectives are outside the root/worker analysis (sub-communicator roles of MPI catalog creation)
COLL_OUTSIDE = ("write_patches", "WorkerManager", "chunk_processing_task", "scatter_data_chunk", "writer_task")


def collective_sites():
    """(file:function, kind, line) of every collective call site in the generated traces, per role"""
    import re
    txt = (VERIF_LEAN / "YawVerif" / "Generated" / "Collective.lean").read_text()
    table = {}
    for m in re.finditer(r'\("([^"]+)", \[(.*?)\], \[(.*?)\]\)', txt):
        name = m.group(1)
        for role, toks in (("root", m.group(2)), ("worker", m.group(3))):
            for t in re.findall(r'"((?:bcast|Bcast|barrier|gather)\([^"]*\)@\d+)"', toks):
                kind, line = t.split("(")[0], int(t.rsplit("@", 1)[1])
                table.setdefault((name, kind, line), set()).add(role)
            # the broadcast method chosen at run time may be the communicator's own `bcast`, entered from this very line
            for t in re.findall(r'"call:dynamic-bcast@(\d+)"', toks):
                table.setdefault((name, "bcast", int(t)), set()).add(role)
    return table


def run(prop, tier, seed, replay):
    ck = Check(prop, tier, seed, kernels=["k_mpi", "k_schedule", "k_collective", "k_wrappers", "k_glue"], theorems=THEOREMS + COLL_THEOREMS + ["Yaw.C05.progress_wrapper_transparent", "Yaw.C05.progress_wrapper_flags", "Yaw.Glue.get_size_spec"],
               lean_modules=["YawVerif.Props.C06", "YawVerif.Props.C06Coll", "YawVerif.Props.C05", "YawVerif.Props.Glue"],
               rule=RULE, level="proof",
               assumptions=["PARTIAL: mpi4py / a real MPI library is replaced by harness/fakempi (pickle transport, "
                            "non-overtaking per sender and tag, wildcard receives match any pending sender, eager or "
                            "synchronous completion chosen by the schedule, collectives in call order); a real progress "
                            "engine, network and rank start-up are not exercised",
                            "the ranks run as threads of one process, one at a time, switching at MPI calls only"])
    ck.translate()
    ck.lean_check()
    rng = ck.rng
    root = C.scratch_root()
    from yaw import AngularCoordinates
    pre = root / "pre"
    pre.mkdir()
    with C.Workers(1):
        for name, n, sd in (("pre_d", 40, 1 + seed), ("pre_r", 80, 2 + seed), ("pre_u", 50, 3 + seed)):
            f = frame(n, sd, 3)
            C.make_catalog(pre / name, f["ra"], f["dec"], z=f["z"], w=f["w"], centers=AngularCoordinates(CENT[:3]))
    scen = ["create", "load", "trees", "auto", "cross", "hist", "io", "iter"]
    sizes = [2, 3, 4, 5] if tier == "quick" else [2, 3, 4, 5, 6]
    n_sched = 2 if tier == "quick" else 8
    modes = ["eager", "sync", "mixed"]
    policies = ["random", "low", "high", "roundrobin"]
    jobs, refjobs, meta = [], [], {}
    try:
        sid = 0
        for sc in scen:
            variants = ["centres", "ids", "auto", "hdf5", "pqt", "fits"] if sc == "create" else (["few", "many"] if sc == "iter" else ["-"])
            for var in variants:
                # creation from 41 records: with chunk size 40 / 10 the last chunk holds ONE record, fewer than there
                # are chunk-processing ranks
                p0 = {"prebuilt": str(pre), "n": 40 if var == "centres" else 41, "seed": 5 + seed,
                      "mode": var if (sc == "create" and var in ("centres", "ids", "auto")) else "centres",
                      "source": var if var in ("hdf5", "pqt", "fits") else None,
                      "chunksize": {"centres": rng.choice([9, 15, 40]), "ids": 40, "auto": 10}.get(var, 15), "ncent": 3,
                      "drop_meta": sc == "load",
                      "ntasks": 2 if var == "few" else 9}
                p0["closed"] = "left" if (len(refjobs) % 2 == 0) else "right"
                refjobs.append(dict(id=f"{sc}|{var}", scenario=sc, params=p0, size=1, dir=str(root)))
                for size in sizes:
                    for mw in (None, 1, 2, 3):
                        for nodes in ("one", "two"):
                            names = None
                            if nodes == "two":
                                if size < 3:
                                    continue
                                names = ["node0" if (i % 2 == 0 or i == 1) else "node1" for i in range(size)]
                            templates = [("eager", "low"), ("sync", "random"), ("eager", "random"), ("mixed", "high"),
                                         ("eager", "roundrobin"), ("mixed", "random"), ("sync", "low"), ("eager", "high")]
                            for k in range(n_sched + (2 if sc == "create" else 0)):
                                sid += 1
                                t = templates[(k + (sid % 2) * 0) % len(templates)]
                                sched = {"seed": rng.randrange(2 ** 31), "send_mode": t[0], "policy": t[1]}
                                if (sid + k) % 7 == 0:
                                    sched["starve"] = rng.randrange(size)
                                node_only = sc == "iter" and nodes == "two" and k % 2 == 1
                                p = dict(p0, max_workers=mw, node_only=node_only, progress=(k % 2 == 1))
                                jid = f"{sc}|{var}|{size}|{mw}|{nodes}|{k}"
                                jobs.append(dict(id=jid, scenario=sc, params=p, size=size, names=names, dir=str(root),
                                                 schedule=sched, want_trace=True))
                                meta[jid] = (sc, var, size, mw, names, sched, p, node_only)
        refs, errs = run_batches(refjobs, nomp=True, nproc=4)
        for j in refjobs:
            if j["id"] not in refs or refs[j["id"]]["errors"]:
                raise RuntimeError(f"single-process reference for {j['id']} failed: {refs.get(j['id'], {}).get('errors')} {errs}")
        results, errs = run_batches(jobs, nproc=14)
        # thorough: EVERY schedule of some small worlds (stateless depth-first enumeration of all choice points)
        dfs_jobs = []
        if tier == "thorough":
            for size, nt, mode in ((2, 1, "eager"), (2, 2, "eager"), (2, 3, "eager"), (2, 2, "mixed"), (3, 1, "eager"), (3, 1, "sync")):
                dfs_jobs.append(dict(id=f"dfs|iter|{size}|{nt}|{mode}", dfs=True, limit=6000, scenario="iter",
                                     params={"ntasks": nt}, size=size, dir=str(root), schedule={"send_mode": mode}))
        dfs_results, _ = run_batches(dfs_jobs, nproc=6) if dfs_jobs else ({}, [])
    finally:
        C.remove(root)

    reqs, req_meta = [], []
    coll_table = collective_sites() if (VERIF_LEAN / "YawVerif" / "Generated" / "Collective.lean").exists() else {}
    seen_sites = set()
    for job in jobs:
        jid = job["id"]
        sc, var, size, mw, names, sched, p, node_only = meta[jid]
        d = results.get(jid)
        rep = {"scenario": sc, "variant": var, "size": size, "max_workers": mw, "names": names, "schedule": sched,
               "params": {k: v for k, v in p.items() if k != "prebuilt"}}
        ck.count(f"scenario={sc}")
        ck.count(f"size={size}")
        ck.count(f"send_mode={sched['send_mode']}")
        ck.case(dict(rep) if len(ck.samples) < 3 else None,
                (sc, var, size, mw, bool(names), sched["seed"]) if size >= 3 or sched["send_mode"] != "eager" else None)
        if d is None:
            ck.add_violation(f"simulated world for {jid} produced no result (runner died)", rep)
            continue
        rep["choices"] = d.get("choices", [])[:400]
        if d["deadlock"]:
            ck.add_violation(f"{sc} ({var}) on {size} ranks with max_workers={mw} does not terminate: no MPI call can "
                             f"complete; ranks wait in {d['deadlock']}", rep)
            continue
        if d["errors"]:
            eff = min(mw or size, size)
            refusal = sc == "create" and eff < 2 and len(d["errors"]) == size and \
                all("requires at least two workers" in v for v in d["errors"].values())
            if refusal:
                ck.count("refused:two-workers")
                continue
            ck.add_violation(f"{sc} ({var}) on {size} ranks with max_workers={mw}: rank(s) raised {d['errors']}", rep)
            continue
        if d["unreceived"]:
            ck.add_violation(f"{sc} ({var}) on {size} ranks: {len(d['unreceived'])} message(s) were never received "
                             f"({d['unreceived'][:2]})", rep)
            continue
        got, ref = d["results"].get("0"), refs[f"{sc}|{var}"]["results"]["0"]
        if sc == "iter":
            got_c, ref_c = {"results": got["results"]}, {"results": ref["results"]}
        elif sc == "create" and var == "auto":
            got_c, ref_c = {"n": sum(got["num"]), "all": got["all"]}, {"n": sum(ref["num"]), "all": ref["all"]}
        else:
            got_c, ref_c = got, ref
        if got_c != ref_c:
            diff = [k for k in ref_c if got_c.get(k) != ref_c.get(k)]
            ck.add_violation(f"{sc} ({var}) on {size} ranks with max_workers={mw}, {sched['send_mode']} sends: the root's "
                             f"result differs from the single-process result in {diff} "
                             f"(root {json.dumps({k: got_c.get(k) for k in diff})[:160]}, "
                             f"single process {json.dumps({k: ref_c.get(k) for k in diff})[:160]})", rep)
            continue
        # ---- collectives: the call sites every rank went through vs the generated root / worker traces ------------------
        cs = d.get("coll_sites", {})
        # (outside the analysed functions only the KIND has to agree: e.g. the two `Split` calls of WorkerManager.get_comm)
        world_seq = {r: [(k, "-" if (k == "split" or any(x in st for x in COLL_OUTSIDE)) else st) for c, k, st in v
                         if c == "world"] for r, v in cs.items()}
        if len({tuple(v) for v in world_seq.values()}) > 1:
            ck.add_tie_break("ranks went through different collective call sites on the world communicator",
                             {"job": jid, "per_rank": {r: v[:12] for r, v in world_seq.items()}})
        for r, v in cs.items():
            role = "root" if r == "0" else "worker"
            for c, k, st in v:
                if st == "-" or any(x in st for x in COLL_OUTSIDE) or k == "split":
                    continue
                fn, line = st.rsplit("@", 1)
                key = (fn, k, int(line))
                seen_sites.add(key)
                if coll_table and role not in coll_table.get(key, ()):
                    ck.add_tie_break("a collective call site executed in the simulated world is not in the generated trace "
                                     f"of the {role} specialisation", {"job": jid, "rank": r, "site": st, "collective": k})
        # ---- model side: replay the event trace -------------------------------------------------------------------------
        sel = selected(size, mw, names, node_only)
        for kind, line, m in canonicalise(d["trace"], size, sel, sc, p, sched["send_mode"]):
            reqs.append(f"q{len(reqs)} {line}")
            req_meta.append((jid, kind, m, got, rep))
    for j in dfs_jobs:
        d = dfs_results.get(j["id"])
        if d is None:
            ck.add_violation(f"exhaustive schedule enumeration {j['id']} produced no result", {"job": j["id"]})
            continue
        ck.count("dfs:schedules", d["schedules"])
        ck.count("dfs:exhausted" if d["exhausted"] else "dfs:truncated")
        ck.case({"exhaustive": j["id"], "schedules": d["schedules"], "complete": d["exhausted"]}, ("dfs", j["id"]))
        want = sorted(t * t for t in range(j["params"]["ntasks"]))
        for o in d["outcomes"]:
            oc = o["outcome"]
            if oc["d"] or oc["e"] or oc["u"] or (oc["r"] or {}).get("results") != want:
                ck.add_violation(f"exhaustive enumeration of the dispatch protocol on {j['size']} ranks / "
                                 f"{j['params']['ntasks']} task(s), {j['schedule']['send_mode']} sends: {o['count']} of "
                                 f"{d['schedules']} schedules end with {oc}", {"job": j, "bad": d["bad"][:2]})
    if coll_table:
        ck.extra["collective_sites_in_model"] = len(coll_table)
        ck.extra["collective_sites_executed"] = len(seen_sites & set(coll_table))
        ck.extra["collective_sites_never_executed"] = sorted(f"{a}:{b}@{c}" for a, b, c in set(coll_table) - seen_sites)
    ans = ck.driver("GenMpi", reqs)
    if ans is not None:
        for (jid, kind, m, got, rep), a, line in zip(req_meta, ans, reqs):
            ck.count(f"trace:{kind}")
            parts = a.split(" ")
            if parts[0] != "ok" or "??" in line:
                ck.add_tie_break("an event trace of the simulated world is not a run of the Lean protocol model",
                                 {"job": jid, "protocol": kind, "rejected_event": parts[0], "events": line.split(" ", 1)[1][:600]})
                continue
            if kind == "A":
                if parts[1] != "done" or parts[2] != "0":
                    ck.add_tie_break("dispatch round did not end in the model's final state", {"job": jid, "answer": a})
                elif rep["scenario"] == "iter":
                    order = [int(x) for x in parts[3].split(",")] if len(parts) > 3 and parts[3] else []
                    if [t * t for t in order] != got["order"]:
                        ck.add_tie_break("order of yielded results differs from the model", {"job": jid, "model": order,
                                                                                              "impl": got["order"]})
            else:
                stopped, lost = parts[1], parts[2]
                per = parts[3].split("|") if len(parts) > 3 else []
                want = ",".join(map(str, range(m["chunks"])))
                if stopped != "true" or lost != "false" or any(x != want for x in per):
                    ck.add_tie_break("writer protocol: the model did not receive every chunk of every sender",
                                     {"job": jid, "answer": a, "chunks": m["chunks"]})
    return ck.finish()
