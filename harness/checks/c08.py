"""C08 — a crash never leaves a cache that is silently wrong."""
from __future__ import annotations

import os
import warnings
from concurrent.futures import ProcessPoolExecutor
from pathlib import Path

import numpy as np

import catalogs as C
import crash
import fstrace
from core import Check

np.seterr(all="ignore")
warnings.filterwarnings("ignore")

THEOREMS = ["Yaw.C08.safe_of_inv", "Yaw.C08.step_inv", "Yaw.C08.crash_safe", "Yaw.C08.run_inv", "Yaw.C08.view_safe",
            "Yaw.C08.crash_classified", "Yaw.C08.flags", "Yaw.C08.rebuild_without_invalidation_unsafe",
            "Yaw.C08.inplace_ids_unsafe", "Yaw.C08.stale_samples_unsafe", "Yaw.C08.glue_pinned", "Yaw.C08.oldDisk_inv",
            "Yaw.C08.build_accepted", "Yaw.C08.build_crash_safe", "Yaw.C08.finalize_accepted", "Yaw.C08.finalize_crash_safe",
            "Yaw.C08.toFiles_accepted", "Yaw.C08.toFiles_crash_safe"]
RULE = ("workloads (catalog creation on a fresh path with unbounded and with small writer buffers, overwrite of a complete catalog that holds metadata and trees, "
        "metadata computation, tree building on a fresh cache, rebuild with another binning of equal / different bin "
        "count / unbinned <-> binned / forced, CorrFunc -> HDF5 and CorrData / RedshiftData / HistData -> text files on "
        "a fresh path and over older files) executed by the real code under strace; EVERY prefix of the recorded "
        "mkdir / creat / write / unlink / rmdir / rename sequence is materialised byte-exactly and the real loaders "
        "(Catalog(cache), load_data, metadata, crosscorrelate in binned role with each binning and in unbinned role, "
        "from_file / from_files) run on it; every component must raise or equal the value on the old or on the "
        "completed state, all components agreeing on one of them; the same op sequence is replayed through the Lean "
        "discipline `allowed` and the model's prediction per prefix is compared. non-trivial: a prefix strictly inside "
        "the workload; distinct by (workload, prefix index)")

CENT = np.array([[0.1, 0.0], [0.3, 0.1], [0.2, -0.2]])
BINNINGS = {1: ([0.1, 0.5, 1.0], "right"), 2: ([0.1, 0.4, 1.0], "right"), 3: ([0.1, 0.3, 0.6, 1.0], "right"),
            4: ([0.1, 0.5, 1.0], "left")}


def bin_spec(b):
    if b == 0:
        return None
    e, c = BINNINGS[b]
    return {"edges": e, "closed": c}


def marker_id(raw: bytes):
    """decode the bytes of a binning marker to the model's binning id (None: partial / unknown)"""
    if len(raw) == 0:
        return 0                # reads as 'unbinned'
    closed = "left" if raw[0] else "right"
    if (len(raw) - 1) % 8:
        return None
    edges = np.frombuffer(raw[1:], dtype=np.float64).tolist()
    if not edges:
        return 0
    for k, (e, c) in BINNINGS.items():
        if e == edges and c == closed:
            return k
    return None


def cols(n, seed, ncent=3):
    r = np.random.default_rng(seed)
    cc = CENT[np.arange(n) % ncent]
    return dict(ra=(cc[:, 0] + r.uniform(-.03, .03, n)).tolist(), dec=(cc[:, 1] + r.uniform(-.03, .03, n)).tolist(),
                z=r.uniform(0.1, 1, n).tolist(), w=r.choice([1., 2.], n).tolist())


# ---- canonicalisation of a recorded trace to the model's op alphabet ---------------------------------------------------

class Unmodelled(Exception):
    pass


def canonicalise(ops, root: Path, prior: fstrace.VFS, *, trees_bin: int, text_prefix: str | None = None,
                 blob_complete_at: int | None = None):
    """real ops -> model op tokens (one per real op).  `trees_bin`: the binning the workload builds trees for."""
    root = str(root)
    n = len(ops)
    # a write completes its file when the content equals what the file holds at the end of its life in this trace
    # (before it is recreated / removed / renamed, or at the end of the trace); trailing idempotent writes (HDF5
    # rewrites its superblock) keep it complete
    last = [False] * n
    sim = prior.copy()
    epoch_writes: dict[str, list] = {}

    def close_epoch(path):
        ws = epoch_writes.pop(path, [])
        if ws:
            final_bytes = ws[-1][1]
            for i, content in ws:
                if content == final_bytes and all(c == final_bytes for j, c in ws if j >= i):
                    last[i] = True
    for i, op in enumerate(ops):
        if op[0] in ("creat", "unlink", "truncate"):
            close_epoch(op[1])
        elif op[0] == "rename":
            close_epoch(op[1])
            close_epoch(op[2])
        sim.apply(op)
        if op[0] == "write":
            epoch_writes.setdefault(op[1], []).append((i, bytes(sim.nodes[sim.rel(op[1])])))
    for path in list(epoch_writes):
        close_epoch(path)
    # names of temporary files = sources of a rename onto a marker
    role_alias = {}
    for op in ops:
        if op[0] == "rename":
            role_alias[op[1]] = op[2]
    state = prior.copy()
    out = []

    def role(path):
        rel = os.path.relpath(path, root)
        tmp = False
        if path in role_alias:
            rel = os.path.relpath(role_alias[path], root)
            tmp = True
        parts = rel.split(os.sep)
        if rel == ".":
            return ("root", None, tmp)
        if len(parts) == 1:
            if parts[0] == "patch_ids.bin":
                return ("ids", None, tmp)
            if parts[0].startswith("patch_") and parts[0][6:].isdigit():
                return ("patchdir", int(parts[0][6:]), tmp)
            if text_prefix is not None:
                for ext, r in ((".dat", "dat"), (".smp", "smp"), (".cov", "cov"), (".hdf5", "hdf")):
                    if parts[0] == text_prefix + ext:
                        return (r, None, tmp)
            raise Unmodelled(f"file {rel}")
        if len(parts) == 2 and parts[0].startswith("patch_") and parts[0][6:].isdigit():
            p = int(parts[0][6:])
            r = {"data.bin": "data", "meta.yml": "meta", "trees.pkl": "trees", "binning": "marker"}.get(parts[1])
            if r is None:
                raise Unmodelled(f"file {rel}")
            return (r, p, tmp)
        raise Unmodelled(f"path {rel}")

    for i, op in enumerate(ops):
        kind = op[0]
        r, p, tmp = role(op[1])
        lt = "1" if last[i] else "0"
        if kind == "mkdir":
            tok = "otherResult" if r == "root" else f"mkPatch {p}"
            if r not in ("root", "patchdir"):
                raise Unmodelled(f"mkdir {op[1]}")
        elif kind == "rmdir":
            tok = "otherResult" if r == "root" else f"rmPatch {p}"
        elif kind == "unlink":
            tok = {"ids": "unlinkItmp" if tmp else "unlinkIds", "data": f"unlinkData {p}", "meta": f"unlinkMeta {p}",
                   "trees": f"unlinkTrees {p}", "marker": f"unlinkMtmp {p}" if tmp else f"unlinkMarker {p}",
                   "smp": "unlinkSmp", "dat": "unlinkDat", "cov": "otherResult"}.get(r)
            if tok is None:
                raise Unmodelled(f"unlink {op[1]}")
        elif kind == "creat":
            tok = {"ids": "creatItmp" if tmp else "creatIds", "data": f"creatData {p}", "meta": f"creatMeta {p}",
                   "trees": f"creatTrees {p}", "marker": f"creatMtmp {p}" if tmp else f"creatMarker {p}",
                   "dat": "creatDat", "smp": "creatSmp", "cov": "otherResult", "hdf": "creatHdf"}.get(r)
            if tok is None:
                raise Unmodelled(f"creat {op[1]}")
            if r == "data" and state.rel(op[1]) in state.nodes:
                raise Unmodelled("an existing data file is reopened for writing")
        elif kind == "write":
            state_after = None
            if r in ("ids", "marker") and last[i]:
                tmpv = state.copy()
                tmpv.apply(op)
                state_after = bytes(tmpv.nodes[tmpv.rel(op[1])])
            if r == "ids":
                if last[i]:
                    ps = np.frombuffer(state_after, dtype=np.int16).tolist() if len(state_after) % 2 == 0 else []
                else:
                    ps = []
                tok = f"{'writeItmp' if tmp else 'writeIds'} 1 {len(ps)} {' '.join(map(str, ps))} {lt}".replace("  ", " ")
            elif r == "marker":
                b = trees_bin
                if last[i]:
                    b = marker_id(state_after)
                    if b is None:
                        raise Unmodelled("marker content does not decode to a known binning")
                tok = f"{'writeMtmp' if tmp else 'writeMarker'} {p} {b} {lt}"
            elif r == "data":
                tok = f"writeData {p} 1 {lt}"
            elif r == "meta":
                tok = f"writeMeta {p} {lt}"
            elif r == "trees":
                tok = f"writeTrees {p} {trees_bin} {lt}"
            elif r == "dat":
                tok = f"writeDat 1 {lt}"
            elif r == "smp":
                tok = f"writeSmp {lt}"
            elif r == "cov":
                tok = "otherResult"
            elif r == "hdf":
                # an HDF5 file is a blob to the model: 'complete' from the first prefix the library reads it back
                done = last[i] if blob_complete_at is None else (i + 1 >= blob_complete_at)
                tok = f"writeHdf 1 {'1' if done else '0'}"
            else:
                raise Unmodelled(f"write {op[1]}")
        elif kind == "rename":
            r2, p2, _ = role(op[2])
            if r2 == "ids" and tmp:
                tok = "renameIds"
            elif r2 == "marker" and tmp:
                tok = f"renameMarker {p2}"
            else:
                raise Unmodelled(f"rename {op[1]} -> {op[2]}")
        else:
            raise Unmodelled(kind)
        out.append(tok)
        state.apply(op)
    return out


def model_disk(prior: fstrace.VFS, *, trees_bin_prior: int | None, text_prefix: str | None):
    """the prior state in the model's terms (everything present is complete and of version 0)"""
    nodes = prior.nodes
    ids = "a"
    if "patch_ids.bin" in nodes:
        ps = np.frombuffer(bytes(nodes["patch_ids.bin"]), dtype=np.int16).tolist()
        ids = f"f 0 {len(ps)} {' '.join(map(str, ps))}".strip()
    patches = sorted({int(k.split(os.sep)[0][6:]) for k in nodes if k.startswith("patch_") and k.split(os.sep)[0][6:].isdigit()})
    toks = [ids, "a", str(len(patches))]
    for p in patches:
        d = f"patch_{p}"
        data = "f 0" if f"{d}/data.bin" in nodes else "a"
        meta = "f 0" if f"{d}/meta.yml" in nodes else "a"
        marker = "a"
        if f"{d}/binning" in nodes:
            b = marker_id(bytes(nodes[f"{d}/binning"]))
            marker = f"f {b}"
        trees = "a"
        if f"{d}/trees.pkl" in nodes:
            trees = f"f 0 {trees_bin_prior}"
        toks += [str(p), data, meta, trees, marker, "a"]
    for ext in (".dat", ".smp", ".hdf5"):
        toks.append("f 0" if text_prefix is not None and (text_prefix + ext) in nodes else "a")
    return " ".join(toks)


# ---- observation of one prefix state (worker process) -----------------------------------------------------------------

def _observe_catalog(args):
    nodes, vroot, probe, rand, bins = args
    v = fstrace.VFS(vroot)
    v.nodes = nodes
    probe = Path(probe)

    import shutil
    own_rand = Path(str(probe) + "_rand")      # measurements write trees into both catalogs: no sharing between workers

    def restore():
        crash.fresh_dir(probe)
        v.dump(probe)
        crash.fresh_dir(own_rand)
        shutil.copytree(rand, own_rand)
    restore()
    obs = crash.observe_catalog(probe, own_rand, [None if b == 0 else BINNINGS[b] for b in bins], restore)
    crash.fresh_dir(probe)
    crash.fresh_dir(own_rand)
    # metadata totals belong to 'open'
    if not crash.is_err(obs.get("open")):
        m = obs.pop("meta", None)
        obs["open"] = m if crash.is_err(m) else (obs["open"], m)
    return obs


def _observe_results(args):
    nodes, vroot, probe, kind, target = args
    v = fstrace.VFS(vroot)
    v.nodes = nodes
    probe = crash.fresh_dir(Path(probe))
    v.dump(probe)
    import yaw
    from yaw import CorrFunc

    def read():
        if kind == "hdf":
            cf = CorrFunc.from_file(probe / target)
            return tuple((k, x.counts.counts.tobytes(), x.sum_weights.sum_weights1.tobytes()) for k, x in cf.to_dict().items())
        cls = getattr(yaw, kind)
        cd = cls.from_files(probe / target)
        return (cd.data.tobytes(), cd.samples.tobytes(), cd.binning.edges.tobytes(), str(cd.binning.closed))
    out = {"read": crash.attempt(read)}
    crash.fresh_dir(probe)
    return out


def run(prop, tier, seed, replay):
    ck = Check(prop, tier, seed, kernels=["k_crash", "k_cache", "k_creation"],
               # (the marker of a complete catalog is written on a CLEAN exit of the writer only — the flags of the creation
               #  protocol, proved for C09, are an obligation here as well: a writer that finalises after a failure leaves a
               #  truncated cache that opens silently)
               theorems=THEOREMS + ["Yaw.C09.flags", "Yaw.C09.outcome"], lean_modules=["YawVerif.Props.C08", "YawVerif.Props.C09"],
               rule=RULE, level="proof",
               assumptions=["a crash leaves exactly the effects of a prefix of the recorded system calls (no reordering by the "
                            "OS / no power loss); a partially written pickle, YAML, HDF5 or text file does not parse "
                            "(validated on every prefix); rename is atomic",
                            "PARTIAL: strace records the calls of the sequential code path (plus the parallel creation in the "
                            "thorough tier); the HDF5 library's write order is observed, not modelled"])
    ck.translate()
    ck.lean_check()
    rng = ck.rng
    root = C.scratch_root()
    from yaw import AngularCoordinates
    with C.Workers(1):
        rc = cols(60, 990 + seed)
        C.make_catalog(root / "rand", rc["ra"], rc["dec"], z=rc["z"], centers=AngularCoordinates(CENT))
    bins = [1, 2, 0] if tier == "quick" else [1, 2, 0, 3, 4]
    d_old, d_new = cols(30, 10 + seed), cols(36, 20 + seed)
    chunk = rng.choice([7, 12, 20])
    create_old = dict(kind="create", chunksize=chunk, centres=CENT.tolist(), columns=d_old)
    create_new = dict(kind="overwrite", chunksize=chunk, centres=CENT.tolist(), columns=d_new)

    def build(b, force=False):
        return dict(kind="build", binning=bin_spec(b), force=force)

    # (name, prior workloads, prior trees binning, traced workload, binning the workload builds)
    cat_workloads = [
        ("create", [], None, dict(create_old, columns=d_new), 0),
        ("overwrite", [create_old, build(1)], 1, create_new, 0),
        ("create-buffered", [], None, dict(create_old, columns=d_new, buffersize=7), 0),
        ("metadata", [create_old, "drop-meta"], None, dict(kind="open"), 0),
        ("build-fresh", [create_old], None, build(1), 1),
        ("rebuild-same-count", [create_old, build(1)], 1, build(2), 2),
        ("rebuild-to-unbinned", [create_old, build(1)], 1, build(0), 0),
        ("rebuild-from-unbinned", [create_old, build(0)], 0, build(1), 1),
        ("rebuild-forced", [create_old, build(1)], 1, build(1, True), 1),
        # a FORCED rebuild for another binning (the cached marker is not consulted for the decision — it must be invalidated anyway)
        ("rebuild-forced-other-binning", [create_old, build(1)], 1, build(2, True), 2),
    ]
    if tier == "thorough":
        cat_workloads += [
            ("rebuild-other-count", [create_old, build(1)], 1, build(3), 3),
            ("rebuild-other-closed", [create_old, build(1)], 1, build(4), 4),
            ("overwrite-parallel", [create_old, build(2)], 2, dict(create_new, workers=2), 0),
            ("create-small-buffer", [], None, dict(create_old, columns=d_new, chunksize=5), 0),
        ]
    reqs, pending = [], []
    pool = ProcessPoolExecutor(max_workers=min(12, os.cpu_count() or 4))
    from concurrent.futures import ThreadPoolExecutor

    def prepare(item):
        """prior state (untraced, one process) and traced workload, in a directory of its own"""
        name, priors, tb_prior, spec, tb = item
        cache = crash.fresh_dir(root / f"w_{name}") / "cat"
        cache.parent.mkdir()
        if priors:
            crash.run_workload(dict(kind="steps", steps=priors, cache=str(cache)), [root], traced=False)
        prior = fstrace.VFS.load(cache)
        try:
            ops = crash.run_workload(dict(spec, cache=str(cache)), [cache])
        except fstrace.TraceError as e:
            return cache, prior, None, str(e)
        return cache, prior, ops, None

    try:
        with ThreadPoolExecutor(max_workers=8) as tp:
            prepared = list(tp.map(prepare, cat_workloads))
        for (name, priors, tb_prior, spec, tb), (cache, prior, ops, err) in zip(cat_workloads, prepared):
            if ops is None:
                ck.add_tie_break("the system-call trace could not be interpreted", {"workload": name, "error": err})
                continue
            replayed = prior.copy()
            for op in ops:
                replayed.apply(op)
            if not replayed.same_as_dir(cache):
                ck.add_tie_break("replaying the recorded operations does not reproduce the directory", {"workload": name})
                continue
            states = [(k, v.copy()) for k, v in crash.prefixes(prior, ops)]
            jobs = [(v.nodes, v.root, str(root / f"probe_{name}_{k}"), str(root / "rand"), bins) for k, v in states]
            obs = list(pool.map(_observe_catalog, jobs))
            old, new = obs[0], obs[-1]
            rep_base = {"workload": name, "prior": [p if isinstance(p, str) else {k: v for k, v in p.items() if k != "columns"}
                                                    for p in priors],
                        "spec": {k: v for k, v in spec.items() if k != "columns"}, "data_seed": [10 + seed, 20 + seed],
                        "ops": [crash.show_op(o, cache) for o in ops]}
            for (k, _), o in zip(states, obs):
                cls, detail = crash.classify(o, old, new)
                ck.count(f"workload={name}")
                ck.count(f"class={cls}")
                ck.case({"workload": name, "prefix": k, "class": cls} if len(ck.samples) < 4 and 0 < k < len(ops) else None,
                        (name, k) if 0 < k < len(ops) else None)
                if cls == "BAD":
                    ck.add_violation(f"workload '{name}' interrupted after operation {k} of {len(ops)} "
                                     f"({crash.show_op(ops[k - 1], cache) if k else '-'}): {detail}; raising components: "
                                     f"{ {kk: vv[1] for kk, vv in o.items() if crash.is_err(vv)} }",
                                     dict(rep_base, prefix=k))
            # the final state must be the completed one and usable
            if any(crash.is_err(v) for v in new.values()):
                ck.add_violation(f"workload '{name}' completed but the cache does not work: "
                                 f"{ {kk: vv[1] for kk, vv in new.items() if crash.is_err(vv)} }", rep_base)
            # model side
            try:
                toks = canonicalise(ops, cache, prior, trees_bin=tb)
                disk = model_disk(prior, trees_bin_prior=tb_prior, text_prefix=None)
            except Unmodelled as e:
                ck.add_tie_break("a file-system operation of the workload is not in the model's alphabet",
                                 {"workload": name, "what": str(e)})
                continue
            reqs.append(f"{name} crash {disk} {len(bins)} {' '.join(map(str, bins))} {len(toks)} {' '.join(toks)}")
            pending.append((name, "cat", obs, old, new, toks, rep_base))

        # ---- result files ----------------------------------------------------------------------------------------------
        res_workloads = [("CorrData", 3, 4), ("CorrData", 30, 40)] if tier == "quick" else \
            [("CorrData", 3, 4), ("CorrData", 30, 40), ("RedshiftData", 5, 3), ("HistData", 12, 25), ("CorrData", 1, 2)]
        with C.Workers(1):
            import yaw
            from yaw import Configuration
            conf = Configuration.create(rmin=0.005, rmax=0.08, unit="rad", edges=[0.1, 0.4, 0.7, 1.0])
            srcs = []
            for i, sd in enumerate((30 + seed, 40 + seed)):
                c, r = cols(40, sd), cols(80, sd + 5)
                cd = C.make_catalog(root / f"d{i}", c["ra"], c["dec"], z=c["z"], w=c["w"], centers=AngularCoordinates(CENT))
                cr = C.make_catalog(root / f"r{i}", r["ra"], r["dec"], z=r["z"], centers=AngularCoordinates(CENT))
                cf = yaw.autocorrelate(conf, cd, cr, count_rr=True)[0]
                cf.to_file(root / f"src{i}.hdf5")
                srcs.append(str(root / f"src{i}.hdf5"))
        items = []
        for cls, nb, ns in res_workloads:
            for prior_kind in ("fresh", "older-same-shape", "older-other-shape"):
                shape = (nb, ns) if prior_kind == "older-same-shape" else (nb + 1, ns + 2)
                items.append((f"text-{cls}-{nb}x{ns}-{prior_kind}", cls,
                              None if prior_kind == "fresh" else dict(kind="synth", cls=cls, seed=100 + seed, bins=shape[0],
                                                                      samples=shape[1]),
                              dict(kind="synth", cls=cls, seed=200 + seed, bins=nb, samples=ns), "res"))
        # a path prefix whose file name contains a dot (e.g. a redshift in the name): every file of the product must be
        # derived from the prefix in ONE way, or the invalidation misses the file it is meant for
        cls0, nb0, ns0 = res_workloads[0]
        items.append((f"text-{cls0}-{nb0}x{ns0}-dotted-prefix-older-same-shape", cls0,
                      dict(kind="synth", cls=cls0, seed=100 + seed, bins=nb0, samples=ns0),
                      dict(kind="synth", cls=cls0, seed=200 + seed, bins=nb0, samples=ns0), "nz_z0.5"))
        for prior_kind in ("fresh", "older"):
            items.append((f"hdf5-{prior_kind}", "hdf", None if prior_kind == "fresh" else dict(kind="corrfunc", source=srcs[0]),
                          dict(kind="corrfunc", source=srcs[1]), "res.hdf5"))

        def prepare_res(item):
            name, cls, prior_spec, spec, target = item
            out = crash.fresh_dir(root / f"w_{name}")
            out.mkdir()
            if prior_spec is not None:
                crash.run_workload(dict(prior_spec, target=str(out / target)), [root], traced=False)
            prior = fstrace.VFS.load(out)
            try:
                ops = crash.run_workload(dict(spec, target=str(out / target)), [out])
            except fstrace.TraceError as e:
                return out, prior, None, str(e)
            return out, prior, ops, None

        with ThreadPoolExecutor(max_workers=8) as tp:
            prepared = list(tp.map(prepare_res, items))
        for (name, cls, prior_spec, spec, target), (out, prior, ops, err) in zip(items, prepared):
            if ops is None:
                ck.add_tie_break("the system-call trace could not be interpreted", {"workload": name, "error": err})
                continue
            fam = "hdf" if cls == "hdf" else "text"
            states = [(k, v.copy()) for k, v in crash.prefixes(prior, ops)]
            jobs = [(v.nodes, v.root, str(root / f"probe_{name}_{k}"), cls, target) for k, v in states]
            obs = list(pool.map(_observe_results, jobs))
            old, new = obs[0], obs[-1]
            rep_base = {"workload": name, "ops": [crash.show_op(o, out) for o in ops], "seeds": [100 + seed, 200 + seed]}
            for (k, _), o in zip(states, obs):
                c, detail = crash.classify(o, old, new)
                ck.count(f"workload={fam}")
                ck.count(f"class={c}")
                ck.case(None, (name, k) if 0 < k < len(ops) else None)
                if c == "BAD":
                    ck.add_violation(f"workload '{name}' interrupted after operation {k} of {len(ops)} "
                                     f"({crash.show_op(ops[k - 1], out) if k else '-'}): reading the result back returns "
                                     "something that is neither the older nor the new result", dict(rep_base, prefix=k))
            if crash.is_err(new["read"]):
                ck.add_violation(f"workload '{name}' completed but the result cannot be read back ({new['read'][1]})", rep_base)
            try:
                first_ok = None
                if fam == "hdf":
                    first_ok = next((k for k, o in enumerate(obs) if k > 0 and not crash.is_err(o["read"]) and o == new), None)
                # the on-disk prefix is read off the completed workload (how the library derives file names from a dotted
                # prefix is its own business, as long as writer, invalidation and reader agree)
                tp_ = "res"
                if fam == "text":
                    dats = sorted(n for n in states[-1][1].nodes if str(n).endswith(".dat") and "/" not in str(n).strip("/"))
                    if dats:
                        tp_ = str(dats[0]).strip("/")[:-4]
                toks = canonicalise(ops, out, prior, trees_bin=0, text_prefix=tp_, blob_complete_at=first_ok)
                disk = model_disk(prior, trees_bin_prior=None, text_prefix=tp_)
            except Unmodelled as e:
                ck.add_tie_break("a file-system operation of the workload is not in the model's alphabet",
                                 {"workload": name, "what": str(e)})
                continue
            reqs.append(f"{name} crash {disk} 0 {len(toks)} {' '.join(toks)}")
            pending.append((name, fam, obs, old, new, toks, rep_base))
    finally:
        pool.shutdown()
        C.remove(root)

    # ---- model vs implementation ---------------------------------------------------------------------------------------
    ans = ck.driver("GenCrash", reqs)
    if ans is not None:
        for (name, fam, obs, old, new, toks, rep_base), a in zip(pending, ans):
            acc, _, views = a.partition("|")
            acc = acc.split("=")[1]
            if acc != "ok":
                k = int(acc)
                ck.add_tie_break("the workload's operation order violates the write discipline of the model "
                                 "(theorem crash_safe no longer applies)",
                                 {"workload": name, "rejected_op_index": k, "op": toks[k], "ops": rep_base["ops"][:k + 1][-6:]})
                continue
            per_prefix = views.split(";")
            if len(per_prefix) != len(obs):
                ck.add_tie_break("model and trace disagree on the number of crash points", {"workload": name})
                continue
            for k, (line, o) in enumerate(zip(per_prefix, obs)):
                fo, fr_, fm, ft, fh = line.split(" ")
                if fam == "cat":
                    comps = [("open", fo, 0)] + [("records", fr_, 0)] + \
                            [(f"measure{i}", m, None) for i, m in enumerate(fm.split(","))]
                elif fam == "text":
                    comps = [("read", ft, 0)]
                else:
                    comps = [("read", fh, 0)]
                for comp, pred, _ in comps:
                    if comp not in o:          # nothing else is observable when the catalog does not open
                        continue
                    real = o[comp]
                    if pred == "G":
                        continue
                    if pred == "E":
                        ok = crash.is_err(real)
                    else:
                        v = int(pred.split(":")[0])
                        ref = (old, new)[v].get(comp)
                        ok = (not crash.is_err(real)) and ref is not None and real == ref
                    ck.count("model-vs-impl")
                    if not ok:
                        ck.add_tie_break("model prediction for a crash point differs from the real loaders",
                                         {"workload": name, "prefix": k, "component": comp, "model": pred,
                                          "impl": "error:" + real[1] if crash.is_err(real) else "value",
                                          "after": rep_base["ops"][k - 1] if k else "-"})
                        break
    return ck.finish()
