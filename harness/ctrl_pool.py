"""
A controlled stand-in for `multiprocessing.Pool` in catalog creation (C02 / C09): tasks run in-process, in an order the
harness chooses.  The blocking calls (`map`, `imap`, `imap_unordered` when consumed) complete their tasks in the chosen
order before they return.  The asynchronous calls (`map_async`, `apply_async`) return a handle whose tasks complete
only when somebody WAITS for the handle (`get` / `wait`) — the adversarial but legal schedule "a task nobody waits for
finishes after everything else"; tasks still not run when the pool is left (`terminate` / `__exit__`) are lost, as
`Pool.terminate` does with unfinished work.
"""
from __future__ import annotations

import pickle


class _Lazy:
    def __init__(self, pool, func, items, single=False):
        self.pool, self.func, self.items, self.single = pool, func, list(items), single
        self.done, self.result = False, None

    def _run(self):
        if not self.done:
            if self.pool.closed:
                raise ValueError("Pool not running")
            res = self.pool._run(self.func, self.items)
            self.result = res[0] if self.single else res
            self.done = True

    def get(self, timeout=None):
        self._run()
        return self.result

    def wait(self, timeout=None):
        self._run()

    def ready(self):
        return self.done

    def successful(self):
        return self.done


class CtrlPool:
    order = staticmethod(lambda n: list(range(n)))   # delivery order of the tasks of one call
    log = []
    dropped = 0

    def __init__(self, processes=None, *a, **k):
        self.processes = processes
        self.closed = False
        self.pending = []

    def __enter__(self):
        return self

    def __exit__(self, *a):
        self.terminate()
        return False

    def terminate(self):
        CtrlPool.dropped += sum(1 for h in self.pending if not h.done)
        self.closed = True

    def close(self):
        # close() + join() waits for outstanding work
        for h in self.pending:
            h._run()
        self.closed = True

    def join(self):
        pass

    def _run(self, func, items):
        perm = list(CtrlPool.order(len(items)))
        assert sorted(perm) == list(range(len(items)))
        CtrlPool.log.append(perm)
        out = [None] * len(items)
        for i in perm:
            out[i] = func(pickle.loads(pickle.dumps(items[i])))
        return out

    def map(self, func, iterable, chunksize=None):
        return self._run(func, list(iterable))

    def starmap(self, func, iterable, chunksize=None):
        return self._run(lambda a: func(*a), list(iterable))

    def imap(self, func, iterable, chunksize=1):
        yield from self._run(func, list(iterable))

    def imap_unordered(self, func, iterable, chunksize=1):
        items = list(iterable)
        res = self._run(func, items)
        for i in CtrlPool.log[-1]:
            yield res[i]

    def map_async(self, func, iterable, chunksize=None, callback=None, error_callback=None):
        h = _Lazy(self, func, iterable)
        self.pending.append(h)
        return h

    def apply_async(self, func, args=(), kwds=None, callback=None, error_callback=None):
        h = _Lazy(self, lambda a: func(*a, **(kwds or {})), [args], single=True)
        self.pending.append(h)
        return h

    def apply(self, func, args=(), kwds=None):
        return func(*args, **(kwds or {}))
