"""Seeded generators of small sky catalogs sharing patch centres (C01 C05 C07 C12 C13)."""
from __future__ import annotations

import numpy as np


def from_vec(v):
    v = np.asarray(v, dtype=float)
    v = v / np.linalg.norm(v, axis=-1, keepdims=True)
    ra = np.arctan2(v[..., 1], v[..., 0]) % (2.0 * np.pi)
    dec = np.arcsin(np.clip(v[..., 2], -1.0, 1.0))
    return ra, dec


def to_vec(ra, dec):
    cd = np.cos(dec)
    return np.stack([np.cos(ra) * cd, np.sin(ra) * cd, np.sin(dec)], axis=-1)


def tangent_basis(c):
    ref = np.array([0.0, 0.0, 1.0]) if abs(c[2]) < 0.9 else np.array([1.0, 0.0, 0.0])
    e1 = np.cross(ref, c)
    e1 /= np.linalg.norm(e1)
    e2 = np.cross(c, e1)
    return e1, e2


def scatter(nprng, centre_vec, extent, n):
    """n points within angular radius `extent` of the centre (uniform in the tangent disc)"""
    e1, e2 = tangent_basis(centre_vec)
    r = extent * np.sqrt(nprng.uniform(0, 1, n))
    phi = nprng.uniform(0, 2 * np.pi, n)
    pts = (np.cos(r)[:, None] * centre_vec[None, :]
           + np.sin(r)[:, None] * (np.cos(phi)[:, None] * e1[None, :] + np.sin(phi)[:, None] * e2[None, :]))
    return pts


BASES = {
    "equator": (1.0, 0.1),
    "ra_wrap": (0.0, -0.2),       # patches straddle RA = 0 / 2 pi
    "north_pole": (2.0, np.pi / 2 - 0.05),
    "south_pole": (4.0, -np.pi / 2 + 0.02),
    "mid": (3.5, 0.9),
}


def make_field(rng, *, num_patches=None, base=None, spread=None):
    """patch centres around a base position; returns dict(centres_vec, ra, dec)"""
    nprng = np.random.default_rng(rng.randrange(2 ** 32))
    base = base or rng.choice(sorted(BASES))
    N = num_patches or rng.choice([1, 2, 3, 4, 5, 6])
    spread = spread or rng.choice([0.05, 0.15, 0.4])
    b = to_vec(*BASES[base])
    cents = scatter(nprng, b, spread, N)
    ra, dec = from_vec(cents)
    return dict(base=base, N=N, spread=spread, vec=to_vec(ra, dec), ra=ra, dec=dec, nprng=nprng)


def make_sample(rng, field, *, n, extent_mode, zrange, edges=None, weights=True, z_on_edges=0.2):
    """objects scattered around the field's centres; patch id = generating centre"""
    nprng = field["nprng"]
    N = field["N"]
    if extent_mode == "compact":
        ext = [0.01] * N
    elif extent_mode == "wide":
        ext = [0.08] * N
    elif extent_mode == "arcsec":
        ext = [1.5e-5] * N        # a few arc seconds
    elif extent_mode == "hemisphere":
        ext = [1.55] * N          # objects anywhere in the half of the sky around their centre
    else:  # mixed: patches of very different extent
        ext = [rng.choice([0.004, 0.02, 0.1]) for _ in range(N)]
    pid = np.array([i % N for i in range(n)])
    rng.shuffle(pid_list := list(pid))
    pid = np.array(pid_list)
    pts = np.zeros((n, 3))
    for i in range(N):
        sel = np.where(pid == i)[0]
        if len(sel):
            pts[sel] = scatter(nprng, field["vec"][i], ext[i], len(sel))
    ra, dec = from_vec(pts)
    z = nprng.uniform(zrange[0], zrange[1], n)
    if edges is not None:
        on = nprng.uniform(0, 1, n) < z_on_edges
        z[on] = nprng.choice(np.asarray(edges), on.sum())
    w = nprng.choice([1.0, 2.0, 3.0, 5.0], n) if weights else None
    return dict(ra=ra, dec=dec, z=z, w=w, patch=pid, extent=ext)
