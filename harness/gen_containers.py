"""Seeded generators for pair-count containers (C03 C04 C17 C11) and their request encoding."""
from __future__ import annotations

import numpy as np

from core import fr


def rand_binning(rng, B: int, closed: str | None = None):
    from yaw.binning import Binning
    lo = rng.choice([0.0, 0.01, 0.1, 0.5])
    widths = [rng.choice([0.05, 0.1, 0.125, 0.25, 0.3]) for _ in range(B)]
    edges = np.concatenate([[lo], lo + np.cumsum(widths)])
    return Binning(edges, closed=closed or rng.choice(["left", "right"]))


def rand_counts(rng, B: int, N: int, auto: bool, sparsity: float):
    """integer (half-integer on the auto diagonal) pair counts, exactly representable"""
    c = np.zeros((B, N, N))
    for b in range(B):
        for i in range(N):
            for j in range(N):
                if auto and j < i:
                    continue
                if rng.random() < sparsity:
                    continue
                v = rng.choice([1, 2, 3, 7, 10, 100, 999, rng.randrange(1, 5000)])
                if auto and i == j and rng.random() < 0.5:
                    v = v * 0.5
                c[b, i, j] = v
    return c


def rand_weights(rng, B: int, N: int, zero_prob: float = 0.05):
    w = np.zeros((B, N))
    for b in range(B):
        for i in range(N):
            if rng.random() < zero_prob:
                continue
            w[b, i] = rng.choice([1, 2, 5, 10, 17, rng.randrange(1, 300)])
    return w


def make_nc(binning, counts, w1, w2, auto: bool):
    from yaw.correlation.paircounts import NormalisedCounts, PatchedCounts, PatchedSumWeights
    return NormalisedCounts(
        PatchedCounts(binning, counts.copy(), auto=auto),
        PatchedSumWeights(binning, w1.copy(), w2.copy(), auto=auto),
    )


def rand_nc(rng, binning, N: int, auto: bool, sparsity: float, w1=None, w2=None):
    B = len(binning)
    counts = rand_counts(rng, B, N, auto, sparsity)
    if w1 is None:
        w1 = rand_weights(rng, B, N)
    if w2 is None:
        w2 = w1 if auto else rand_weights(rng, B, N)
    return make_nc(binning, counts, w1, w2, auto)


def enc_nc(nc) -> str:
    """`auto counts(B*N*N) w1(B*N) w2(B*N)` with exact rationals"""
    c = nc.counts.counts
    toks = ["1" if nc.auto else "0"]
    toks += [fr(x) for x in c.ravel()]
    toks += [fr(x) for x in nc.sum_weights.sum_weights1.ravel()]
    toks += [fr(x) for x in nc.sum_weights.sum_weights2.ravel()]
    return " ".join(toks)


def rand_corrfunc_parts(rng, *, N=None, B=None, auto=None, mask=None, sparsity=None):
    """random dd/dr/rd/rr containers shaped like the output of auto-/crosscorrelate"""
    N = N or rng.choice([1, 2, 2, 3, 4, 5, 7])
    B = B or rng.choice([1, 1, 2, 3, 5])
    auto = rng.random() < 0.4 if auto is None else auto
    mask = rng.randrange(0, 8) if mask is None else mask
    sparsity = rng.choice([0.0, 0.2, 0.6, 0.9]) if sparsity is None else sparsity
    binning = rand_binning(rng, B)
    wd1 = rand_weights(rng, B, N)
    wd2 = wd1 if auto else rand_weights(rng, B, N)
    wr1 = rand_weights(rng, B, N, 0.0) * 3
    wr2 = wr1 if auto else rand_weights(rng, B, N, 0.0) * 3
    parts = {"dd": rand_nc(rng, binning, N, auto, sparsity, wd1, wd2)}
    # mixed terms of an autocorrelation are cross-style (data x random)
    if mask & 1:
        parts["dr"] = rand_nc(rng, binning, N, False, sparsity, wd1, wr2 if not auto else wr1)
    if mask & 2:
        parts["rd"] = rand_nc(rng, binning, N, False, sparsity, wr1, wd2)
    if mask & 4:
        parts["rr"] = rand_nc(rng, binning, N, auto, sparsity, wr1, wr2)
    return dict(N=N, B=B, auto=auto, mask=mask, binning=binning, parts=parts)


def negate_data_patch(case, p: int):
    """the data sample's patch `p` carries NEGATIVE weights (a subtracted / down-weighted component): its row (and, for an
    autocorrelation, column) of counts and its weight sums change sign consistently; leave-one-out sums can then be negative"""
    auto = case["auto"]
    for k, nc in list(case["parts"].items()):
        c = nc.counts.counts.copy()
        w1, w2 = nc.sum_weights.sum_weights1.copy(), nc.sum_weights.sum_weights2.copy()
        if k in ("dd", "dr"):
            c[:, p, :] *= -1
            w1[:, p] *= -1
        if auto and k in ("dd", "rd"):
            c[:, :, p] *= -1
            w2[:, p] *= -1
        case["parts"][k] = make_nc(nc.binning, c, w1, w2, nc.auto)
    return case


def enc_cf(rid: str, case) -> str:
    p = case["parts"]
    toks = [rid, "cf", str(case["N"]), str(case["B"]), str(case["mask"]), enc_nc(p["dd"])]
    for k in ("dr", "rd", "rr"):
        if k in p:
            toks.append(enc_nc(p[k]))
    return " ".join(toks)


def describe(case) -> dict:
    return {"N": case["N"], "B": case["B"], "auto": case["auto"], "mask": case["mask"],
            "dd_counts": case["parts"]["dd"].counts.counts.tolist()}
