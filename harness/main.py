#!/venv/bin/python
"""./check <Cxx> [--tier quick|thorough] [--seed N] [--replay file]"""
import argparse
import importlib
import os
import sys
import traceback
from pathlib import Path

HERE = Path(__file__).resolve().parent
sys.path.insert(0, str(HERE))
sys.path.insert(0, str(HERE / "checks"))
SRC = os.environ.get("YAW_SRC", "/repo/src")
sys.path.insert(0, SRC)          # the implementation under test is imported from the working tree
os.environ.setdefault("YAW_SRC", SRC)
pydeps = HERE.parent / ".pydeps"
if pydeps.exists():
    sys.path.append(str(pydeps))

from core import Infra  # noqa: E402


def main() -> int:
    ap = argparse.ArgumentParser()
    ap.add_argument("prop")
    ap.add_argument("--tier", default=os.environ.get("VERIF_TIER", "quick"), choices=["quick", "thorough"])
    ap.add_argument("--seed", type=int, default=int(os.environ.get("VERIF_SEED", "0")))
    ap.add_argument("--replay", default=None)
    args = ap.parse_args()
    prop = args.prop.upper()
    if args.replay:
        # a replay file names the tier and seed of the run that produced it (violation_<tier>_<seed>.json); every case of
        # a check is a deterministic function of (property, tier, seed), so re-running that configuration reproduces it
        import json
        import re
        m = re.search(r"_(quick|thorough)_(\d+)\.json$", str(args.replay))
        if m:
            args.tier, args.seed = m.group(1), int(m.group(2))
        try:
            rp = json.loads(Path(args.replay).read_text())
            print(f"replaying {args.replay}: {str(rp.get('what') or rp.get('kind'))[:300]}")
        except Exception:  # noqa: BLE001
            pass
    try:
        mod = importlib.import_module(prop.lower())
    except ModuleNotFoundError:
        print(f"no check for {prop}", file=sys.stderr)
        return 2
    try:
        import yaw  # noqa: F401
        assert str(Path(yaw.__file__).resolve()).startswith(str(Path(SRC).resolve())), yaw.__file__
        return mod.run(prop, args.tier, args.seed, args.replay)
    except Infra as e:
        print(f"INFRASTRUCTURE FAILURE [{prop}]: {e}", file=sys.stderr)
        return 2
    except Exception as e:
        traceback.print_exc()
        frames = traceback.extract_tb(e.__traceback__)
        src = str(Path(SRC).resolve())
        if any(str(Path(f.filename).resolve()).startswith(src) for f in frames):
            # the IMPLEMENTATION raised on an input that it accepts on the unchanged tree (all checks complete
            # there for every seed): the property is no longer shown to hold; the replay names where it raised
            import json
            d = HERE.parent / "replays" / prop
            d.mkdir(parents=True, exist_ok=True)
            rp = d / f"unproved_{args.tier}_{args.seed}.json"
            rp.write_text(json.dumps({
                "property": prop, "kind": "no-failing-input-found",
                "no_longer_checks": [{"kind": "implementation-raised-inside-the-check",
                                      "error": f"{type(e).__name__}: {e}",
                                      "where": [f"{f.filename}:{f.lineno} {f.name}" for f in frames[-6:]],
                                      "rerun": f"./check {prop} --tier {args.tier} --seed {args.seed}"}]}, indent=1) + "\n")
            print(f"VIOLATION property={prop} replay={rp} no-failing-input-found")
            return 1
        print(f"INFRASTRUCTURE FAILURE [{prop}]: harness crashed", file=sys.stderr)
        return 2


if __name__ == "__main__":
    sys.exit(main())
