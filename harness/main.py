#!/venv/bin/python
"""./check <Cxx> [--tier quick|thorough] [--seed N] [--replay file]"""
import argparse
import importlib
import os
import sys
import traceback
from pathlib import Path

HERE = Path(__file__).resolve().parent
sys.path.insert(0, str(HERE))
sys.path.insert(0, str(HERE / "checks"))
SRC = os.environ.get("YAW_SRC", "/repo/src")
sys.path.insert(0, SRC)          # the implementation under test is imported from the working tree
os.environ.setdefault("YAW_SRC", SRC)
pydeps = HERE.parent / ".pydeps"
if pydeps.exists():
    sys.path.append(str(pydeps))

from core import Infra  # noqa: E402


def main() -> int:
    ap = argparse.ArgumentParser()
    ap.add_argument("prop")
    ap.add_argument("--tier", default=os.environ.get("VERIF_TIER", "quick"), choices=["quick", "thorough"])
    ap.add_argument("--seed", type=int, default=int(os.environ.get("VERIF_SEED", "0")))
    ap.add_argument("--replay", default=None)
    args = ap.parse_args()
    prop = args.prop.upper()
    try:
        mod = importlib.import_module(prop.lower())
    except ModuleNotFoundError:
        print(f"no check for {prop}", file=sys.stderr)
        return 2
    try:
        import yaw  # noqa: F401
        assert str(Path(yaw.__file__).resolve()).startswith(str(Path(SRC).resolve())), yaw.__file__
        return mod.run(prop, args.tier, args.seed, args.replay)
    except Infra as e:
        print(f"INFRASTRUCTURE FAILURE [{prop}]: {e}", file=sys.stderr)
        return 2
    except Exception:
        traceback.print_exc()
        print(f"INFRASTRUCTURE FAILURE [{prop}]: harness crashed", file=sys.stderr)
        return 2


if __name__ == "__main__":
    sys.exit(main())
