"""Crash-point exploration: trace a workload, materialise every prefix of its file-system operations, run the real
recovery path on what is left and classify the observation against the old and the completed state."""
from __future__ import annotations

import json
import os
import shutil
import warnings
from pathlib import Path

import numpy as np

import catalogs as C
import fstrace
from core import YAW_SRC

warnings.filterwarnings("ignore")
HERE = Path(__file__).resolve().parent
ERR = "error"


def run_workload(spec: dict, roots: list, traced=True):
    env = dict(os.environ, YAW_SRC=str(YAW_SRC), PYTHONDONTWRITEBYTECODE="1", OMP_NUM_THREADS="1")
    cmd = ["/venv/bin/python", str(HERE / "impl" / "fs_workload.py")]
    if traced:
        ops, out, rc = fstrace.trace(cmd, roots, stdin=json.dumps(spec), env=env, cwd=str(HERE))
    else:
        import subprocess
        p = subprocess.run(cmd, input=json.dumps(spec), capture_output=True, text=True, env=env, cwd=str(HERE))
        ops, out, rc = [], p.stdout, p.returncode
    if rc != 0 or "DONE" not in out:
        raise RuntimeError(f"workload {spec['kind']} failed (rc={rc}): {out[-300:]}")
    return ops


def attempt(f):
    try:
        return f()
    except BaseException as e:  # noqa: BLE001
        if isinstance(e, (KeyboardInterrupt, SystemExit)):
            raise
        return (ERR, type(e).__name__)


def is_err(x):
    return isinstance(x, tuple) and len(x) == 2 and x[0] == ERR


def observe_catalog(path: Path, rand_path: Path, binnings: list, restore=None) -> dict:
    """what a user sees of the (possibly damaged) cache: every component is a value or (error, type).
    restore(): puts the damaged state back (uses of a cache repair it, so every component starts from the crash state)"""
    import yaw
    from yaw import Catalog, Configuration
    obs = {}
    with C.Workers(1):
        cat = attempt(lambda: Catalog(path))
        if is_err(cat):
            return {"open": cat}
        obs["open"] = tuple(cat.keys())

        def records():
            out = []
            for pid in cat.keys():
                d = cat[pid].load_data()
                cols = [np.asarray(d[n], dtype=float) for n in d.dtype.names]
                out.append((pid, tuple(sorted(zip(*[c.tolist() for c in cols])))))
            return tuple(out)

        def meta():
            # totals are derived data and must be exact; centres / radii may be recomputed from the data when the
            # metadata file is missing (given centres are not stored elsewhere): they must cover the patch (C12)
            cen, rad = cat.get_centers(), cat.get_radii().data
            for i, pid in enumerate(cat.keys()):
                d = cat[pid].load_data()
                from yaw.coordinates import AngularCoordinates
                dist = AngularCoordinates(np.column_stack([d["ra"], d["dec"]])).distance(cen[i]).data
                if not np.all(dist <= rad[i] * (1 + 1e-9) + 1e-12):
                    return ("uncovered", pid)
            return (tuple(cat.get_num_records()), tuple(cat.get_sum_weights()))
        obs["records"] = attempt(records)
        obs["meta"] = attempt(meta)
        rand = Catalog(rand_path)
        for i, b in enumerate(binnings):
            if restore is not None:
                restore()
                cat = attempt(lambda: Catalog(path))
                if is_err(cat):
                    obs[f"measure{i}"] = cat
                    continue

            def measure(b=b):
                if b is None:     # the cache in the unbinned role
                    conf = Configuration.create(rmin=0.005, rmax=0.08, unit="rad", edges=[0.1, 0.5, 1.0])
                    cf = yaw.crosscorrelate(conf, rand, cat, unk_rand=cat)[0]
                else:
                    edges, closed = b
                    conf = Configuration.create(rmin=0.005, rmax=0.08, unit="rad", edges=edges, closed=closed)
                    cf = yaw.crosscorrelate(conf, cat, rand, unk_rand=rand)[0]
                return (cf.dd.counts.counts.tobytes(), cf.dd.sum_weights.sum_weights1.tobytes(),
                        cf.dd.sum_weights.sum_weights2.tobytes())
            obs[f"measure{i}"] = attempt(measure)
    return obs


def classify(obs: dict, old: dict, new: dict) -> tuple[str, str]:
    """-> (class, detail); class in error / old / new / both / BAD"""
    versions = {"old", "new"}
    errors = 0
    for k, v in obs.items():
        if is_err(v):
            errors += 1
            continue
        ok = set()
        if k in old and not is_err(old[k]) and old[k] == v:
            ok.add("old")
        if k in new and not is_err(new[k]) and new[k] == v:
            ok.add("new")
        if not ok:
            return "BAD", f"component '{k}' is neither an error nor the old nor the new value"
        versions &= ok
        if not versions:
            return "BAD", f"components mix old and new state (at '{k}')"
    if is_err(obs.get("open", None)):
        return "error", str(obs["open"][1])
    if errors == len(obs):
        return "error", "all"
    if versions == {"old", "new"}:
        return "both", f"{errors} component(s) raise"
    return versions.pop(), f"{errors} component(s) raise"


def prefixes(prior: fstrace.VFS, ops: list):
    """yields (k, VFS after the first k ops) for k = 0..len(ops)"""
    v = prior.copy()
    yield 0, v
    for k, op in enumerate(ops, 1):
        v.apply(op)
        yield k, v


def show_op(op, root) -> str:
    root = str(root)
    parts = [op[0]] + [str(x).replace(root, "") if isinstance(x, str) else (f"<{len(x)} bytes>" if isinstance(x, (bytes, bytearray)) else str(x))
                       for x in op[1:]]
    return " ".join(parts)


def fresh_dir(p: Path) -> Path:
    shutil.rmtree(p, ignore_errors=True)
    return p
