"""
Independent brute-force oracles (spec side, Python): pair counts straight from the
property statement.  Nothing here imports yaw's counting / linkage / tree code; only
numpy and astropy are used.
"""
from __future__ import annotations

import numpy as np


def to_vec(ra, dec):
    ra, dec = np.asarray(ra, dtype=float), np.asarray(dec, dtype=float)
    cd = np.cos(dec)
    return np.column_stack([np.cos(ra) * cd, np.sin(ra) * cd, np.sin(dec)])


def angle_of_scale(r, unit: str, z: float, cosmology):
    """scale -> angle in radian at redshift z for the unit's distance measure"""
    r = np.asarray(r, dtype=float)
    if unit == "rad":
        return r
    if unit == "deg":
        return np.deg2rad(r)
    if unit == "arcmin":
        return np.deg2rad(r / 60.0)
    if unit == "arcsec":
        return np.deg2rad(r / 3600.0)
    if unit in ("kpc", "Mpc"):
        d = cosmology.angular_diameter_distance(z)
        d = getattr(d, "value", d)
        return (r / 1000.0 if unit == "kpc" else r) / d
    if unit in ("kpc/h", "Mpc/h"):
        d = cosmology.comoving_distance(z)
        d = getattr(d, "value", d)
        return (r / 1000.0 if unit == "kpc/h" else r) / d
    raise ValueError(unit)


def bin_members(z, edges, closed):
    """boolean matrix (B, n): object in bin b under the closed-side rule"""
    z = np.asarray(z, dtype=float)
    lo, hi = np.asarray(edges[:-1])[:, None], np.asarray(edges[1:])[:, None]
    if closed == "right":
        return (z[None, :] > lo) & (z[None, :] <= hi)
    return (z[None, :] >= lo) & (z[None, :] < hi)


def fine_grid(ang_lims, resolution):
    """the documented separation-weighting grid: `resolution` log-spaced bins between the smallest and the
    largest limit, plus every limit itself (sorted unique, in log10 space)"""
    logs = np.log10(np.asarray(ang_lims, dtype=float))
    grid = np.linspace(logs.min(), logs.max(), resolution + 1)
    return np.sort(np.unique(np.concatenate([grid, logs.ravel()])))


class CatData:
    """plain-array view of one catalog: vectors, weights, redshifts, patch ids"""

    def __init__(self, ra, dec, patch, z=None, w=None):
        self.vec = to_vec(ra, dec)
        self.patch = np.asarray(patch, dtype=int)
        self.z = None if z is None else np.asarray(z, dtype=float)
        self.w = np.ones(len(self.patch)) if w is None else np.asarray(w, dtype=float)


def pair_counts(c1: CatData, c2: CatData | None, *, num_patches, edges, closed, rmin, rmax, unit, cosmology,
                rweight=None, resolution=None, binned2: bool, guard=1e-9):
    """
    Brute-force counts[s][b][i][j] and sum_weights1/2[b][i] for catalogs c1 x c2 (c2 None = autocorrelation).
    Returns (counts, sw1, sw2, min_margin): min_margin is the smallest relative distance of any pair
    separation to any threshold (cases below `guard` are not decidable in floats and must be rejected).
    """
    auto = c2 is None
    if auto:
        c2 = c1
    rmin, rmax = np.atleast_1d(rmin).astype(float), np.atleast_1d(rmax).astype(float)
    S, B, N = len(rmin), len(edges) - 1, num_patches
    mids = (np.asarray(edges[:-1]) + np.asarray(edges[1:])) / 2.0
    m1 = bin_members(c1.z, edges, closed)
    m2 = bin_members(c2.z, edges, closed) if binned2 else np.ones((B, len(c2.patch)), dtype=bool)
    counts = np.zeros((S, B, N, N))
    sw1, sw2 = np.zeros((B, N)), np.zeros((B, N))
    # chord distance matrix
    diff = c1.vec[:, None, :] - c2.vec[None, :, :]
    dist = np.sqrt((diff ** 2).sum(axis=2))
    ww = c1.w[:, None] * c2.w[None, :]
    margin = np.inf
    for b in range(B):
        for i in range(N):
            sw1[b, i] = c1.w[m1[b] & (c1.patch == i)].sum()
            sw2[b, i] = c2.w[m2[b] & (c2.patch == i)].sum()
        amin = angle_of_scale(rmin, unit, mids[b], cosmology)
        amax = angle_of_scale(rmax, unit, mids[b], cosmology)
        sel = m1[b][:, None] & m2[b][None, :]
        if rweight is None:
            for s in range(S):
                lo, hi = 2.0 * np.sin(amin[s] / 2.0), 2.0 * np.sin(amax[s] / 2.0)
                inside = sel & (dist > lo) & (dist <= hi)
                for t in (lo, hi):
                    d = dist[sel]
                    if d.size:
                        margin = min(margin, float(np.min(np.abs(d - t) / t)))
                contrib = np.where(inside, ww, 0.0)
                _accumulate(counts[s, b], contrib, c1.patch, c2.patch, N, auto)
        else:
            logs = fine_grid(np.column_stack([amin, amax]), resolution)
            fine = 10.0 ** logs
            chord = 2.0 * np.sin(fine / 2.0)
            omega = (10.0 ** ((logs[:-1] + logs[1:]) / 2.0)) ** rweight
            omega = omega / omega.sum()
            d = dist[sel]
            for t in chord:
                if d.size:
                    margin = min(margin, float(np.min(np.abs(d - t) / t)))
            k = np.searchsorted(chord, dist, side="left") - 1      # chord[k] < d <= chord[k+1]
            valid = sel & (k >= 0) & (k < len(omega))
            wpair = np.where(valid, ww * omega[np.clip(k, 0, len(omega) - 1)], 0.0)
            fine_mid = (fine[:-1] + fine[1:]) / 2.0
            for s in range(S):
                # fine bins belonging to scale s: those between the two limits (nearest edges)
                ia = int(np.argmin(np.abs(fine - amin[s])))
                ib = int(np.argmin(np.abs(fine - amax[s])))
                in_scale = valid & (k >= ia) & (k < ib)
                _accumulate(counts[s, b], np.where(in_scale, wpair, 0.0), c1.patch, c2.patch, N, auto)
    return counts, sw1, sw2, margin


def _accumulate(cell, contrib, p1, p2, N, auto):
    for i in range(N):
        rows = p1 == i
        if not rows.any():
            continue
        for j in range(N):
            cols = p2 == j
            if not cols.any():
                continue
            tot = contrib[np.ix_(rows, cols)].sum()
            if auto:
                if j < i:
                    continue
                if i == j:
                    tot = tot / 2.0     # every unordered pair once (self pairs have distance 0 <= lo)
            cell[i, j] += tot
