"""
Backbone of every check: translate -> lake build + axiom audit -> correspondence ->
failing-input search -> verdict + evidence (DESIGN 2.6).

Exit codes: 0 property held on everything explored (KNOWN-FINDING lines allowed),
1 violation (with a `VIOLATION property=<id> replay=<path>` line), 2 infrastructure failure.
"""
from __future__ import annotations

import fcntl
import json
import os
import random
import re
import subprocess
import sys
import time
from fractions import Fraction
from pathlib import Path

VERIF = Path(__file__).resolve().parent.parent
# a private copy of the Lean project may be used for runs against a patched copy of the source (tools/with_patch.sh),
# so that they do not rewrite Generated/ under a concurrent run on /repo itself
LEAN = Path(os.environ.get("YAW_LEAN_DIR", VERIF / "lean"))
YAW_SRC = Path(os.environ.get("YAW_SRC", "/repo/src"))
ALLOWED_AXIOMS = {"propext", "Classical.choice", "Quot.sound"}
FORBIDDEN = re.compile(r"\bsorry\b|\badmit\b|^axiom |native_decide|bv_decide|implemented_by|\bunsafe |maxHeartbeats 0", re.M)

TRUSTED_BASE = [
    "Lean 4.33 kernel; axioms allowed: propext, Classical.choice, Quot.sound (audited with #print axioms)",
    "translator /verif/translator (Python ast -> Lean) for the generated kernels",
    "correspondence harness /verif/harness (generators, canonicalisers, float policy of DESIGN 3)",
    "numpy/scipy/astropy primitives as documented (DESIGN 4)",
]


class Infra(Exception):
    """infrastructure failure: exit 2, never a VIOLATION"""


def strip_comments(text: str) -> str:
    text = re.sub(r"/-.*?-/", "", text, flags=re.S)
    return re.sub(r"--.*", "", text)


class LakeLock:
    def __enter__(self):
        (LEAN / ".lake").mkdir(exist_ok=True)
        self.f = open(LEAN / ".lake" / "verif.lock", "w")
        fcntl.flock(self.f, fcntl.LOCK_EX)
        return self

    def __exit__(self, *a):
        fcntl.flock(self.f, fcntl.LOCK_UN)
        self.f.close()


def run(cmd, *, cwd=None, input=None, timeout=1800, env=None):
    e = dict(os.environ)
    if env:
        e.update(env)
    return subprocess.run(cmd, cwd=cwd, input=input, capture_output=True, text=True, timeout=timeout, env=e)


def to_frac(x) -> Fraction:
    """exact rational value of a python/numpy float or int"""
    if isinstance(x, Fraction):
        return x
    if isinstance(x, int):
        return Fraction(x)
    return Fraction(*float(x).as_integer_ratio())


def fr(x) -> str:
    q = to_frac(x)
    return str(q.numerator) if q.denominator == 1 else f"{q.numerator}/{q.denominator}"


def parse_val(tok: str):
    if tok in ("nan", "raise"):
        return tok
    return Fraction(tok)


class Check:
    def __init__(self, prop: str, tier: str, seed: int, *, kernels=(), theorems=(), lean_modules=(),
                 rule: str = "", level: str = "proof", assumptions=(), purity_files=None):
        self.prop = prop
        self.tier = tier
        self.seed = seed
        self.rng = random.Random(f"{prop}:{seed}")
        self.kernels = list(kernels)
        self.theorems = list(theorems)
        self.lean_modules = list(lean_modules)
        self.rule = rule
        self.level = level
        self.assumptions = list(assumptions)
        self.t0 = time.time()
        self.evaluations = 0
        self.nontrivial = set()
        self.samples = []
        self.dist = {}
        self.tie_breaks = []       # (a) impl vs model-of-impl disagreements / broken obligations
        self.violations = []       # (b) impl vs spec disagreements: concrete failing inputs
        self.known_hits = {}
        # hidden-state inventory of the files the property is anchored in (DESIGN 0.8): one obligation per file
        if purity_files is None:
            purity_files = []
            for l in (VERIF / "properties.jsonl").read_text().splitlines():
                d = json.loads(l)
                if d["id"] == prop:
                    purity_files = [f[4:] if f.startswith("src/") else f for f in d["anchors"].get("files", [])]
        exp = json.loads((VERIF / "lean" / "purity_expected.json").read_text()) if (VERIF / "lean" / "purity_expected.json").exists() else {}
        self.purity = {rel: exp[rel] for rel in purity_files if rel in exp}
        if self.purity and "k_purity" not in self.kernels:
            self.kernels.append("k_purity")
        self.theorems += [f"Yaw.Purity.{v['name']}" for v in self.purity.values()]
        self.obligations = len(self.theorems)
        self.discharged = 0
        self.audit = {}
        self.notes = []
        self.extra = {}
        kf = json.loads((VERIF / "known_findings.json").read_text()) if (VERIF / "known_findings.json").exists() else {}
        self.known = [k for k in kf.get("findings", []) if k.get("property") == prop and k.get("status") == "open"]

    # ---- bookkeeping ---------------------------------------------------------
    def count(self, key: str, n: int = 1):
        self.dist[key] = self.dist.get(key, 0) + n

    def case(self, sample=None, nontrivial_key=None):
        self.evaluations += 1
        if nontrivial_key is not None:
            self.nontrivial.add(nontrivial_key)
        if sample is not None and len(self.samples) < 5:
            self.samples.append(sample)

    # ---- stage 1: translate + build + audit ------------------------------------
    def translate(self):
        r = run([sys.executable, str(VERIF / "translator" / "translate.py"), "--src", str(YAW_SRC),
                 "--out", str(LEAN / "YawVerif" / "Generated")])
        if r.returncode != 0:
            raise Infra(f"translator crashed: {r.stderr[-2000:]}")
        status = json.loads((LEAN / "YawVerif" / "Generated" / "kernels.json").read_text())
        for k in self.kernels:
            st = status.get(k)
            if st is None:
                raise Infra(f"kernel {k} unknown to the translator")
            if not st["ok"]:
                self.tie_breaks.append({"kind": "untranslatable-kernel", "kernel": k, "reason": st["reason"]})
        return status

    def lean_check(self):
        """build the property module(s), audit axioms and forbidden constructs"""
        with LakeLock():
            # forbidden constructs in our own sources
            for p in list((LEAN / "YawVerif").rglob("*.lean")) + list(LEAN.glob("*.lean")):
                m = FORBIDDEN.search(strip_comments(p.read_text()))
                if m:
                    self.tie_breaks.append({"kind": "forbidden-construct", "file": str(p), "what": m.group(0)})
            mods = list(self.lean_modules)
            if self.purity:
                mods.append("YawVerif.Generated.Purity")
            r = run(["lake", "build", *mods], cwd=LEAN, timeout=3600)
            self.extra["lake_build_rc"] = r.returncode
            build_ok = r.returncode == 0
            if not build_ok:
                errs = [l for l in (r.stdout + r.stderr).splitlines() if "error" in l][:20]
                self.tie_breaks.append({"kind": "proof-obligation-broken", "modules": mods, "errors": errs})
            # thorough tier: the toolchain's independent re-checker replays the compiled declarations of the property modules
            if build_ok and self.tier == "thorough" and self.lean_modules:
                rc = run(["lake", "env", "leanchecker", *self.lean_modules], cwd=LEAN, timeout=3600)
                self.extra["leanchecker_rc"] = rc.returncode
                if rc.returncode != 0:
                    self.tie_breaks.append({"kind": "leanchecker-rejects", "modules": self.lean_modules,
                                            "output": (rc.stdout + rc.stderr)[-1500:]})
            # audit: one file importing the modules that did build, #print axioms per theorem
            self.discharged = 0
            if self.theorems:
                audit_dir = LEAN / ".lake" / "audit"
                audit_dir.mkdir(parents=True, exist_ok=True)
                f = audit_dir / f"Audit_{self.prop}.lean"
                body = "".join(f"import {m}\n" for m in mods)
                # the inventory obligations are stated here (expected values: lean/purity_expected.json, committed) so that
                # one changed file does not take the obligations of the other files down with it
                for v in self.purity.values():
                    body += (f"theorem Yaw.Purity.{v['name']} : Yaw.Gen.{v['name']} = \"{v['hash']}\" := by decide\n")
                body += "".join(f"#print axioms {t}\n" for t in self.theorems)
                f.write_text(body)
                r2 = run(["lake", "env", "lean", str(f)], cwd=LEAN, timeout=1800)
                out = r2.stdout + r2.stderr
                for t in self.theorems:
                    m = re.search(rf"'{re.escape(t)}' depends on axioms: \[(.*?)\]", out, re.S)
                    m0 = re.search(rf"'{re.escape(t)}' does not depend on any axioms", out)
                    if m0:
                        axs = set()
                    elif m:
                        axs = {a.strip() for a in m.group(1).replace("\n", " ").split(",") if a.strip()}
                    else:
                        self.audit[t] = "missing"
                        continue
                    bad = axs - ALLOWED_AXIOMS
                    if t.startswith("Yaw.Purity.") and "sorryAx" in axs:
                        self.audit[t] = "missing"        # `decide` failed: the inventory differs (diff reported below)
                        continue
                    self.audit[t] = sorted(axs)
                    if bad:
                        self.tie_breaks.append({"kind": "forbidden-axiom", "theorem": t, "axioms": sorted(bad)})
                    else:
                        self.discharged += 1
                missing = [t for t, v in self.audit.items() if v == "missing"]
                pur_missing = [t for t in missing if t.startswith("Yaw.Purity.")]
                if pur_missing:
                    # name what changed: entries of the current inventory vs the committed one
                    try:
                        cur = json.loads((LEAN / "YawVerif" / "Generated" / "purity.json").read_text())
                    except (OSError, ValueError):
                        cur = {}
                    diff = {}
                    for rel, v in self.purity.items():
                        if f"Yaw.Purity.{v['name']}" in pur_missing:
                            a, b = set(v["entries"]), set(cur.get(rel, []))
                            diff[rel] = {"added": sorted(b - a), "removed": sorted(a - b)}
                    self.tie_breaks.append({"kind": "state-inventory-changed", "theorems": pur_missing, "changes": diff})
                    missing = [t for t in missing if t not in pur_missing]
                if missing and build_ok:
                    self.tie_breaks.append({"kind": "theorem-missing", "theorems": missing})
                elif missing and not any(tb["kind"] == "proof-obligation-broken" for tb in self.tie_breaks):
                    self.tie_breaks.append({"kind": "proof-obligation-broken", "theorems": missing})

    # ---- drivers -------------------------------------------------------------------
    def driver(self, which: str, lines: list[str]) -> list[str] | None:
        """run a Lean driver on request lines; None if it does not build (tie broken)"""
        if not lines:
            return []
        with LakeLock():
            mod = "YawVerif.Drv.Spec" if which == "SpecDriver" else f"YawVerif.Drv.{which}"
            b = run(["lake", "build", mod], cwd=LEAN, timeout=3600)
            if b.returncode != 0:
                self.tie_breaks.append({"kind": "driver-does-not-build", "driver": which,
                                        "errors": [l for l in (b.stdout + b.stderr).splitlines() if "error" in l][:10]})
                return None
            r = run(["lake", "env", "lean", "--run", f"{which}.lean"], cwd=LEAN, input="\n".join(lines) + "\n",
                    timeout=3600)
        if r.returncode != 0:
            self.tie_breaks.append({"kind": "driver-does-not-build", "driver": which,
                                    "errors": (r.stdout + r.stderr)[-1500:]})
            return None
        out = r.stdout.splitlines()
        if len(out) != len(lines):
            raise Infra(f"driver {which}: {len(out)} answers for {len(lines)} requests")
        res = []
        for req, ans in zip(lines, out):
            rid = req.split(" ", 1)[0]
            aid, _, rest = ans.partition(" ")
            if aid != rid:
                raise Infra(f"driver {which}: answer id {aid} != request id {rid}")
            if rest.startswith("bad-request"):
                raise Infra(f"driver {which}: {rest} for request {req[:200]}")
            res.append(rest)
        return res

    # ---- verdict ---------------------------------------------------------------------
    def add_violation(self, what: str, replay: dict, signature: str | None = None):
        """a concrete failing input: implementation vs spec"""
        self.violations.append({"what": what, "replay": replay, "signature": signature})

    def add_tie_break(self, what: str, detail: dict):
        self.tie_breaks.append({"kind": "correspondence", "what": what, **detail})

    def write_replay(self, name: str, obj: dict) -> Path:
        d = VERIF / "replays" / self.prop
        d.mkdir(parents=True, exist_ok=True)
        p = d / f"{name}.json"
        p.write_text(json.dumps(obj, indent=1, default=str) + "\n")
        return p

    def finish(self) -> int:
        rc = 0
        lines = []
        unknown = []
        for v in self.violations:
            hit = next((k for k in self.known if v["signature"] and v["signature"] == k["signature"]), None)
            if hit:
                self.known_hits.setdefault(hit["signature"], hit)
            else:
                unknown.append(v)
        for sig, k in self.known_hits.items():
            lines.append(f"KNOWN-FINDING: property={self.prop} {k['what']}")
        if unknown:
            v = unknown[0]
            p = self.write_replay(f"violation_{self.tier}_{self.seed}", {
                "property": self.prop, "kind": "failing-input", "what": v["what"], "replay": v["replay"],
                "others": [u["what"] for u in unknown[1:10]], "tie_breaks": self.tie_breaks[:5]})
            lines.append(f"VIOLATION property={self.prop} replay={p}")
            rc = 1
        elif self.tie_breaks:
            # broken proof/correspondence and the search found no failing input
            explained = self.known_hits and all(tb.get("explained_by_known") for tb in self.tie_breaks)
            if not explained:
                p = self.write_replay(f"unproved_{self.tier}_{self.seed}", {
                    "property": self.prop, "kind": "no-failing-input-found",
                    "no_longer_checks": self.tie_breaks[:20]})
                lines.append(f"VIOLATION property={self.prop} replay={p} no-failing-input-found")
                rc = 1
        self.write_evidence(len(unknown) + (1 if rc == 1 and not unknown else 0))
        for l in lines:
            print(l)
        print(f"[{self.prop}] tier={self.tier} seed={self.seed} obligations={self.obligations} "
              f"discharged={self.discharged} evaluations={self.evaluations} "
              f"nontrivial={len(self.nontrivial)} tie_breaks={len(self.tie_breaks)} "
              f"violations={len(unknown)} known={len(self.known_hits)} wall={time.time() - self.t0:.1f}s")
        return rc

    def write_evidence(self, nviol: int):
        ev = {
            "property_id": self.prop,
            "tier": self.tier,
            "seed": self.seed,
            "level": self.level,
            "coverage": {
                "obligations": self.obligations,
                "discharged": self.discharged,
                "checker_cmd": "cd /verif/lean && lake build " + " ".join(self.lean_modules)
                               + " && lake env lean .lake/audit/Audit_%s.lean  # #print axioms per theorem" % self.prop,
                "trusted_base": TRUSTED_BASE,
                "theorems": self.audit,
                "evaluations": self.evaluations,
                "distinct_nontrivial": len(self.nontrivial),
                "rule": self.rule,
                "samples": self.samples or [{"theorems": self.theorems[:5]}],
                "input_distribution": self.dist,
                "tie_breaks": self.tie_breaks[:10],
                "known_findings_hit": sorted(self.known_hits),
                **self.extra,
            },
            "assumptions": self.assumptions,
            "wall_s": round(time.time() - self.t0, 2),
            "violations": nviol,
        }
        if self.discharged == 0 or self.obligations == 0:
            # keep the file schema-valid when every obligation is broken (mutated tree): report under other names
            cov = ev["coverage"]
            cov["obligations_total"] = cov.pop("obligations")
            cov["obligations_discharged"] = cov.pop("discharged")
        ev["source_root"] = str(YAW_SRC)
        if Path(YAW_SRC).resolve() != Path("/repo/src").resolve():
            # a run against a patched COPY of the source (tools/with_patch.sh) must not overwrite the evidence of /repo
            d = VERIF / "replays" / self.prop
            d.mkdir(parents=True, exist_ok=True)
            (d / "evidence_patched_copy.json").write_text(json.dumps(ev, indent=1, default=str) + "\n")
            return
        d = VERIF / "evidence"
        d.mkdir(exist_ok=True)
        (d / f"{self.prop}.json").write_text(json.dumps(ev, indent=1, default=str) + "\n")


def ulp_close(impl: float, model: Fraction, k: int, scale: Fraction | None = None) -> bool:
    """|impl - model| <= k * 2^-52 * scale  (scale defaults to |model|, at least the smallest normal)"""
    import math
    if not math.isfinite(impl):
        return False
    s = abs(model) if scale is None else abs(scale)
    tol = Fraction(k, 2 ** 52) * s + Fraction(1, 2 ** 1000)
    return abs(to_frac(impl) - model) <= tol
