"""strace-based recorder of the file-system operations of a workload, in-memory prefix replayer.

trace(cmd, roots)  -> list of ops that touch a path below one of the roots, in program order
VFS                -> in-memory file tree: load(dir) / apply(op) / dump(dir)

op = ("mkdir", path) | ("creat", path, trunc) | ("write", path, offset, bytes) | ("unlink", path) | ("rmdir", path)
   | ("rename", src, dst) | ("truncate", path, length)
Only SUCCESSFUL calls are recorded.  `creat` = an open that creates a missing file and / or truncates an existing one.
"""
from __future__ import annotations

import os
import re
import subprocess
import tempfile
from pathlib import Path

SYSCALLS = ("open,openat,creat,write,pwrite64,writev,pwritev,mkdir,mkdirat,unlink,unlinkat,rmdir,rename,renameat,"
            "renameat2,truncate,ftruncate,lseek,close,link,linkat,symlink,symlinkat,fallocate,copy_file_range,sendfile,"
            "dup,dup2,dup3,fcntl,mmap")
_LINE = re.compile(r"^(\d+)\s+(\w+)\((.*)\)\s+=\s+(-?\d+|\?|0x[0-9a-f]+)(.*)$", re.S)
_UNFINISHED = re.compile(r"^(\d+)\s+(\w+)\((.*) <unfinished \.\.\.>$", re.S)
_RESUMED = re.compile(r"^(\d+)\s+<\.\.\. (\w+) resumed>(.*)$", re.S)


class TraceError(RuntimeError):
    pass


def _unhex(s: str) -> bytes:
    """decodes a strace -xx string literal body (\\x41\\x42...)"""
    return bytes(int(h, 16) for h in re.findall(r"\\x([0-9a-f]{2})", s))


def _split_args(argstr: str) -> list[str]:
    """splits a syscall argument string at top-level commas (strings / brackets / <...> annotations respected)"""
    out, depth, cur, in_str, i = [], 0, [], False, 0
    while i < len(argstr):
        c = argstr[i]
        if in_str:
            cur.append(c)
            if c == "\\":
                cur.append(argstr[i + 1])
                i += 1
            elif c == '"':
                in_str = False
        elif c == '"':
            in_str = True
            cur.append(c)
        elif c in "([{<":
            depth += 1
            cur.append(c)
        elif c in ")]}>":
            depth -= 1
            cur.append(c)
        elif c == "," and depth == 0:
            out.append("".join(cur).strip())
            cur = []
        else:
            cur.append(c)
        i += 1
    if cur:
        out.append("".join(cur).strip())
    return out


def _str_arg(a: str) -> str:
    m = re.match(r'^"(.*)"(\.\.\.)?$', a, re.S)
    if not m:
        raise TraceError(f"not a string argument: {a[:80]}")
    if m.group(2):
        raise TraceError("truncated string in trace (raise -s)")
    return _unhex(m.group(1)).decode()


def _bytes_arg(a: str) -> bytes:
    m = re.match(r'^"(.*)"(\.\.\.)?$', a, re.S)
    if not m:
        raise TraceError(f"not a buffer argument: {a[:80]}")
    if m.group(2):
        raise TraceError("truncated buffer in trace (raise -s)")
    return _unhex(m.group(1))


def _fd_arg(a: str):
    """'5</path/to/file>' -> (5, '/path/to/file'); 'AT_FDCWD</cwd>' -> ('AT_FDCWD', '/cwd')"""
    m = re.match(r"^(\w+)<(.*)>$", a, re.S)
    if m:
        p = m.group(2)
        if "\\x" in p:
            tail = p[p.rfind("\\x") + 4:]            # e.g. " (deleted)" is appended unencoded
            p = _unhex(p).decode() + tail
        if p.endswith(" (deleted)"):
            p = p[: -len(" (deleted)")]
        return m.group(1), p
    return a, None


def _at_path(dirfd: str, path: str) -> str:
    if os.path.isabs(path):
        return os.path.normpath(path)
    _, base = _fd_arg(dirfd)
    if base is None:
        raise TraceError(f"relative path without directory annotation: {path}")
    return os.path.normpath(os.path.join(base, path))


def parse(text: str, roots: list[str], cwd: str) -> list[tuple]:
    roots = [os.path.normpath(str(r)) for r in roots]

    def inside(p):
        return p is not None and any(p == r or p.startswith(r + os.sep) for r in roots)

    pending: dict[str, tuple[str, str]] = {}
    calls = []
    for raw in text.split("\n"):
        if not raw.strip() or "+++ " in raw or "--- SIG" in raw:
            continue
        m = _UNFINISHED.match(raw)
        if m:
            pending[m.group(1)] = (m.group(2), m.group(3))
            continue
        m = _RESUMED.match(raw)
        if m:
            pid = m.group(1)
            name, head = pending.pop(pid, (m.group(2), ""))
            raw = f"{pid} {name}({head}{m.group(3)}"
        m = _LINE.match(raw)
        if not m:
            if "resumed" in raw or "unfinished" in raw or "exited" in raw or "killed" in raw:
                continue
            raise TraceError(f"unparsable trace line: {raw[:200]}")
        pid, name, argstr, ret, _ = m.groups()
        calls.append((pid, name, argstr, ret))

    ops: list[tuple] = []
    pos: dict[tuple[str, str], int] = {}     # (pid, fd) -> file offset (only for files below the roots)
    fdpath: dict[tuple[str, str], str] = {}
    append: set[tuple[str, str]] = set()
    sizes: dict[str, int] = {}               # path -> size produced by the recorded ops (None = unknown prior size)

    def abspath(p):
        return os.path.normpath(p if os.path.isabs(p) else os.path.join(cwd, p))

    def do_write(key, path, data, offset=None):
        if offset is None:
            if key in append:
                offset = -1               # append: resolved at replay time
            else:
                offset = pos.get(key, -1)
                if offset >= 0:
                    pos[key] = offset + len(data)
        ops.append(("write", path, offset, data))

    for pid, name, argstr, ret in calls:
        if ret == "?" or (ret.startswith("-") and name != "lseek"):
            continue
        if ret.startswith("-"):
            continue
        args = _split_args(argstr)
        if name in ("open", "openat", "creat"):
            if name == "openat":
                path = _at_path(args[0], _str_arg(args[1]))
                flags = args[2]
            elif name == "open":
                path, flags = abspath(_str_arg(args[0])), args[1]
            else:
                path, flags = abspath(_str_arg(args[0])), "O_CREAT|O_WRONLY|O_TRUNC"
            if not inside(path):
                continue
            key = (pid, ret)
            fdpath[key] = path
            pos[key] = 0
            append.discard(key)
            if "O_APPEND" in flags:
                append.add(key)
            if "O_CREAT" in flags or "O_TRUNC" in flags:
                if any(f in flags for f in ("O_WRONLY", "O_RDWR")) or "O_CREAT" in flags:
                    ops.append(("creat", path, "O_TRUNC" in flags))
        elif name == "close":
            fd, path = _fd_arg(args[0])
            key = (pid, fd)
            fdpath.pop(key, None)
            pos.pop(key, None)
            append.discard(key)
        elif name in ("write", "pwrite64"):
            fd, path = _fd_arg(args[0])
            if not inside(path):
                continue
            data = _bytes_arg(args[1])[: int(ret)]
            do_write((pid, fd), path, data, int(args[3]) if name == "pwrite64" else None)
        elif name in ("writev", "pwritev"):
            fd, path = _fd_arg(args[0])
            if inside(path):
                raise TraceError(f"{name} on a traced file is not supported: {path}")
        elif name == "lseek":
            fd, path = _fd_arg(args[0])
            if inside(path):
                pos[(pid, fd)] = int(ret)
        elif name in ("mkdir", "mkdirat"):
            path = abspath(_str_arg(args[0])) if name == "mkdir" else _at_path(args[0], _str_arg(args[1]))
            if inside(path):
                ops.append(("mkdir", path))
        elif name == "rmdir":
            path = abspath(_str_arg(args[0]))
            if inside(path):
                ops.append(("rmdir", path))
        elif name == "unlink":
            path = abspath(_str_arg(args[0]))
            if inside(path):
                ops.append(("unlink", path))
        elif name == "unlinkat":
            path = _at_path(args[0], _str_arg(args[1]))
            if inside(path):
                ops.append(("rmdir" if "AT_REMOVEDIR" in args[2] else "unlink", path))
        elif name in ("rename", "renameat", "renameat2"):
            if name == "rename":
                a, b = abspath(_str_arg(args[0])), abspath(_str_arg(args[1]))
            else:
                a, b = _at_path(args[0], _str_arg(args[1])), _at_path(args[2], _str_arg(args[3]))
            if inside(a) or inside(b):
                ops.append(("rename", a, b))
        elif name in ("truncate", "ftruncate"):
            if name == "truncate":
                path = abspath(_str_arg(args[0]))
            else:
                _, path = _fd_arg(args[0])
            if inside(path):
                ops.append(("truncate", path, int(args[1])))
        elif name in ("link", "linkat", "symlink", "symlinkat", "fallocate", "copy_file_range", "sendfile"):
            if any(inside(_fd_arg(a)[1]) for a in args) or any(r in argstr for r in roots):
                raise TraceError(f"unsupported file-system call on a traced path: {name}({argstr[:120]})")
        elif name == "mmap":
            # a writable shared mapping of a traced file would bypass write()
            if len(args) >= 5 and "MAP_SHARED" in args[3] and "PROT_WRITE" in args[2]:
                _, path = _fd_arg(args[4])
                if inside(path):
                    raise TraceError(f"writable shared mapping of a traced file: {path}")
        elif name in ("dup", "dup2", "dup3", "fcntl"):
            fd, path = _fd_arg(args[0])
            if inside(path) and (name != "fcntl" or "F_DUPFD" in args[1]):
                key = (pid, fd)
                new = (pid, ret)
                if key in fdpath:
                    fdpath[new] = fdpath[key]
                    pos[new] = pos.get(key, 0)   # NB: shared offsets are not tracked further
    _ = sizes
    return ops


def trace(cmd: list[str], roots: list, *, stdin: str | None = None, env=None, timeout=300, cwd=None) -> tuple[list, str, int]:
    """runs cmd under strace; returns (ops below the roots, stdout, exit status)"""
    cwd = cwd or os.getcwd()
    with tempfile.NamedTemporaryFile(prefix="fstrace", suffix=".log", delete=False) as tf:
        log = tf.name
    try:
        p = subprocess.run(["strace", "-f", "-y", "-xx", "-s", "100000000", "-e", f"trace={SYSCALLS}", "-e", "signal=none",
                            "-o", log, *cmd], input=stdin, capture_output=True, text=True, env=env, timeout=timeout, cwd=cwd)
        text = Path(log).read_text(errors="surrogateescape")
    finally:
        os.unlink(log)
    return parse(text, [str(r) for r in roots], cwd), p.stdout, p.returncode


class VFS:
    """in-memory file tree below one root: {relative path: bytearray | None (directory)}"""

    def __init__(self, root: str | Path):
        self.root = os.path.normpath(str(root))
        self.nodes: dict[str, bytearray | None] = {}

    def copy(self) -> "VFS":
        v = VFS(self.root)
        v.nodes = {k: (None if b is None else bytearray(b)) for k, b in self.nodes.items()}
        return v

    def rel(self, path: str) -> str | None:
        path = os.path.normpath(path)
        if path == self.root:
            return "."
        if path.startswith(self.root + os.sep):
            return path[len(self.root) + 1:]
        return None

    @classmethod
    def load(cls, root: str | Path) -> "VFS":
        v = cls(root)
        root = Path(root)
        if root.exists():
            if root.is_file():
                v.nodes["."] = bytearray(root.read_bytes())
                return v
            v.nodes["."] = None
            for p in sorted(root.rglob("*")):
                v.nodes[str(p.relative_to(root))] = None if p.is_dir() else bytearray(p.read_bytes())
        return v

    def apply(self, op: tuple) -> None:
        kind = op[0]
        if kind == "rename":
            a, b = self.rel(op[1]), self.rel(op[2])
            if a is None or b is None:
                raise TraceError(f"rename across the traced root: {op[1]} -> {op[2]}")
            if a not in self.nodes:
                raise TraceError(f"rename of an unknown path {a}")
            if self.nodes[a] is None:       # directory: move the subtree
                for k in [k for k in self.nodes if k == b or k.startswith(b + os.sep)]:
                    del self.nodes[k]
                for k in [k for k in self.nodes if k == a or k.startswith(a + os.sep)]:
                    self.nodes[b + k[len(a):]] = self.nodes.pop(k)
            else:
                self.nodes[b] = self.nodes.pop(a)
            return
        r = self.rel(op[1])
        if r is None:
            return
        if kind == "mkdir":
            self.nodes[r] = None
        elif kind == "creat":
            if r not in self.nodes or self.nodes[r] is None:
                self.nodes[r] = bytearray()
            elif op[2]:
                self.nodes[r] = bytearray()
        elif kind == "write":
            _, _, off, data = op
            if r not in self.nodes or self.nodes[r] is None:
                raise TraceError(f"write to an unknown file {r}")
            buf = self.nodes[r]
            if off < 0:
                off = len(buf)
            if off > len(buf):
                buf.extend(b"\0" * (off - len(buf)))
            buf[off:off + len(data)] = data
        elif kind == "truncate":
            buf = self.nodes.get(r)
            if buf is None:
                raise TraceError(f"truncate of an unknown file {r}")
            n = op[2]
            if n <= len(buf):
                del buf[n:]
            else:
                buf.extend(b"\0" * (n - len(buf)))
        elif kind in ("unlink", "rmdir"):
            if r not in self.nodes:
                raise TraceError(f"{kind} of an unknown path {r}")
            del self.nodes[r]
        else:
            raise TraceError(f"unknown op {kind}")

    def dump(self, dest: str | Path) -> None:
        dest = Path(dest)
        if "." not in self.nodes:
            return
        if self.nodes["."] is not None:
            dest.write_bytes(bytes(self.nodes["."]))
            return
        dest.mkdir(parents=True, exist_ok=True)
        for k in sorted(self.nodes):
            if k == ".":
                continue
            p = dest / k
            if self.nodes[k] is None:
                p.mkdir(parents=True, exist_ok=True)
            else:
                p.parent.mkdir(parents=True, exist_ok=True)
                p.write_bytes(bytes(self.nodes[k]))

    def same_as_dir(self, path: str | Path) -> bool:
        other = VFS.load(path)
        return {k: (None if v is None else bytes(v)) for k, v in self.nodes.items()} == \
               {k: (None if v is None else bytes(v)) for k, v in other.nodes.items()}
