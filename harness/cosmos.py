"""Cosmologies the checks configure measurements with: named astropy models, curved astropy models given as objects and a
user-defined `CustomCosmology` whose angular-diameter distance is NOT comoving distance / (1 + z)."""
from __future__ import annotations

NAMES = ["Planck15", "WMAP9", "open", "custom", "Planck15", "closed"]


def get(name: str):
    """-> (value to pass as `cosmology=`, object with comoving_distance / angular_diameter_distance for the oracle)"""
    import astropy.cosmology
    if name == "open":
        c = astropy.cosmology.LambdaCDM(H0=70, Om0=0.3, Ode0=0.5)
        return c, c
    if name == "closed":
        c = astropy.cosmology.LambdaCDM(H0=65, Om0=0.4, Ode0=0.9)
        return c, c
    if name == "custom2":
        from yaw.cosmology import CustomCosmology

        class OtherScaledCosmology(CustomCosmology):
            """another user-defined model: same class hierarchy, other distances"""

            def to_format(self, format="mapping"):
                return "scaled2"

            def comoving_distance(self, z):
                return astropy.cosmology.Planck15.comoving_distance(z) * 0.8

            def angular_diameter_distance(self, z):
                return astropy.cosmology.Planck15.angular_diameter_distance(z) * 1.3
        c = OtherScaledCosmology()
        return c, c
    if name == "custom":
        from yaw.cosmology import CustomCosmology

        class ScaledCosmology(CustomCosmology):
            """Planck15 distances stretched by different factors"""

            def to_format(self, format="mapping"):
                return "scaled"

            def comoving_distance(self, z):
                return astropy.cosmology.Planck15.comoving_distance(z) * 1.25

            def angular_diameter_distance(self, z):
                return astropy.cosmology.Planck15.angular_diameter_distance(z) * 0.75
        c = ScaledCosmology()
        return c, c
    return name, getattr(astropy.cosmology, name)
