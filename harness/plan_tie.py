"""
Tie of the generated measurement plans (Gen.crossPlan / Gen.autoPlan, theorems Yaw.C01P.*) to the running code:
the real `autocorrelate` / `crosscorrelate` are executed on small catalogs for every presence pattern of the optional
catalogs with `Catalog.build_trees`, `PatchLinkage.from_catalogs` and `PatchLinkage.count_pairs` instrumented; what
they did (which trees in which role, which catalogs in the linkage, which count in which CorrFunc member) must be the
plan the translator derived from the source (a), and the documented plan (b).
"""
from __future__ import annotations

import numpy as np

import catalogs as C

THEOREMS = ["Yaw.C01P.cross_slots", "Yaw.C01P.cross_roles", "Yaw.C01P.cross_linkage", "Yaw.C01P.auto_slots",
            "Yaw.C01P.auto_roles"]
MODULE = "YawVerif.Props.C01Plan"

SPEC = {
    ("cross", 0, 0): "raises",
    ("cross", 0, 1): "slots=referencexunknown,referencexunk_rand,-,-",
    ("cross", 1, 0): "slots=referencexunknown,-,ref_randxunknown,-",
    ("cross", 1, 1): "slots=referencexunknown,referencexunk_rand,ref_randxunknown,ref_randxunk_rand",
    ("auto", 0): "slots=dataxauto,dataxrandom,-,-",
    ("auto", 1): "slots=dataxauto,dataxrandom,-,randomxauto",
}
ROLE = {"data": "binned", "random": "binned", "reference": "binned", "ref_rand": "binned", "unknown": "unbinned",
        "unk_rand": "unbinned"}


def _catalogs(root, rng, names):
    cats = {}
    cen = None
    for k, name in enumerate(names):
        n = 40
        g = np.random.default_rng(rng.randrange(2 ** 31))
        ra = g.uniform(0.1, 0.3, n)
        dec = g.uniform(-0.1, 0.1, n)
        z = g.choice([0.1, 0.2, 0.3, 0.15, 0.25], n)
        patch = (ra > 0.2).astype(int)
        if cen is None:
            cats[name] = C.make_catalog(root / f"plan_{name}", ra, dec, z=z, patch=patch)
            cen = cats[name].get_centers()
        else:
            cats[name] = C.make_catalog(root / f"plan_{name}", ra, dec, z=z, centers=cen)
    return cats


def observe(fn, config, cats, pos, kw):
    """run a measurement function with instrumentation; returns the canonical plan text"""
    import yaw
    from yaw.catalog.catalog import Catalog
    from yaw.correlation.measurements import PatchLinkage
    name_of = {id(c): n for n, c in cats.items()}
    builds, linkage, made = [], [], {}
    orig_build, orig_from, orig_count = Catalog.build_trees, PatchLinkage.from_catalogs.__func__, PatchLinkage.count_pairs

    def build(self, binning=None, *a, **k):
        binned = binning is not None
        closed_ok = "closed" in k and str(k["closed"]) == str(config.binning.closed)
        edges_ok = (not binned) or np.array_equal(np.asarray(binning), config.binning.edges)
        builds.append(f"{name_of.get(id(self), '?')}:{'binned' if binned and edges_ok else ('unbinned' if not binned else 'otheredges')}"
                      f":{'closed' if closed_ok else 'noclosed'}")
        return orig_build(self, binning, *a, **k)

    def from_catalogs(cls, cfg, *catalogs):
        linkage.extend(name_of.get(id(c), "?") for c in catalogs)
        return orig_from(cls, cfg, *catalogs)

    def count(self, main, *opt, **k):
        res = orig_count(self, main, *opt, **k)
        for r in res:
            made[id(r)] = f"{name_of.get(id(main), '?')}x{name_of.get(id(opt[0]), '?') if opt else 'auto'}"
        count.keep.extend(res)
        return res
    count.keep = []
    Catalog.build_trees = build
    PatchLinkage.from_catalogs = classmethod(from_catalogs)
    PatchLinkage.count_pairs = count
    try:
        try:
            cfs = fn(config, *[cats[p] for p in pos], **{k: (cats[v] if isinstance(v, str) else v) for k, v in kw.items()})
        except ValueError:
            return "raises"
    finally:
        Catalog.build_trees = orig_build
        PatchLinkage.from_catalogs = classmethod(orig_from)
        PatchLinkage.count_pairs = orig_count
    cf = cfs[0]
    slots = [("-" if m is None else made.get(id(m), "?")) for m in (cf.dd, cf.dr, cf.rd, cf.rr)]
    return f"builds={','.join(builds)} linkage={','.join(linkage)} slots={','.join(slots)}"


def check_plan(ck, root):
    """adds cases / tie breaks / violations to the check `ck`"""
    import yaw
    rng = ck.rng
    closed = "left"
    config = yaw.Configuration.create(rmin=100.0, rmax=1000.0, zmin=0.1, zmax=0.3, num_bins=2, closed=closed)
    reqs, obs = [], []
    with C.Workers(1):
        cats = _catalogs(root, rng, ["reference", "unknown", "ref_rand", "unk_rand"])
        for rr in (0, 1):
            for ur in (0, 1):
                kw = {}
                if rr:
                    kw["ref_rand"] = "ref_rand"
                if ur:
                    kw["unk_rand"] = "unk_rand"
                reqs.append(f"p{len(reqs)} cross {rr} {ur}")
                obs.append((("cross", rr, ur), observe(yaw.crosscorrelate, config, cats, ["reference", "unknown"], kw)))
        acats = {"data": cats["reference"], "random": cats["ref_rand"]}
        for crr in (0, 1):
            reqs.append(f"p{len(reqs)} auto {crr}")
            obs.append((("auto", crr), observe(yaw.autocorrelate, config, acats, ["data", "random"], {"count_rr": bool(crr)})))
    for c in cats.values():
        C.remove(c.cache_directory)
    model = ck.driver("GenPlan", reqs)
    for i, (key, seen) in enumerate(obs):
        ck.case({"plan": key, "observed": seen} if i == 3 else None, ("plan",) + key)
        ck.count("plan:" + key[0])
        # (b) the documented plan: members of CorrFunc, roles of the trees, linkage
        what = None
        if SPEC[key] == "raises" or seen == "raises":
            if SPEC[key] != seen:
                what = f"{key[0]}correlate with randoms {key[1:]} {'raised' if seen == 'raises' else 'did not raise'}"
        else:
            parts = dict(p.split("=", 1) for p in seen.split(" "))
            if "slots=" + parts["slots"] != SPEC[key]:
                what = (f"{key[0]}correlate{key[1:]}: the members (dd, dr, rd, rr) of the result were counted between "
                        f"{parts['slots']}, documented: {SPEC[key][6:]}")
            else:
                last = {}
                for b in parts["builds"].split(","):
                    n, role, cl = b.split(":")
                    last[n] = (role, cl)
                counted = {c for s in parts["slots"].split(",") if s != "-" for c in s.split("x") if c != "auto"}
                for n in sorted(counted):
                    role, cl = last.get(n, ("never built", ""))
                    if role != ROLE[n] or (role == "binned" and cl != "closed"):
                        what = (f"{key[0]}correlate{key[1:]} with closed='{closed}': the trees of `{n}` were built "
                                f"{role}/{cl or '-'} (needed: {ROLE[n]} with the configured closed side)")
                if what is None and set(parts["linkage"].split(",")) != counted:
                    what = (f"{key[0]}correlate{key[1:]}: patch linkage computed from {parts['linkage']} but the counted "
                            f"catalogs are {sorted(counted)}")
        if what:
            ck.add_violation(what, {"function": key[0] + "correlate", "optional_present": key[1:], "closed": closed,
                                    "observed": seen, "documented": SPEC[key]})
        # (a) the plan generated from the source
        if model is not None and model[i] != seen:
            ck.add_tie_break("generated measurement plan differs from what the function did",
                             {"case": list(key), "model": model[i], "impl": seen})
