"""
Strata against hidden state in the pair-count containers (C03 C04 C17): results may depend only on what a container
holds NOW — not on containers that lived earlier in the process (object addresses are reused), not on an earlier
sampling of the same container before it was changed in place (`set_patch_pair` is how `count_pairs` fills it).

The oracle is an exact rational evaluation of the documented formulas (leave-one-out sums, normalisation by the
weight products, Landy-Szalay / Davis-Peebles) that shares nothing with the library or the generated kernels.
"""
from __future__ import annotations

import gc
from fractions import Fraction

import numpy as np

import gen_containers as G
from core import to_frac, ulp_close


def _term(counts, w1, w2, auto, skip):
    """per bin: (sum of counts without patch `skip`) / (weight product total without patch `skip`); None if undefined"""
    B, N, _ = counts.shape
    out = []
    for b in range(B):
        keep = [i for i in range(N) if i != skip]
        c = sum((to_frac(counts[b, i, j]) for i in keep for j in keep), Fraction(0))
        s1 = sum((to_frac(w1[b, i]) for i in keep), Fraction(0))
        s2 = sum((to_frac(w2[b, i]) for i in keep), Fraction(0))
        if auto:
            # upper triangle with halved diagonal of the outer product = (S^2 + sum w_i^2)/2 - sum w_i^2/2 ... spelled out:
            w = sum((to_frac(w1[b, i]) * to_frac(w2[b, j]) * (Fraction(1, 2) if i == j else 1)
                     for i in keep for j in keep if j >= i), Fraction(0))
        else:
            w = s1 * s2
        out.append(None if w == 0 else c / w)
    return out


def oracle(raw, skip):
    """estimator per bin for the data with patch `skip` removed (None = everything)"""
    t = {k: _term(v["counts"], v["w1"], v["w2"], v["auto"], skip) for k, v in raw.items()}
    B = len(t["dd"])
    res = []
    for b in range(B):
        vals = {k: v[b] for k, v in t.items()}
        if any(x is None for x in vals.values()):
            res.append(None)
            continue
        if "rr" in vals:
            rd = vals.get("rd", vals.get("dr"))
            dr = vals.get("dr")
            if dr is None or vals["rr"] == 0:
                res.append(None)
                continue
            res.append((vals["dd"] - dr - rd + vals["rr"]) / vals["rr"])
        else:
            den = vals["rd"] if "rd" in vals else vals.get("dr")
            res.append(None if den in (None, 0) else vals["dd"] / den - 1)
    return res


def _raw_case(rng, N, B, auto, mask):
    case = G.rand_corrfunc_parts(rng, N=N, B=B, auto=auto, mask=mask, sparsity=rng.choice([0.0, 0.3]))
    raw = {}
    for k, nc in case["parts"].items():
        w1 = nc.sum_weights.sum_weights1.copy()
        w2 = nc.sum_weights.sum_weights2.copy()
        w1[w1 == 0] = 3.0
        w2[w2 == 0] = 5.0
        if nc.auto:
            w2 = w1
        raw[k] = {"counts": nc.counts.counts.copy(), "w1": w1, "w2": w2, "auto": bool(nc.auto)}
    return case["binning"], raw


def _build(binning, raw):
    from yaw.correlation.corrfunc import CorrFunc
    parts = {k: G.make_nc(binning, v["counts"], v["w1"], v["w2"], v["auto"]) for k, v in raw.items()}
    return CorrFunc(parts["dd"], parts.get("dr"), parts.get("rd"), parts.get("rr"))


def _compare(cd, raw, N):
    """first difference between a sampled CorrData and the oracle, or None"""
    for skip in [None, *range(N)]:
        want = oracle(raw, skip)
        got = cd.data if skip is None else cd.samples[skip]
        for b, (g, w) in enumerate(zip(got, want)):
            if w is None:
                continue
            scale = max(abs(w), Fraction(1))
            if not ulp_close(float(g), w, 64, scale * 64):
                return (f"{'value' if skip is None else f'jackknife sample {skip}'} of bin {b}: got {float(g)!r}, "
                        f"the data {'without patch %d ' % skip if skip is not None else ''}give {float(w)!r}")
    return None


def raw_json(raw):
    return {k: {"counts": v["counts"].tolist(), "w1": v["w1"].tolist(), "w2": v["w2"].tolist(), "auto": v["auto"]}
            for k, v in raw.items()}


def run_stratum(ck, rng, rounds: int):
    """(1) measurements that come and go; (2) containers changed in place between two samplings"""
    # ---- (1) same shape, different content, each built / sampled / dropped before the next exists ---------------
    for shape_i in range(max(1, rounds // 6)):
        N = rng.choice([2, 3, 5])
        B = rng.choice([1, 2, 3])
        auto = shape_i % 2 == 1
        mask = [1, 5, 7, 3][shape_i % 4] if not auto else [1, 5][shape_i % 2]
        for r in range(6):
            if r == 4:          # ... and one of another shape in between
                N, B = N + 1, B + 1
            binning, raw = _raw_case(rng, N, B, auto, mask)
            cf = cd = None
            try:
                cf = _build(binning, raw)
                cd = cf.sample()
                diff = _compare(cd, raw, N)
            except Exception as e:  # noqa: BLE001 — valid containers: sampling must not raise
                diff = f"sampling raised {type(e).__name__}: {e}"
            ck.case(None, ("lifetime", shape_i, r))
            ck.count("state:come-and-go")
            del cf, cd
            gc.collect()
            if diff:
                ck.add_violation(f"measurement #{r + 1} of a series of independent measurements of one shape (N={N}, B={B}, "
                                 f"each dropped before the next is built) is wrong: {diff}",
                                 {"kind": "lifetime", "position_in_series": r, "N": N, "B": B, "auto": auto, "mask": mask,
                                  "parts": raw_json(raw)})
                break
    # ---- (2) sample, change a patch pair in place, sample again ---------------------------------------------------
    for r in range(rounds):
        N = rng.choice([2, 3, 4])
        B = rng.choice([1, 2])
        auto = r % 3 == 2
        mask = [7, 1, 5][r % 3]
        binning, raw = _raw_case(rng, N, B, auto, mask)
        which = rng.choice(sorted(raw))
        i = rng.randrange(N)
        j = rng.randrange(i, N) if raw[which]["auto"] else rng.randrange(N)
        new = np.array([float(rng.randrange(1, 4000)) for _ in range(B)])
        d1 = None
        try:
            cf = _build(binning, raw)
            first = cf.sample()
            d0 = _compare(first, raw, N)
            getattr(cf, which).counts.set_patch_pair(i, j, new)
            raw[which]["counts"][:, i, j] = new
            second = cf.sample()
            d1 = _compare(second, raw, N)
        except Exception as e:  # noqa: BLE001
            d0 = f"sampling raised {type(e).__name__}: {e}"
        ck.case(None, ("mutate", r))
        ck.count("state:set_patch_pair-between-samplings")
        if d0 or d1:
            ck.add_violation(("sampling a container, changing one patch pair with set_patch_pair and sampling again gives a "
                              "result that does not belong to the counts stored now: " + d1) if d1 and not d0 else
                             f"CorrFunc.sample differs from the documented estimator: {d0 or d1}",
                             {"kind": "mutate", "member": which, "pair": [i, j], "new_counts": new.tolist(), "N": N, "B": B,
                              "parts_after": raw_json(raw)})
