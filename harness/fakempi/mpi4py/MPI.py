from __future__ import annotations

import hashlib
import pickle
import random
import sys
import threading
from collections import defaultdict, deque

ANY_SOURCE = -1
ANY_TAG = -1
UNDEFINED = -32766
_tls = threading.local()
_world = None          # the World currently running (one at a time)


class WorldAborted(BaseException):
    """raised inside rank threads when the world is torn down (deadlock / failure of another rank)"""


def _rank() -> int:
    return getattr(_tls, "rank", 0)


def Get_processor_name() -> str:
    w = _world
    if w is None:
        return "node0"
    return w.names[_rank()]


class Schedule:
    """source of all nondeterministic choices; records them so that a run can be replayed exactly"""

    def __init__(self, seed=0, send_mode="eager", policy="random", prefix=None, starve=None):
        self.rng = random.Random(seed)
        self.send_mode = send_mode          # eager | sync | mixed
        self.policy = policy                # random | low | high | roundrobin
        self.prefix = list(prefix or [])    # forced choices (indices) consumed first
        self.starve = starve                # a rank that only runs when nothing else can
        self.log = []                       # (kind, n options, chosen index)
        self._rr = 0

    def choose(self, kind: str, options: list, key=lambda x: x):
        n = len(options)
        if n == 1:
            return options[0]
        if self.prefix:
            i = self.prefix.pop(0) % n
        else:
            opts = options
            if kind == "run" and self.starve is not None and any(key(o) != self.starve for o in options):
                opts = [o for o in options if key(o) != self.starve]
            if self.policy == "low":
                pick = min(opts, key=key)
            elif self.policy == "high":
                pick = max(opts, key=key)
            elif self.policy == "roundrobin":
                self._rr += 1
                pick = sorted(opts, key=key)[self._rr % len(opts)]
            else:
                pick = self.rng.choice(opts)
            i = options.index(pick)
        self.log.append((kind, n, i))
        return options[i]

    def mode(self) -> str:
        if self.send_mode == "mixed":
            return self.choose("mode", ["eager", "sync"])
        return self.send_mode


class _Op:
    kind = "?"

    def __init__(self, rank):
        self.rank = rank
        self.result = None
        self.done = False

    def post(self, w):        # executed when the rank enters the call
        pass

    def enabled(self, w) -> bool:
        return True

    def complete(self, w):
        pass

    def describe(self) -> str:
        return self.kind


class _Send(_Op):
    kind = "send"

    def __init__(self, rank, comm, dest, tag, obj):
        super().__init__(rank)
        self.comm, self.dest, self.tag = comm, dest, tag
        self.payload = pickle.dumps(obj)
        self.label = _label(obj)
        self.msg = None
        self.mode = "eager"

    def post(self, w):
        self.mode = w.schedule.mode()
        w.msg_counter += 1
        self.msg = {"id": w.msg_counter, "payload": self.payload, "label": self.label, "consumed": False,
                    "digest": hashlib.sha1(self.payload).hexdigest()[:10]}
        src_w, dst_w = self.comm.members[self.comm.Get_rank()], self.comm.members[self.dest]
        w.chan[(self.comm.cid, src_w, dst_w, self.tag)].append(self.msg)
        w.event(self.rank, "send", comm=self.comm.cid, dst=dst_w, tag=self.tag, msg=self.msg["id"], label=self.label,
                digest=self.msg["digest"], mode=self.mode)

    def enabled(self, w):
        return self.mode == "eager" or self.msg["consumed"]

    def describe(self):
        return f"send(dest={self.dest}, tag={self.tag}, {self.label}, {self.mode})"


class _Recv(_Op):
    kind = "recv"

    def __init__(self, rank, comm, source, tag):
        super().__init__(rank)
        self.comm, self.source, self.tag = comm, source, tag

    def _candidates(self, w):
        me = self.comm.members[self.comm.Get_rank_of(self.rank)]
        srcs = self.comm.members if self.source == ANY_SOURCE else [self.comm.members[self.source]]
        return [(s, w.chan[(self.comm.cid, s, me, self.tag)]) for s in srcs
                if w.chan.get((self.comm.cid, s, me, self.tag))]

    def enabled(self, w):
        return bool(self._candidates(w))

    def complete(self, w):
        cands = self._candidates(w)
        src, q = w.schedule.choose("match", cands, key=lambda c: c[0])
        msg = q.popleft()
        msg["consumed"] = True
        self.result = pickle.loads(msg["payload"])
        w.event(self.rank, "recv", comm=self.comm.cid, src=src, tag=self.tag, msg=msg["id"], label=msg["label"],
                digest=msg["digest"], wildcard=self.source == ANY_SOURCE, options=sorted(c[0] for c in cands))

    def describe(self):
        return f"recv(source={'ANY' if self.source == ANY_SOURCE else self.source}, tag={self.tag})"


class _Collective(_Op):
    """barrier / bcast / gather / split: the k-th collective call of every member of a communicator"""

    def __init__(self, rank, comm, kind, root=0, value=None):
        super().__init__(rank)
        self.comm, self.kind, self.root, self.value = comm, kind, root, value
        self.rec = None
        self.site = _site()

    def post(self, w):
        me = self.comm.Get_rank_of(self.rank)
        k = w.coll_count[(self.comm.cid, self.rank)]
        w.coll_count[(self.comm.cid, self.rank)] += 1
        rec = w.coll.setdefault((self.comm.cid, k), {"kind": self.kind, "root": self.root, "arrived": {}, "left": set()})
        if rec["kind"] != self.kind or (self.kind in ("bcast", "gather", "Bcast") and rec["root"] != self.root):
            raise RuntimeError(f"collective mismatch on communicator {self.comm.cid}: rank {self.rank} calls {self.kind}, "
                               f"others are in {rec['kind']}")
        rec["arrived"][me] = pickle.dumps(self.value) if self.kind != "Bcast" else self.value
        self.rec, self.k = rec, k
        w.event(self.rank, self.kind, comm=self.comm.cid, k=k)
        w.coll_sites.setdefault(self.rank, []).append([self.comm.cid, self.kind, self.site])

    def enabled(self, w):
        rec, n, me = self.rec, len(self.comm.members), self.comm.Get_rank_of(self.rank)
        full = len(rec["arrived"]) == n
        if self.kind in ("barrier", "split", "allgather"):
            return full
        if self.kind in ("bcast", "Bcast"):
            if me == self.root:
                return True if w.schedule.send_mode != "sync" else full
            return self.root in rec["arrived"]
        if self.kind == "gather":
            return full if me == self.root else True
        raise AssertionError(self.kind)

    def complete(self, w):
        rec, me = self.rec, self.comm.Get_rank_of(self.rank)
        if self.kind == "bcast":
            self.result = pickle.loads(rec["arrived"][self.root])
        elif self.kind == "Bcast":
            src = rec["arrived"][self.root]
            if me != self.root:
                self.value[...] = src
            self.result = None
        elif self.kind == "gather":
            self.result = [pickle.loads(rec["arrived"][i]) for i in range(len(self.comm.members))] if me == self.root else None
        elif self.kind == "split":
            entries = {i: pickle.loads(v) for i, v in rec["arrived"].items()}
            color, _ = entries[me]
            if color == UNDEFINED:
                self.result = COMM_NULL
            else:
                group = sorted((key, self.comm.members[i]) for i, (c, key) in entries.items() if c == color)
                self.result = Comm(f"{self.comm.cid}/{self.k}:{color}", [m for _, m in group])
        w.event(self.rank, self.kind + "-done", comm=self.comm.cid, k=self.k)

    def describe(self):
        return f"{self.kind}(comm={self.comm.cid}, waiting for {len(self.comm.members) - len(self.rec['arrived'])} more)"


def _site() -> str:
    """the library function (file:qualified name@line) from which the current MPI call was made"""
    f = sys._getframe(1)
    while f is not None:
        fn = f.f_code.co_filename
        if "/yaw/" in fn and "fakempi" not in fn:
            rel = fn.split("/yaw/", 1)[1]
            return f"{rel}:{getattr(f.f_code, 'co_qualname', f.f_code.co_name)}@{f.f_lineno}"
        f = f.f_back
    return "-"


def _label(obj) -> str:
    if isinstance(obj, type) and obj.__name__ == "EndOfQueue":
        return "EOQ"
    return type(obj).__name__


class Comm:
    def __init__(self, cid: str, members: list[int]):
        self.cid, self.members = cid, list(members)

    # -- local
    def Get_size(self) -> int:
        if self.cid == "world":
            w = _world
            return w.size if w is not None else 2
        return len(self.members)

    def Get_rank_of(self, world_rank: int) -> int:
        if self.cid == "world":
            return world_rank
        return self.members.index(world_rank)

    def Get_rank(self) -> int:
        return self.Get_rank_of(_rank())

    def Free(self) -> None:
        return None

    # -- point to point
    def send(self, obj, dest, tag=0):
        _world.call(_Send(_rank(), self._live(), dest, tag, obj))

    def recv(self, buf=None, source=ANY_SOURCE, tag=ANY_TAG, status=None):
        if tag == ANY_TAG:
            raise NotImplementedError("ANY_TAG is not used by yet_another_wizz")
        return _world.call(_Recv(_rank(), self._live(), source, tag))

    # -- collectives
    def Barrier(self):
        _world.call(_Collective(_rank(), self._live(), "barrier"))

    barrier = Barrier

    def bcast(self, obj=None, root=0):
        return _world.call(_Collective(_rank(), self._live(), "bcast", root, obj if self.Get_rank() == root else None))

    def Bcast(self, buf, root=0):
        return _world.call(_Collective(_rank(), self._live(), "Bcast", root, buf))

    def gather(self, sendobj, root=0):
        return _world.call(_Collective(_rank(), self._live(), "gather", root, sendobj))

    def Split(self, color=0, key=0):
        return _world.call(_Collective(_rank(), self._live(), "split", 0, (color, key)))

    def _live(self):
        if self.cid == "world":
            self.members = list(range(_world.size))
        return self

    def __repr__(self):
        return f"<fake Comm {self.cid} {self.members}>"


class _NullComm:
    def Free(self):
        return None

    def __bool__(self):
        return False


COMM_NULL = _NullComm()
COMM_WORLD = Comm("world", [0, 1])
Intracomm = Comm


class World:
    def __init__(self, size: int, schedule: Schedule, names=None, max_steps=200000):
        self.size, self.schedule = size, schedule
        self.names = names or ["node0"] * size
        self.cv = threading.Condition()
        self.current = None
        self.pending: dict[int, _Op] = {}
        self.finished: set[int] = set()
        self.results, self.errors = {}, {}
        self.chan = defaultdict(deque)
        self.coll, self.coll_count = {}, defaultdict(int)
        self.coll_sites = {}
        self.msg_counter = 0
        self.trace = []
        self.aborted = False
        self.deadlock = None
        self.max_steps = max_steps

    def event(self, rank, kind, **kw):
        self.trace.append(dict(rank=rank, kind=kind, **kw))

    # called by rank threads -------------------------------------------------------------------------------
    def call(self, op: _Op):
        with self.cv:
            if self.aborted:
                raise WorldAborted()
            op.post(self)
            self.pending[op.rank] = op
            self.current = None
            self.cv.notify_all()
            while not (op.done and self.current == op.rank):
                if self.aborted:
                    raise WorldAborted()
                self.cv.wait()
        return op.result

    def _thread(self, rank, fn):
        _tls.rank = rank
        with self.cv:
            while self.current != rank:
                if self.aborted:
                    return
                self.cv.wait()
        try:
            self.results[rank] = fn(rank)
        except WorldAborted:
            pass
        except BaseException as e:  # noqa: BLE001
            import traceback
            self.errors[rank] = f"{type(e).__name__}: {e}"
            self.event(rank, "raised", error=self.errors[rank], where=traceback.format_exc()[-600:])
        finally:
            with self.cv:
                self.finished.add(rank)
                if self.current == rank:
                    self.current = None
                self.cv.notify_all()

    # scheduler (caller's thread) ---------------------------------------------------------------------------
    def run(self, fn):
        global _world
        _world = self
        COMM_WORLD.members = list(range(self.size))
        threads = [threading.Thread(target=self._thread, args=(r, fn), daemon=True) for r in range(self.size)]
        for t in threads:
            t.start()
        started: set[int] = set()
        steps = 0
        try:
            with self.cv:
                while True:
                    while self.current is not None:
                        self.cv.wait()
                    if len(self.finished) == self.size:
                        break
                    options = [("start", r) for r in range(self.size) if r not in started]
                    options += [("op", r) for r, op in sorted(self.pending.items()) if op.enabled(self)]
                    if not options:
                        self.deadlock = {r: op.describe() for r, op in sorted(self.pending.items())}
                        break
                    steps += 1
                    if steps > self.max_steps:
                        self.deadlock = {"livelock": f"more than {self.max_steps} scheduling steps"}
                        break
                    kind, r = self.schedule.choose("run", options, key=lambda o: o[1])
                    if kind == "start":
                        started.add(r)
                    else:
                        op = self.pending.pop(r)
                        op.complete(self)
                        op.done = True
                    self.current = r
                    self.cv.notify_all()
                self.aborted = True
                self.cv.notify_all()
        finally:
            for t in threads:
                t.join(timeout=5)
            _world = None
        unreceived = [dict(comm=k[0], src=k[1], dst=k[2], tag=k[3], label=m["label"]) for k, q in self.chan.items() for m in q]
        return {"results": self.results, "errors": self.errors, "deadlock": self.deadlock, "unreceived": unreceived,
                "choices": self.schedule.log, "steps": steps,
                "coll_sites": {str(r): v for r, v in self.coll_sites.items()}}
