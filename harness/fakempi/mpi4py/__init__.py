"""Simulated MPI world for the C06 check: the subset of mpi4py that yet_another_wizz uses, with every rank a thread
of one process and ONE rank running at a time.  Every MPI call is a scheduling point; a controlled schedule decides
which blocked call completes next, which sender a wildcard receive matches and whether a send completes eagerly or
synchronously.  A state in which no call can complete is a deadlock and is reported as such (no timeouts)."""
