"""Helpers to create real yaw catalogs in scratch directories (removed afterwards)."""
from __future__ import annotations

import atexit
import os
import shutil
import tempfile
from pathlib import Path

import numpy as np

_ROOTS = []


def scratch_root(prefix="yawverif.") -> Path:
    base = os.environ.get("TMPDIR", "/tmp")
    d = Path(tempfile.mkdtemp(prefix=prefix, dir=base))
    _ROOTS.append(d)
    return d


@atexit.register
def _cleanup():
    for d in _ROOTS:
        shutil.rmtree(d, ignore_errors=True)


def remove(d):
    shutil.rmtree(d, ignore_errors=True)


def dataframe(ra, dec, z=None, w=None, patch=None):
    import pandas as pd
    cols = {"ra": np.asarray(ra, dtype=float), "dec": np.asarray(dec, dtype=float)}
    if z is not None:
        cols["z"] = np.asarray(z, dtype=float)
    if w is not None:
        cols["w"] = np.asarray(w, dtype=float)
    if patch is not None:
        cols["patch"] = np.asarray(patch)
    return pd.DataFrame(cols)


def make_catalog(path, ra, dec, z=None, w=None, patch=None, centers=None, patch_num=None, degrees=False,
                 overwrite=True, **kw):
    """Catalog.from_dataframe with columns ra/dec/(z)/(w)/(patch); coordinates in radian by default"""
    from yaw import Catalog
    df = dataframe(ra, dec, z, w, patch)
    if overwrite and Path(path).exists() and not (Path(path) / "patch_ids.bin").exists():
        # scratch directories of the harness: a creation that failed earlier leaves a directory that is not a catalog
        # cache, which the library rightly refuses to overwrite — remove it; a COMPLETE earlier catalog is left in place
        # so that the library's own overwrite path runs (state kept about the old catalog must not leak into the new one)
        shutil.rmtree(path, ignore_errors=True)
    return Catalog.from_dataframe(
        path, df, ra_name="ra", dec_name="dec",
        redshift_name="z" if z is not None else None,
        weight_name="w" if w is not None else None,
        patch_name="patch" if patch is not None and centers is None else None,
        patch_centers=centers, patch_num=patch_num, degrees=degrees, overwrite=overwrite, **kw)


class Workers:
    """context manager setting YAW_NUM_THREADS (read at call time by yaw)"""

    def __init__(self, n):
        self.n = n

    def __enter__(self):
        self.old = os.environ.get("YAW_NUM_THREADS")
        os.environ["YAW_NUM_THREADS"] = str(self.n)

    def __exit__(self, *a):
        if self.old is None:
            os.environ.pop("YAW_NUM_THREADS", None)
        else:
            os.environ["YAW_NUM_THREADS"] = self.old
