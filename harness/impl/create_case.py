"""Runs ONE catalog creation described by a JSON spec (stdin) in this process and prints a JSON result.
Executed in a subprocess by the C09 / C08 checks so that hangs can be bounded by a timeout."""
import json
import os
import sys
import warnings

warnings.filterwarnings("ignore")
spec = json.load(sys.stdin)
sys.path.insert(0, os.environ.get("YAW_SRC", "/repo/src"))
os.environ["YAW_NUM_THREADS"] = str(spec.get("workers", 1))

import numpy as np  # noqa: E402
import pandas as pd  # noqa: E402

np.seterr(all="ignore")
from yaw import AngularCoordinates, Catalog  # noqa: E402


class RaisingFrame:
    """data-frame-like source whose k-th slice raises (a reader fault at a chosen chunk)"""

    def __init__(self, df, fail_at):
        self._df, self._fail_at, self._n = df, fail_at, 0

    def __len__(self):
        return len(self._df)

    def __getitem__(self, key):
        if isinstance(key, slice):
            if self._n == self._fail_at:
                raise OSError("injected reader fault")
            self._n += 1
        return self._df[key]


def main():
    cols = {k: np.asarray(v, dtype=float) for k, v in spec["columns"].items()}
    if "patch" in cols:
        # (a patch column with a missing value arrives as floats — what pandas / Parquet make of a nullable integer column)
        pvals = [float("nan") if v is None else v for v in spec["columns"]["patch"]]
        cols["patch"] = np.asarray(pvals, dtype=np.float64 if any(isinstance(v, float) for v in pvals) else np.int64)
    kw = dict(ra_name=spec.get("ra_name", "ra"), dec_name="dec", degrees=False, chunksize=spec["chunksize"],
              overwrite=spec.get("overwrite", False))
    if "w" in cols:
        kw["weight_name"] = "w"
    if "z" in cols:
        kw["redshift_name"] = "z"
    if spec.get("centres") is not None:
        kw["patch_centers"] = AngularCoordinates(np.asarray(spec["centres"], dtype=float))
    if spec.get("patch_name"):
        kw["patch_name"] = "patch"
    if spec.get("patch_num"):
        kw["patch_num"] = spec["patch_num"]
        kw["probe_size"] = len(cols["ra"])
    source = spec.get("source", "df")
    if source == "hdf5":
        import h5py
        path = spec["input_path"]
        with h5py.File(path, "w") as f:
            for k, v in cols.items():
                v = v[: spec.get("truncate", {}).get(k, len(v))]
                extra = spec.get("extend", {}).get(k, 0)        # a column LONGER than the others
                if extra:
                    v = np.concatenate([v, v[:extra]])
                f[k] = v
        cat = Catalog.from_file(spec["cache"], path, **kw)
    elif source == "parquet":
        import pyarrow as pa
        import pyarrow.parquet as pq
        path = spec["input_path"].replace(".hdf5", ".pqt")
        tab = pa.table({k: np.asarray(v) for k, v in cols.items()})
        sizes = spec.get("row_groups") or [len(tab)]          # row groups of the given (unequal) sizes
        with pq.ParquetWriter(path, tab.schema) as wr:
            at = 0
            for sz in sizes:
                wr.write_table(tab.slice(at, sz))
                at += sz
        cat = Catalog.from_file(spec["cache"], path, **kw)
    else:
        df = pd.DataFrame(cols)
        if spec.get("reader_fault_at") is not None:
            df = RaisingFrame(df, spec["reader_fault_at"])
        cat = Catalog.from_dataframe(spec["cache"], df, **kw)
    keys = list(cat.keys())
    recs = []
    for p in keys:
        d = cat[p].load_data()
        recs.append(sorted(d["ra"].tolist()))
    return {"outcome": "ok", "keys": keys, "ra": recs}


try:
    res = main()
except BaseException as e:  # noqa: BLE001
    res = {"outcome": "raised", "exc": type(e).__name__, "msg": str(e)[:200]}
print("RESULT " + json.dumps(res))
