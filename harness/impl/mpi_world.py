"""Runs yet_another_wizz's MPI code paths in simulated MPI worlds (harness/fakempi).  One JSON job per input line:
{id, scenario, params, size, names, schedule{seed, send_mode, policy, starve, prefix}, dir}; one JSON result per line.
The same scenario functions run WITHOUT MPI when YAW_VERIF_NOMPI=1 (single-process reference, rank 0 only)."""
import hashlib
import json
import os
import shutil
import sys
import warnings
from pathlib import Path

warnings.filterwarnings("ignore")
HERE = Path(__file__).resolve().parent.parent
NOMPI = os.environ.get("YAW_VERIF_NOMPI") == "1"
if not NOMPI:
    sys.path.insert(0, str(HERE / "fakempi"))
sys.path.insert(0, os.environ.get("YAW_SRC", "/repo/src"))
os.environ["YAW_NUM_THREADS"] = "1"

import numpy as np  # noqa: E402

np.seterr(all="ignore")
import pandas as pd  # noqa: E402

import yaw  # noqa: E402
from yaw import AngularCoordinates, Catalog, Configuration, CorrFunc  # noqa: E402
from yaw.redshifts import HistData  # noqa: E402
from yaw.utils import parallel  # noqa: E402

if not NOMPI:
    from mpi4py import MPI  # noqa: E402
    assert parallel.use_mpi(), "the simulated MPI world was not picked up"

CENT = np.array([[0.1, 0.0], [0.3, 0.1], [0.2, -0.2], [0.45, -0.1], [0.0, 0.2]])


def digest(*arrays) -> str:
    h = hashlib.sha1()
    for a in arrays:
        h.update(np.ascontiguousarray(a).tobytes())
    return h.hexdigest()[:16]


def frame(n, seed, ncent, with_patch=False):
    r = np.random.default_rng(seed)
    cc = CENT[np.arange(n) % ncent]
    d = dict(ra=cc[:, 0] + r.uniform(-.03, .03, n), dec=cc[:, 1] + r.uniform(-.03, .03, n),
             z=r.uniform(0.1, 1, n), w=r.choice([1., 2.], n))
    if with_patch:
        d["patch"] = np.arange(n) % ncent
    return pd.DataFrame(d)


def cat_summary(cat):
    out = {"keys": list(cat.keys()), "num": list(map(int, cat.get_num_records())),
           "sumw": [float(x) for x in cat.get_sum_weights()]}
    recs, allc = [], None
    for pid in cat.keys():
        d = cat[pid].load_data()
        cols = [np.asarray(d[n], dtype=float) for n in d.dtype.names]
        order = np.lexsort(cols[::-1])
        recs.append(digest(*[c[order] for c in cols]))
        allc = cols if allc is None else [np.concatenate([a, c]) for a, c in zip(allc, cols)]
    out["records"] = recs
    order = np.lexsort(allc[::-1])
    out["all"] = digest(*[c[order] for c in allc])
    return out


def cf_summary(cf):
    out = {}
    for k, x in cf.to_dict().items():
        out[k] = digest(x.counts.counts, x.sum_weights.sum_weights1, x.sum_weights.sum_weights2)
        out[k + "_total"] = float(x.counts.counts.sum())
    return out


def make_catalog(path, df, ncent, mode, mw, chunksize, progress=False):
    kw = dict(ra_name="ra", dec_name="dec", redshift_name="z", weight_name="w", degrees=False, chunksize=chunksize,
              overwrite=True, max_workers=mw, progress=progress)
    if mode == "centres":
        kw["patch_centers"] = AngularCoordinates(CENT[:ncent])
    elif mode == "ids":
        kw["patch_name"] = "patch"
    else:
        kw["patch_num"] = ncent
        kw["probe_size"] = len(df)
    return Catalog.from_dataframe(path, df, **kw)


def scenario(name, p, workdir: Path, rank: int):
    """SPMD body: every rank runs this; returns a JSON-able summary"""
    mw = p.get("max_workers")
    prog = bool(p.get("progress", False))        # progress display wraps the parallel iterators on every rank
    ncent = p.get("ncent", 3)
    edges = p.get("edges", [0.1, 0.4, 0.7, 1.0])
    closed = p.get("closed", "right")     # the non-default side has to survive every transport between ranks
    conf = Configuration.create(rmin=0.005, rmax=0.08, unit="rad", edges=edges, closed=closed)
    if name == "create":
        df = frame(p["n"], p["seed"], ncent, with_patch=p["mode"] == "ids")
        if p.get("source"):          # from a file written by the harness before the world started (root reads, others get chunks)
            kw = dict(ra_name="ra", dec_name="dec", redshift_name="z", weight_name="w", degrees=False,
                      chunksize=p["chunksize"], overwrite=True, max_workers=mw, progress=prog,
                      patch_centers=AngularCoordinates(CENT[:ncent]))
            cat = Catalog.from_file(workdir / "cat", workdir / f"input.{p['source']}", **kw)
            return cat_summary(cat)
        cat = make_catalog(workdir / "cat", df, ncent, p["mode"], mw, p["chunksize"], prog)
        return cat_summary(cat)
    if name == "load":
        cat = Catalog(workdir / "pre_d", max_workers=mw)
        return cat_summary(cat)
    if name == "trees":
        cat = Catalog(workdir / "pre_d", max_workers=mw)
        cat.build_trees(edges, closed=closed, force=True, max_workers=mw, progress=prog)
        out = []
        if rank == 0:
            import pickle
            for pid in cat.keys():
                with open(cat[pid].cache_path / "trees.pkl", "rb") as f:
                    t = pickle.load(f)
                out.append([int(x.num_records) for x in t])
        return {"trees": out}
    if name in ("auto", "cross"):
        d, r = Catalog(workdir / "pre_d", max_workers=mw), Catalog(workdir / "pre_r", max_workers=mw)
        if name == "auto":
            cf = yaw.autocorrelate(conf, d, r, count_rr=True, max_workers=mw, progress=prog)[0]
        else:
            u = Catalog(workdir / "pre_u", max_workers=mw)
            cf = yaw.crosscorrelate(conf, d, u, ref_rand=r, max_workers=mw, progress=prog)[0]
        return cf_summary(cf)
    if name == "hist":
        d = Catalog(workdir / "pre_d", max_workers=mw)
        h = HistData.from_catalog(d, conf, max_workers=mw, progress=prog)
        return {"hist": digest(h.data, h.samples)}
    if name == "io":
        d, r = Catalog(workdir / "pre_d", max_workers=mw), Catalog(workdir / "pre_r", max_workers=mw)
        cf = yaw.autocorrelate(conf, d, r, count_rr=True, max_workers=mw)[0]
        cf.to_file(workdir / "cf.hdf5")
        back = CorrFunc.from_file(workdir / "cf.hdf5")
        cd = back.sample()
        cd.to_files(workdir / "cd")
        cd2 = type(cd).from_files(workdir / "cd")
        conf.to_file(workdir / "conf.yml")
        conf2 = Configuration.from_file(workdir / "conf.yml")
        return {"conf": bool(conf2 == conf) and conf2.binning.edges.tolist() == conf.binning.edges.tolist(),
                "cf": cf_summary(back), "same": bool(back == cf), "cd": digest(cd2.data, cd2.samples),
                "cd_text": hashlib.sha1((workdir / "cd.dat").read_bytes() + (workdir / "cd.smp").read_bytes()).hexdigest()[:16]}
    if name == "iter":          # the dispatch protocol alone: tasks -> results
        tasks = list(range(p["ntasks"]))
        got = list(parallel.iter_unordered(_square, tasks, max_workers=mw, rank0_node_only=p.get("node_only", False)))
        return {"results": sorted(got), "order": got}
    raise SystemExit(f"unknown scenario {name}")


def _square(x):
    return x * x


def prepare(workdir: Path, p):
    """pre-built caches for the scenarios that start from existing catalogs (built without MPI semantics: by rank 0 of
    a reference world is not possible here, so they are created by the harness and copied in)"""
    if p.get("source"):
        df = frame(p["n"], p["seed"], p.get("ncent", 3))
        path = workdir / f"input.{p['source']}"
        if p["source"] == "hdf5":
            import h5py
            with h5py.File(path, "w") as f:
                for k in df.columns:
                    f[k] = df[k].to_numpy()
        elif p["source"] == "pqt":
            df.to_parquet(path, row_group_size=7)
        else:
            from astropy.io import fits
            fits.BinTableHDU.from_columns([fits.Column(name=k, format="D", array=df[k].to_numpy()) for k in df.columns]).writeto(path)
    src = Path(p["prebuilt"]) if p.get("prebuilt") else None
    if src is not None:
        for name in ("pre_d", "pre_r", "pre_u"):
            if (src / name).exists():
                shutil.copytree(src / name, workdir / name)
        if p.get("drop_meta"):
            for m in (workdir / "pre_d").glob("patch_*/meta.yml"):
                m.unlink()


def run_job(job):
    workdir = Path(job["dir"]) / f"job_{job['id']}"
    shutil.rmtree(workdir, ignore_errors=True)
    workdir.mkdir(parents=True)
    prepare(workdir, job["params"])
    try:
        if NOMPI:
            return {"id": job["id"], "results": {"0": scenario(job["scenario"], job["params"], workdir, 0)}, "errors": {},
                    "deadlock": None, "unreceived": [], "choices": [], "steps": 0, "trace": []}
        s = job.get("schedule", {})
        sched = MPI.Schedule(seed=s.get("seed", 0), send_mode=s.get("send_mode", "eager"), policy=s.get("policy", "random"),
                             prefix=s.get("prefix"), starve=s.get("starve"))
        world = MPI.World(job["size"], sched, names=job.get("names"))
        res = world.run(lambda rank: scenario(job["scenario"], job["params"], workdir, rank))
        res["id"] = job["id"]
        res["results"] = {str(k): v for k, v in res["results"].items()}
        res["errors"] = {str(k): v for k, v in res["errors"].items()}
        res["trace"] = world.trace if job.get("want_trace") else [e for e in world.trace if e["kind"] == "raised"]
        return res
    except BaseException as e:  # noqa: BLE001
        import traceback
        return {"id": job["id"], "results": {}, "errors": {"runner": f"{type(e).__name__}: {e}"}, "deadlock": None,
                "unreceived": [], "choices": [], "steps": 0, "trace": [], "where": traceback.format_exc()[-800:]}
    finally:
        shutil.rmtree(workdir, ignore_errors=True)


def run_dfs(job):
    """stateless depth-first enumeration of ALL schedules of a (small) world: every choice point (which call
    completes next, which sender a wildcard receive matches, eager / synchronous) is branched on"""
    limit = job.get("limit", 20000)
    prefix, count, outcomes, bad, exhausted = [], 0, {}, [], False
    while count < limit:
        j = dict(job, id=f"{job['id']}_{count}", schedule=dict(job.get("schedule", {}), prefix=list(prefix), policy="low"),
                 want_trace=False)
        res = run_job(j)
        count += 1
        key = json.dumps({"r": res["results"].get("0"), "e": sorted(res["errors"]), "d": bool(res["deadlock"]),
                          "u": len(res["unreceived"])}, sort_keys=True)
        outcomes[key] = outcomes.get(key, 0) + 1
        if (res["deadlock"] or res["errors"] or res["unreceived"]) and len(bad) < 3:
            bad.append({"choices": res["choices"], "deadlock": res["deadlock"], "errors": res["errors"],
                        "unreceived": res["unreceived"][:3]})
        log = res["choices"]          # [(kind, n, i)] of this run; find the last choice that can be advanced
        k = len(log) - 1
        while k >= 0 and log[k][2] + 1 >= log[k][1]:
            k -= 1
        if k < 0:
            exhausted = True
            break
        prefix = [c[2] for c in log[:k]] + [log[k][2] + 1]
    return {"id": job["id"], "dfs": True, "schedules": count, "exhausted": exhausted, "bad": bad,
            "outcomes": [{"outcome": json.loads(k), "count": v} for k, v in outcomes.items()]}


for line in sys.stdin:
    line = line.strip()
    if not line:
        continue
    _job = json.loads(line)
    print("RESULT " + json.dumps(run_dfs(_job) if _job.get("dfs") else run_job(_job), default=str), flush=True)
