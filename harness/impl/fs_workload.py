"""Performs ONE cache-writing workload described by a JSON spec on stdin (run under strace by the C08 check)."""
import json
import os
import sys
import warnings

warnings.filterwarnings("ignore")
spec = json.load(sys.stdin)
sys.path.insert(0, os.environ.get("YAW_SRC", "/repo/src"))
os.environ["YAW_NUM_THREADS"] = str(spec.get("workers", 1))

import numpy as np  # noqa: E402

np.seterr(all="ignore")


def binning_of(b):
    return (None, "right") if b is None else (b["edges"], b["closed"])


def main(spec):
    kind = spec["kind"]
    if kind == "steps":          # several workloads in one process (prior states)
        for st in spec["steps"]:
            if st == "drop-meta":
                from pathlib import Path
                for m in Path(spec["cache"]).glob("patch_*/meta.yml"):
                    m.unlink()
            else:
                main(dict(st, cache=spec["cache"]))
        return
    if kind in ("create", "overwrite"):
        import pandas as pd
        from yaw import AngularCoordinates, Catalog
        cols = {k: np.asarray(v, dtype=float) for k, v in spec["columns"].items()}
        kw = dict(ra_name="ra", dec_name="dec", degrees=False, chunksize=spec["chunksize"],
                  overwrite=kind == "overwrite")
        if "w" in cols:
            kw["weight_name"] = "w"
        if "z" in cols:
            kw["redshift_name"] = "z"
        if spec.get("centres") is not None:
            kw["patch_centers"] = AngularCoordinates(np.asarray(spec["centres"], dtype=float))
        else:
            cols["patch"] = np.asarray(spec["columns"]["patch"], dtype=np.int64)
            kw["patch_name"] = "patch"
        if spec.get("buffersize") is not None:
            # the lower-level entry point with a bounded writer buffer: records stay in memory until a buffer fills up
            # or the writers are closed at finalisation
            from yaw.catalog.catalog import write_patches
            from yaw.catalog.readers import DataFrameReader
            reader = DataFrameReader(pd.DataFrame(cols), ra_name="ra", dec_name="dec", degrees=False,
                                     weight_name=kw.get("weight_name"), redshift_name=kw.get("redshift_name"),
                                     patch_name=kw.get("patch_name"), chunksize=spec["chunksize"])
            write_patches(spec["cache"], reader, kw.get("patch_centers"), overwrite=kw["overwrite"], progress=False,
                          max_workers=spec.get("workers", 1), buffersize=spec["buffersize"])
            Catalog(spec["cache"])          # computes the metadata like from_dataframe does
        else:
            Catalog.from_dataframe(spec["cache"], pd.DataFrame(cols), **kw)
    elif kind == "open":          # computes missing metadata
        from yaw import Catalog
        Catalog(spec["cache"])
    elif kind == "build":
        from yaw import Catalog
        cat = Catalog(spec["cache"])
        edges, closed = binning_of(spec["binning"])
        cat.build_trees(edges, closed=closed, force=spec.get("force", False))
    elif kind == "corrfunc":
        from yaw import CorrFunc
        cf = CorrFunc.from_file(spec["source"])
        cf.to_file(spec["target"])
    elif kind == "corrdata":
        from yaw import CorrFunc
        cf = CorrFunc.from_file(spec["source"])
        cf.sample().to_files(spec["target"])
    elif kind == "synth":        # CorrData / RedshiftData / HistData of a chosen size from a seed
        import yaw
        from yaw import Binning
        rng = np.random.default_rng(spec["seed"])
        nb, ns = spec["bins"], spec["samples"]
        binning = Binning(np.linspace(0.1, 1.0, nb + 1), closed=spec.get("closed", "right"))
        cls = getattr(yaw, spec.get("cls", "CorrData"))
        cls(binning, rng.normal(size=nb), rng.normal(size=(ns, nb))).to_files(spec["target"])
    elif kind == "redshiftdata":
        from yaw import CorrFunc, RedshiftData
        cf = CorrFunc.from_file(spec["source"])
        RedshiftData.from_corrdata(cf.sample()).to_files(spec["target"])
    elif kind == "histdata":
        from yaw import Catalog, Configuration
        from yaw.redshifts import HistData
        cat = Catalog(spec["cache"])
        edges, closed = binning_of(spec["binning"])
        conf = Configuration.create(rmin=0.005, rmax=0.05, unit="rad", edges=edges, closed=closed)
        HistData.from_catalog(cat, conf).to_files(spec["target"])
    else:
        raise SystemExit(f"unknown workload {kind}")


main(spec)
print("DONE")
