#!/venv/bin/python
"""Rewrites the pin constants quoted in lean/YawVerif/Props/*.lean to the values the translator produces for
the CURRENT /repo/src.  Use only after reviewing that the pinned glue changed for a reason the hand-written
model already reflects (e.g. after a `fix:` commit)."""
import re, subprocess, sys
from pathlib import Path
V = Path(__file__).resolve().parent.parent
subprocess.check_call(["/venv/bin/python", str(V / "translator/translate.py"), "--src", "/repo/src"])
pins = {}
for f in (V / "lean/YawVerif/Generated").glob("*.lean"):
    for m in re.finditer(r'def (pin\w+) : String := "([0-9a-f]+)"', f.read_text()):
        if pins.get(m.group(1), m.group(2)) != m.group(2):
            sys.exit(f"pin name {m.group(1)} is generated twice with different values")
        pins[m.group(1)] = m.group(2)
for f in (V / "lean/YawVerif/Props").glob("*.lean"):
    s = f.read_text()
    t = re.sub(r'Gen\.(pin\w+) = "([0-9a-f]+)"', lambda m: f'Gen.{m.group(1)} = "{pins.get(m.group(1), m.group(2))}"', s)
    if t != s:
        f.write_text(t)
        print("updated", f.name)
