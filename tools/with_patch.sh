#!/bin/sh
# tools/with_patch.sh <patch.diff|--revert COMMIT> -- <command…>
# Runs a command against a scratch copy of /repo/src with a patch applied (YAW_SRC), then removes the copy.
set -e
SCRATCH=$(mktemp -d /tmp/yawsrc.XXXXXX)
trap 'rm -rf "$SCRATCH"' EXIT
mkdir -p "$SCRATCH/repo"
(cd /repo && git ls-files -z src | xargs -0 cp --parents -t "$SCRATCH/repo")
# also carry uncommitted working-tree state of src
rsync -a /repo/src/ "$SCRATCH/repo/src/" --exclude '__pycache__' --exclude '*.egg-info'
if [ "$1" = "--revert" ]; then
  # several commits may be given separated by commas (reverted in the given order, newest first)
  for c in $(echo "$2" | tr ',' ' '); do
    (cd /repo && git show "$c" -- src) | (cd "$SCRATCH/repo" && patch -R -p1 -s)
  done
  shift 2
else
  (cd "$SCRATCH/repo" && patch -p1 -s < "$1")
  shift 1
fi
[ "$1" = "--" ] && shift
# private copy of the Lean project (sources + build output): the patched run regenerates Generated/ there
VERIF_DIR=$(cd "$(dirname "$0")/.." && pwd)
cp -a "$VERIF_DIR/lean" "$SCRATCH/lean"
rm -f "$SCRATCH/lean/.lake/verif.lock"
YAW_LEAN_DIR="$SCRATCH/lean" YAW_SRC="$SCRATCH/repo/src" "$@" && rc=0 || rc=$?
exit $rc
