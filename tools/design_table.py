#!/usr/bin/env python3
"""Rewrites the table of seeded changes in DESIGN.md (section 9) from seeded/*/meta.json and seeded/RESULTS.tsv."""
import json
import re
from pathlib import Path

V = Path(__file__).resolve().parent.parent
res = {}
for line in (V / "seeded/RESULTS.tsv").read_text().splitlines():
    f = line.split("\t")
    if len(f) >= 3:
        res[f[0]] = f[2]          # later lines win
rows = ["| id | what the change does (needs) | own check |", "|---|---|---|"]
for d in sorted((V / "seeded").glob("C*_m*"), key=lambda p: (p.name.split("_")[0], int(p.name.split("_m")[1]))):
    m = json.loads((d / "meta.json").read_text())
    txt = " ".join(m["summary"].split())[:200].replace("|", "/")
    rows.append(f"| {d.name} | {txt}… | {res.get(d.name, 'not run')} |")
s = (V / "DESIGN.md").read_text()
pat = re.compile(r"\| id \| what the change does \(needs\) \| own check \|\n(?:\|.*\n)+")
assert pat.search(s)
s = pat.sub("\n".join(rows) + "\n", s, count=1)
(V / "DESIGN.md").write_text(s)
print(len(rows) - 2, "rows")
