#!/bin/sh
# tools/sweep.sh "<props>" "<seeds>" [tier]  — run checks over several seeds on the current tree, print non-clean lines
TIER=${3:-quick}
for p in $1; do for s in $2; do
  out=$(./check $p --seed $s --tier $TIER 2>&1 | grep -v Warn | tail -3)
  rc=$?
  echo "$out" | grep -q "VIOLATION\|INFRA\|Traceback" && echo "!! $p seed=$s: $out" || echo "ok $p seed=$s $(echo "$out" | tail -1 | sed 's/.*evaluations/evaluations/')"
done; done
