#!/usr/bin/env python3
"""Regenerates /verif/MANIFEST.json from the table below (keeps it schema-valid at all times)."""
import json
from pathlib import Path

VERIF = Path(__file__).resolve().parent.parent
BASELINE = ("cd /repo && /venv/bin/python -m pytest -ra -q -p no:cacheprovider --timeout=900 "
            "--continue-on-collection-errors")

CHECKS = {
    "C01": dict(
        text=("Theorems over an abstract pair primitive (all ordered object pairs of a bin and patch pair with weight "
              "product and separation): both dispatch modes of the generated dispatch_counts give the exact fine-bin "
              "counts; nearest-edge summation over the merged grid telescopes to all pairs in (theta_min, theta_max] for "
              "one or many overlapping scales; separation weighting contributes w*omega_k/sum(omega) per pair of fine "
              "bin k; iter_patch_id_pairs emits, for EVERY pop order, exactly the diagonal and the guarded linked pairs "
              "(permutation proof => exactly once); the generated link predicate is sound for any pseudo-metric "
              "(triangle inequality) so pruned patch pairs hold no pair below the pruning angle; assembling gives "
              "count_pairs_eq_spec_partial (auto: unordered pairs once, halved diagonal). PARTIAL: exact ties of a "
              "separation with the pruning angle (strict '<' in the link predicate, witness theorem) are excluded by "
              "hypothesis H3 - not exhibitable in floats; the KD-tree is assumed to count the primitive exactly. "
              "Tie: generated kernels + AST pins of the glue; AngularTree.count / PatchLinkage compared with the Lean "
              "model on real trees; full measurements compared with an independent O(n^2) oracle."),
        ref="5.C01", technique="Lean 4 theorems over translator-generated kernels + correspondence + independent brute-force oracle",
        note="scipy KDTree.count_neighbors exact on stored floats (validated); guard band 1e-9 on separations; astropy distances trusted"),
    "C02": dict(
        text=("Theorems (records are opaque values): the chunks of a pass concatenate to the input for every length and "
              "chunk size >= 1 (reader state machine built from the generated stop test / counter / slice bounds); "
              "np.array_split loses nothing for every worker count; a patch writer flushes everything it received for "
              "every buffer size (incl. -1); groupby (stable-sort + runs model of argsort / unique / split) yields every key once, ascending, with exactly its values for any keys incl. gaps (groupby_spec); MAIN pipeline_multiset + arrivals_perm: for every chunk size, worker count, "
              "buffer size and every order in which the workers of each chunk deliver their parts, the data file of "
              "patch p is a permutation of the input records of patch p; sequential mode gives the exact sub-sequence; "
              "header byte round-trips all flag combinations. Tie: generated kernels + AST pins of groupby / PatchWriter "
              "/ write_patches / split_into_patches; real creations from data frames, FITS, HDF5, Parquet with 1..4 real "
              "worker processes compared record-pattern by record-pattern incl. the reopened cache."),
        ref="5.C02", technique="Lean 4 theorems over generated reader kernels + hand-written pipeline model + correspondence",
        note="numpy argsort/unique/split, Pool.map, the file-format libraries and vq.vq are modelled/trusted; OS scheduling is replaced by the universally quantified delivery order"),
    "C03": dict(
        text=("Theorems (Lean 4, all N, B, k): the generated sample_patch_sum kernel equals the leave-one-out sum, "
              "which equals the total recomputed on the arrays with row/column k removed; same for the weight-product "
              "normalisation, NormalisedCounts and the estimator (jk_corrfunc); generated covariance = (N-1)/N Σ "
              "(x_k-mean)(x_k-mean)^T, symmetric, PSD; resample_jackknife row k = all patches except k in order "
              "(proved from the tile/delete/reshape model). Kernels are regenerated from the source on every run; the "
              "glue model and numpy primitives are tied by differential testing against the real classes."),
        ref="5.C03", technique="Lean 4 theorems over translator-generated kernels + differential correspondence",
        note="numpy einsum/cov/tile/delete semantics modelled; float sums of integers < 2^53 exact; ULP policy DESIGN 3"),
    "C04": dict(
        text=("Theorems: generated landy_szalay/davis_peebles equal the documented formulas (ring / field_simp, DP "
              "under non-zero denominator), decision table of CorrFunc.sample, normalisation = product of total "
              "weights (½ squared total for auto), n(z) = w_sp/sqrt(dz² w_ss w_pp) over ℝ with absent terms = 1, "
              "same function for value and samples, normalised integral = 1. Correspondence over all 8 subsets of "
              "{dr,rd,rr} x auto/cross, all autocorrelation combinations, NaN entries."),
        ref="5.C04", technique="Lean 4 theorems over translator-generated kernels + differential correspondence",
        note="sqrt/division correctly rounded (IEEE); np.nansum skips NaN; glue pinned by AST fingerprint"),
    "C05": dict(
        text=("Theorems: a fold of assignments into cells named by the ids the results carry gives the same final store "
              "for EVERY permutation of the arrivals, provided repeated writes agree (fold_perm_invariant via List.Perm); "
              "distinct keys are consistent; corollaries for the pair-count array, the patch dictionary of a loaded "
              "catalog and the histogram rows (hist_schedule_free: rows keyed by patch id - false for the arrival-indexed "
              "rows before the repair of F11, witness theorem). Bit-identity follows because no floating-point "
              "accumulation crosses task boundaries. Tie: the accumulation style of count_pairs / set_patch_pair / "
              "load_patches / HistData.from_catalog is read off the AST (generated flags + pins); a deterministic "
              "in-process Pool imposes all permutations (<= 4 tasks) and sampled orders on every parallel entry point, "
              "real pools with 2/3/8 workers are run as well; all results compared bitwise with the sequential run. "
              "PARTIAL: the OS scheduler itself is replaced by the controlled permutation."),
        ref="5.C05", technique="Lean 4 permutation-invariance proof of the accumulation folds + controlled-schedule correspondence",
        note="Pool.imap_unordered delivers each result exactly once; results transported by pickling"),
    "C06": dict(
        text=("Theorems about two transition systems with unbounded numbers of ranks, tasks and chunks. (A) dispatch "
              "protocol of iter_unordered under MPI (root first pass, wildcard receive of results, re-dispatch, "
              "sentinels, barrier; shape selected by GENERATED flags): an invariant (task multiset = pending + in "
              "flight + yielded; the root's counter = number of busy workers) holds in every reachable state for every "
              "selection of ranks and every order of root / worker steps and of wildcard matches; progress (no "
              "reachable non-final state is stuck = NO DEADLOCK), a decreasing measure (termination), exactly_once "
              "(at the end every task was yielded exactly once and nothing is left); witness: without the root "
              "fallback and without a usable worker rank nothing is executed (max_workers=1 before the repair). "
              "(B) writer protocol of MPI catalog creation (many senders, one wildcard receiver, eager AND synchronous "
              "sends): invariant incl. per-sender FIFO accounting; no_loss (when the writer stops every queue is empty "
              "and every chunk of every sender was written exactly once, in order), progress, termination; witness: "
              "the single-sentinel protocol before the repair loses data under eager sends. Tie: generated flags + "
              "AST pins; the real MPI branches run in simulated MPI worlds (fake mpi4py: ranks as threads, controlled "
              "scheduler choosing the next completing call, the wildcard match and eager / synchronous completion, "
              "exact deadlock detection); every world's event trace is replayed through the executable `step` / "
              "`stepB` of the model, the root's results are compared bitwise with a single-process run."),
        ref="5.C06", technique="Lean 4 invariant / progress / termination proofs over two MPI protocol transition systems + simulated-MPI trace acceptance and differential runs",
        note="PARTIAL: a real MPI library (progress engine, network, start-up) is replaced by harness/fakempi; collectives (bcast, gather, split, barrier) are executed by the simulator but not modelled in Lean; root-result = sequential-result rests on C05's accumulation theorem plus the differential runs"),
    "C07": dict(
        text=("Theorems about the tree-cache state machine of a patch (marker file, pickled trees, build with the "
              "GENERATED reuse rule, re-open, measure): cached trees are reused only for an identical binning (same "
              "edges AND closed side, or both unbinned); every reachable state is consistent (the marker describes the "
              "trees on disk); after a build the trees are those of the requested binning; MAIN history_free: for every "
              "finite history a measurement counts with trees built for its own binning, exactly as on fresh caches. "
              "Tie: generated binning_equal / Binning.__eq__ kernel + AST pins of build/__init__/trees; random histories "
              "on real caches compare marker bytes and per-bin tree sizes with the model after every operation and the "
              "final CorrFunc with fresh caches."),
        ref="5.C07", technique="Lean 4 invariant proof over a cache state machine with generated reuse rule + history correspondence",
        note="pickle round trip and program-order file writes trusted; in-memory state of the process is observed only through the final result"),
    "C08": dict(
        text=("Theorems about a file-level disk model (every file: absent / partially written / complete content of a "
              "version; trees and their marker carry the binning) and the loaders' decisions (id list -> patches -> "
              "metadata or recomputation from the data file; marker names the requested binning -> reuse the pickled "
              "trees, else rebuild; .dat and .smp read together; HDF5 as a blob): step_inv - every operation the write "
              "discipline `allowed` admits (payload changed only while its validity marker is absent, markers installed "
              "by rename and only over complete payload of the same version, derived files only from complete data) "
              "preserves a consistency invariant; MAIN crash_safe / crash_classified - for EVERY operation list of any "
              "length obeying the discipline from a consistent disk and EVERY prefix, each use raises or returns exactly "
              "the content of one version, the old or the new one, all uses agreeing; witness theorems show that the "
              "three write orders found in the code before the repairs (in-place id list, trees rewritten behind a "
              "valid marker, new .dat next to old .smp) reach a silently wrong state. Tie: generated flags for the "
              "statement order of finalize / BinnedTrees.build / to_files + AST pins; the real workloads are executed "
              "under strace, the recorded system calls are replayed byte-exactly, fed through the executable `allowed` "
              "of the model, and EVERY prefix is materialised and given to the real loaders (old / new / error "
              "classification compared with the model's prediction per crash point)."),
        ref="5.C08", technique="Lean 4 invariant proof over a disk / write-discipline model + strace trace acceptance + exhaustive prefix replay against the real loaders",
        note="a crash is a prefix of the recorded system calls (no reordering / power loss); partially written pickle / YAML / text / HDF5 files are assumed unreadable, which every prefix replay re-validates; the parallel code path is traced in the thorough tier only"),
    "C09": dict(
        text=("Theorems about a transition system of catalog creation (reader, bounded queue to the writer process, "
              "worker pool, writer with error pipe, finalisation) whose guards are GENERATED flags read off the source "
              "(finalise only on clean exit, overwrite only catalog caches, expected patch count, writer terminated on "
              "error, writer error forwarded, bounded queue): an invariant of 15 clauses holds in every reachable state "
              "for every fault position (reader / worker at chunk k, writer at start / in the loop / at finalisation, "
              "writer killed); progress: every non-final state has a successor (NO HANG: the parent never blocks on a "
              "full queue whose consumer is dead and never joins a writer that cannot exit); a decreasing measure bounds "
              "every execution; outcome: the run ends raised iff a fault occurred, the completion marker (patch id "
              "list) is written iff no fault occurred; sequential and parallel runs agree; path rule: an existing path "
              "is only removed when it is a catalog cache and overwrite was requested. Tie: generated flags + AST pins "
              "of write_patches / write_patches_unthreaded / WriterProcess / CatalogWriter; real creations with every "
              "fault kind x chunk position x 1/2/4 workers in bounded subprocesses, directory hashes before/after, "
              "and re-opening of what a failed creation left."),
        ref="5.C09", technique="Lean 4 invariant + progress + termination proof over a creation transition system with generated guards + fault-injection correspondence",
        note="SIGTERM delivery, pipe/queue transport and process exit are OS behaviour (modelled as transitions); a 60 s bound stands for 'hang'"),
    "C10": dict(
        text=("Theorems (all edge arrays, both closed sides, every rational redshift incl. exact edge values): the "
              "tree bin assignment built from the generated np.digitize arguments and keep-range equals the closed-side "
              "membership rule (binIndex_spec), objects outside contribute nowhere (binIndex_none), the redshift "
              "histogram built from the generated mask/mirroring flags obeys the same rule (hist_rule; false before "
              "the repair of F10) and therefore trees and histograms agree (consumers_agree). digitize/histogram are "
              "modelled as numpy documents them; the model is tied to BinnedTrees, HistData.from_catalog and the "
              "sum_weights of a measurement by differential testing with redshifts drawn from the edge set."),
        ref="5.C10", technique="Lean 4 theorems over translator-generated digitize/histogram arguments + differential correspondence",
        note="np.digitize / np.histogram semantics modelled (searchsorted rule, last bin closed); float == on identical binary64 values"),
    "C11": dict(
        text=("Theorems: the sparse HDF5 layout of pair counts (pairs with a non-zero count in some bin + binned "
              "counts; zeros + assignment on read) round-trips every array incl. negative, sparse and all-zero counts; "
              "the generated group-name / member pairing reads back exactly the members written for all 8 subsets (false "
              "before the repair of the to_hdf pairing); a configuration is recreated from its parameter dictionary and "
              "regenerated edges are identical because the outer edges are the stored limits (shared with C15). Text "
              "files (fixed-width format) and metadata YAML are covered by correspondence only: bound 10^-(8-d), NaN/inf "
              "and the closed side exact, 1..6 bins. Tie: AST pins of all (de)serialisers; the stored HDF5 datasets are "
              "compared with the model's sparse entries."),
        ref="5.C11", technique="Lean 4 theorems over a hand-written sparse-layout / member-mapping model + generated names + correspondence",
        note="h5py, PyYAML, np.loadtxt and float repr round trips trusted; text precision checked empirically, not proved"),
    "C12": dict(
        text=("Theorems: stored num_records / sum_weights are those of the records; every record lies within the "
              "stored radius (maximum of the record distances, attained) of the stored centre; a catalog created from "
              "N centres pairs patch i with centre i and has ids 0..N-1, a centre without objects makes creation fail "
              "(missing_centre_rejected; the positional pairing before the repair of F8 is exhibited as a witness); the "
              "generated check_patch_conistency test raises whenever a centre distance exceeds the radius (incl. radius "
              "0), and the id-set guard raises on any differing id. Tie: AST pins of load_patches / Metadata.compute / "
              "Patch.__init__ plus differential runs of all three patch modes, 1 and 3 workers, reopened caches, and "
              "pairs of misaligned catalogs passed to PatchLinkage.from_catalogs in both orders."),
        ref="5.C12", technique="Lean 4 theorems over a hand-written metadata/pairing model + generated guard kernel + correspondence",
        note="vq.vq nearest-centre assignment and treecorr centres are outside the model; angular distances validated with a robust atan2 formula"),
    "C13": dict(
        text=("Theorems on the specification that C01/C03/C04 equate with the implementation: linear isometries of R^3 "
              "preserve chord lengths and angles (Mathlib), counts depend only on (weight product, separation) data, are "
              "invariant under permutation of the pairs (row order), additive under concatenation (catalog split), "
              "patch relabelling by any permutation leaves totals unchanged and permutes the leave-one-out samples "
              "(Equiv.Perm (Fin N)), and scaling the weights of a catalog by c != 0 leaves every normalised term "
              "unchanged (cross and auto). Correspondence: metamorphic runs of the real pipeline (rotation incl. onto "
              "poles / across RA=0, row shuffle, centre permutation, weight factors 2^k bitwise and 1e-9..1e6, split)."),
        ref="5.C13", technique="Lean 4 theorems on the spec + metamorphic differential runs of the real pipeline",
        note="relies on C01/C03/C04 for spec = implementation; rotations applied in float64 with a 1e-8 guard band"),
    "C14": dict(
        text=("Theorems over the reals (Mathlib) on the formulas GENERATED from coordinates.py: sky -> vector is on the "
              "unit sphere; vector -> sky inverts it for 0 <= ra < 2 pi, |dec| < pi/2 (poles: dec recovered, ra := 0); RA "
              "always in [0, 2 pi) (python float % modelled with the floor); angle <-> chord are mutually inverse on "
              "[0, pi] / [0, 2] and strictly increasing; the separation computed from the chord of two unit vectors IS "
              "the angle between them, hence symmetric and a metric (triangle inequality from Mathlib); chords of unit "
              "vectors never exceed 2, so the clipping added by the repair of F20 changes nothing in exact arithmetic. "
              "PARTIAL: rounding is runtime behaviour - explicit bounds (k ulp x condition number, ill-conditioned cases "
              "capped at 6e-8) are validated against a 60-digit mpmath oracle, not proved."),
        ref="5.C14", technique="Lean 4 / Mathlib real-analysis theorems over translator-generated formulas + mpmath-validated rounding bounds",
        note="libm accuracy < 1 ulp assumed; mean direction pinned and validated numerically"),
    "C15": dict(
        text=("Theorems: linear edges (np.linspace model) have n+1 strictly increasing entries with first = zmin and "
              "last = zmax; edges linear in any strictly increasing quantity g with inverse h (comoving distance, "
              "log(1+z)) with pinned end points likewise (mapped_edges); the generated per-unit _compute_angle formulas "
              "equal r * unit factor / D(z) for the unit's distance measure (all 8 units); rmin >= rmax in ANY scale and "
              "non-increasing / too few edges are rejected (generated validation predicates); missing limits are rejected; "
              "MAIN modify_eq_create: the modify decision logic equals create on the merged parameters for every "
              "configuration and every modification; a configuration is recreated from its own parameters. Tie: "
              "generated kernels + AST pins of create/modify/to_dict/from_dict/__eq__ + stratified differential runs "
              "(bitwise edges, 4-ulp angles vs astropy, modify vs create, malformed stream, original untouched)."),
        ref="5.C15", technique="Lean 4 theorems over generated angle/validation kernels + hand-written create/modify decision model + correspondence",
        note="astropy distances and z_at_value trusted (monotone, inverse to 1e-9); reading of 'merged parameters' documented in DESIGN 5.x"),
    "C16": dict(
        text=("Theorems: the chunk sizes of a random-reader pass (generated size expression) sum to exactly n, each in "
              "1..c, all but the last full, for all n >= 0 and c >= 1; a pass depends only on seed and requested sizes "
              "(re-seed state machine, history free); the window follows from monotonicity of the inverse map; weights and "
              "redshifts selected by one index array come from the same source row. PARTIAL: uniformity in area rests on "
              "numpy's Generator (trusted) - a fixed-seed chi-square on equal-area cells is run as validation only. "
              "Correspondence on BoxRandoms / RandomReader / Catalog.from_random over windows incl. the poles."),
        ref="5.C16", technique="Lean 4 theorems over the generated chunk-size kernel + re-seed state machine + correspondence",
        note="numpy Generator uniform/integers trusted; arcsin/sin monotone to 1 ulp"),
    "C17": dict(
        text=("Theorems about a Lean container model (counts B×N×N, weight sums, binning): addition adds counts and is "
              "rejected exactly when binning (edges or closed side) or patch number differ; scalar multiplication "
              "scales counts and leaves Landy–Szalay / Davis–Peebles unchanged (s ≠ 0); equality reflexive/symmetric/"
              "structural; python index normalisation and slice ranges; bins/patches selections (int, slice, stepped "
              "slice, iteration) yield the corresponding sub-arrays and edges and commute with the generated "
              "sample_patch_sum kernels. The model is tied to CorrFunc/NormalisedCounts/PatchedCounts/"
              "PatchedSumWeights/CorrData by differential testing over stratified operation mixes (arrays EXACT)."),
        ref="5.C17", technique="Lean 4 theorems over a hand-written container model + differential correspondence",
        note="numpy indexing/broadcasting as documented; the container classes' methods are modelled by hand (tie = correspondence)"),
    "C18": dict(
        text=("Theorems about the reader state machine assembled from the generated kernels (stop test, counter update, "
              "slice bounds): one pass requests every record exactly once and in order (chunks concatenate to the "
              "input), every chunk has at most c records, requests are consecutive and start at row 0 - for all lengths "
              "and chunk sizes >= 1; the probe / number-of-passes glue is pinned. Parquet row-group cache (hand model of "
              "_load_groups / _extract_chunk, pinned): every call hands out the next rows of the file in order (next_flatten, "
              "run_flatten), a chunk has c rows or all that is left (next_length), and reading stays lazy - the row group "
              "requested last is needed to cover the rows handed out (next_lazy). Tie: an instrumented data-frame-like "
              "source logs every slice and whole-column access of Catalog.from_dataframe in all patch modes; "
              "FITS/HDF5/Parquet readers are compared by chunk lengths and row content over two passes, Parquet also by the "
              "row groups requested after every chunk (vs the model and vs the shortest-prefix rule)."),
        ref="5.C18", technique="Lean 4 theorems over generated reader kernels + instrumented-source correspondence",
        note="memory-mapped access below the file readers is not observed; pandas slicing trusted"),
}

# added in the extension round: generated plans / traces / flags (DESIGN 0.7)
EXTRA = {
    "C01": " Measurement plans (Yaw.C01P.*): autocorrelate / crosscorrelate are abstractly interpreted into generated plans for every presence pattern of the random catalogs - DD/DR/RD/RR are counted between exactly the documented catalogs and land in the right CorrFunc member, the first operand's trees are built with the configured edges and closed side and the second's unbinned, the linkage sees exactly the counted catalogs; instrumented real calls must follow the generated plan.",
    "C10": " The closed side reaches every tree build of a measurement: roles theorem over the generated measurement plans (Yaw.C01P.cross_roles / auto_roles), tied by instrumented autocorrelate / crosscorrelate calls.",
    "C06": " Collectives (Yaw.C06C.*): every function that enters a collective on the world communicator is specialised to the root and to a worker rank by the translator; the two collective traces are equal for all of them (code_traces_match), ranks entering equal sequences always complete (matched_completes), differing heads deadlock (mismatch_stuck), a broadcast leaves everybody with the root's value; the call sites executed in the simulated worlds must be the generated ones.",
    "C16": " The state machine is bound to the code by generated flags (reseed rebuilds from the stored seed only, every pass and probe reseeds without argument, one index draw for both attributes); reproducibility is proved after ANY sequence of earlier passes, partial passes and probes (reproducible_after_any_use). Footprint (Yaw.C16Box.*, over the reals, on the generated BoxRandoms formulas): every drawn point lies in the requested window for every window incl. the poles (box_window), the inverse cylinder map undoes the map (cyl_roundtrip), a sky box is the image of exactly the rectangle [a,b] x [sin c, sin d] (preimage_box) whose area equals the spherical area of the box (equal_area: integral of cos dec) - so only the uniformity of Generator.uniform itself remains trusted.",
    "C01": " Front door of the tree counter (Yaw.C01Tree.*): parse_ang_limits is regenerated as a Bool kernel over the limit lists and proved to accept exactly equal-length lists with 0 <= min < max <= pi per scale (ang_limits_spec, accepted_scale); flags bind AngularTree.__init__ / empty / count (records and weights in one order, weights passed in the order of the trees, empty trees count zero).",
    "C11": " Text format (Yaw.C11Fmt.*): format_float_fixed_width is modelled on exact values (half-even rounding to `width` decimals, then truncation of the string to max(width, sign + integer digits) characters); fmt_precision - for EVERY finite value what is read back differs by less than one unit of the last kept decimal plus the 1e-10 rounding (7 decimals below 10, 6 below 100, ..., better than 1 once the integer part fills the width); keep_idem - re-writing a re-read value changes nothing. Flags bind the function and its use with PRECISION = 10; the real function is compared value by value (exact fractions) with the model incl. rounding ties and carries. Write sites: every file the library writes is opened truncating (write_sites_truncate).",
    "C04": " Route and derivation flags: from_corrfuncs samples every correlation function it is given and hands it to its own slot of from_corrdata (Yaw.Glue.glue_flags); CorrFunc * x, .bins[...], .patches[...] and + rebuild their result BY NAME from the members present, and + requires the same members (Yaw.C17Ctor.corrfunc_algebra_flags) - so the estimator that applies to a measurement applies to everything derived from it; the derived containers are sampled and compared with the measurement's own estimate.",
    "C13": " cov_perm_invariant / mean_perm: the delete-one jackknife covariance and the sample mean are invariant under any permutation of the samples, hence under relabelling of the patches (with label_perm_equivariant: amplitudes, samples and covariance).",
    "C08": " The flags of the creation protocol (Yaw.C09.flags, outcome: the marker of a complete catalog is written on a clean exit of the writer only) are obligations here as well.",
    "C15": " Cosmology handling (Yaw.C15Cosmo.*): the decision chains of parse_cosmology / cosmology_to_yaml / yaml_to_cosmology / cosmology_is_equal are regenerated (chain translator over isinstance / None tests) and proved: no value -> default model, name -> predefined model or ConfigError, model object -> that object, anything else raises; only predefined models are written, by name, and read back as themselves (yaml_roundtrip); equality is symmetric, astropy vs user-defined never equal, two user-defined models always equal (documented). Every kind of value is passed to the real functions and to Configuration.create.",
    "C17": " The shape of the code the model abstracts is regenerated (k_algebra): attributes compared by each __eq__ (equal_nan only for sampled data), the methods each container class defines, compatibility on binning AND patches by both base classes, checked addition, scalar-only multiplication. Constructors (Yaw.C17Ctor.*): the shape validation of PatchedCounts / PatchedSumWeights / SampledData / NormalisedCounts / CorrFunc is regenerated as Bool kernels over shapes (index errors count as rejection) and proved to accept EXACTLY the documented shapes; arrays of 0..4 dimensions are given to the real constructors and compared with kernel and spec (this found the 30th repository defect, ff1937b).",
    "C14": " from_3d is invariant under positive scaling (fromVec_scale), hence the spherical mean is the sky position of the direction of the weighted vector sum (mean_direction) and a single point is its own mean.",
    "C18": " Creation plans (Yaw.C18P.*): the three constructors run the same steps; one pass over the input, two exactly in create mode (passes_spec); every column name, the chunk size and the unit flag are forwarded under their own names through constructor, factory and reader classes down to DataReader (reader_forwarding). Probe pass (Yaw.C18Probe.*): the chunk-wise selection loop of get_probe, modelled in Lean, returns exactly the rows at the requested (sorted) indices for EVERY chunking (probe_spec, probe_chunking_free); flags bind the loop and the linspace index list to the source; probes sparser and denser than the chunks are run on every file reader and compared with loop model and spec, with every Parquet row group requested once.",
    "C02": " Creation plans (Yaw.C18P.*) bind argument forwarding and the order probe -> write -> load of the constructors; a controlled pool delivers the parts of a chunk in chosen orders and completes asynchronous submissions only when waited for.",
    "C09": " Creation plans (Yaw.C18P.*): overwrite permission, progress and worker limit reach write_patches / load_patches unchanged in all three constructors.",
    "C03": " Hidden state is excluded structurally (per-class method lists, Yaw.C17.class_methods) and by strata: measurements that come and go, set_patch_pair between two samplings, against an exact rational oracle.",
    "C05": " Worker count (Yaw.Glue.get_size_spec / num_processes_spec: between 1 and the available size for every limit). Patch ids and directory names (Yaw.C05Path.*): the id parsed from the directory name of patch k is k for EVERY k (id_of_path, over the decimal digits of k and List.splitOn), different patches have different directories; flags bind template and parser. What travels to the workers by pickle is bound by the per-class method lists (Yaw.C17.class_methods); jobs and their bound arguments pass through pickle in the controlled pool, with the non-default closed side.",
}
for _k, _v in EXTRA.items():
    CHECKS[_k]["text"] += _v

PENDING = {}
for i in range(1, 19):
    pid = f"C{i:02d}"
    if pid not in CHECKS:
        PENDING[pid] = "check under construction in this round (model/theorems not yet registered)"


def main():
    checks = []
    for pid, c in sorted(CHECKS.items()):
        checks.append({
            "property_id": pid,
            "quick_cmd": f"./check {pid} --tier quick",
            "thorough_cmd": f"./check {pid} --tier thorough",
            "evidence_file": f"/verif/evidence/{pid}.json",
            "replay_cmd_template": f"./check {pid} --replay {{path}}",
            "engine": "lean4-proof+correspondence",
            "level_claimed": {"category": "proof", "text": c["text"], "design_ref": c["ref"]},
            "level_note": c["note"],
            "technique": c["technique"],
        })
    manifest = {
        "version": 1,
        "setup_cmd": "./setup.sh",
        "hooks": {
            "guard": "YAW_VERIF",
            "enable": "no hooks in the repository: the harness imports yaw from /repo/src and instruments from outside",
            "baseline_off_cmd": BASELINE,
            "source_commits": [],
            "add_only": True,
        },
        "engines": [{
            "name": "lean4-proof+correspondence",
            "path": "/verif/check",
            "serves_properties": sorted(CHECKS),
            "kind_free_text": "Lean 4 theorems over models regenerated from /repo/src by /verif/translator plus "
                              "hand-written models tied by a differential correspondence harness (line protocol)",
        }],
        "checks": checks,
        "not_applicable": [{"property_id": k, "reason": v} for k, v in sorted(PENDING.items())],
        "notes": "see DESIGN.md; known_findings.json lists repaired and open defects",
    }
    (VERIF / "MANIFEST.json").write_text(json.dumps(manifest, indent=1) + "\n")


if __name__ == "__main__":
    main()
