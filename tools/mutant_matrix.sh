#!/bin/sh
# tools/mutant_matrix.sh [ids…] — runs every seeded change against the check of its own property (scratch copy of the
# source, /repo itself is not touched) and writes seeded/RESULTS.tsv: id, property, exit, verdict line
cd "$(dirname "$0")/.."
OUT=seeded/RESULTS.tsv
TMP=$(mktemp)
IDS="$*"
[ -z "$IDS" ] && IDS=$(ls seeded | grep -E '^C[0-9]+_m' | sort)
for id in $IDS; do
  prop=$(echo "$id" | cut -d_ -f1)
  [ -f "seeded/$id/patch.diff" ] || continue
  if ! git -C /repo apply --check "$PWD/seeded/$id/patch.diff" 2>/dev/null; then
    printf '%s\t%s\t%s\t%s\n' "$id" "$prop" "DOES-NOT-APPLY" "" >> "$TMP"; echo "$id DOES-NOT-APPLY"; continue
  fi
  res=$(tools/with_patch.sh "$PWD/seeded/$id/patch.diff" -- ./check "$prop" --tier quick 2>&1 | grep -E "^VIOLATION|^\[$prop\]" | tr '\n' ' ')
  case "$res" in
    *no-failing-input-found*) v="caught (proof/correspondence broken, no failing input found)";;
    *VIOLATION*) v="caught (failing input)";;
    *) v="MISSED";;
  esac
  printf '%s\t%s\t%s\t%s\n' "$id" "$prop" "$v" "$res" >> "$TMP"
  echo "$id $v"
done
if [ -z "$*" ]; then mv "$TMP" "$OUT"; else cat "$TMP" >> "$OUT"; rm -f "$TMP"; fi
