#!/bin/sh
# tools/confirm_mutant.sh <dir with patch.diff demo.py meta.json> <seeded-id>
# Confirms in a fresh scratch worktree of /repo HEAD: patch applies, 111 tests pass with it, demo fails with it
# and passes without it.  On success stores the mutant under /verif/seeded/<seeded-id>/.
SRC="$1"; ID="$2"
WT=$(mktemp -d /tmp/wt_confirm.XXXXXX); rmdir "$WT"
git -C /repo worktree add -q "$WT" HEAD || exit 3
cp /repo/src/yaw/_version.py "$WT/src/yaw/_version.py"
cleanup() { git -C /repo worktree remove --force "$WT" 2>/dev/null; rm -rf "$WT"; }
trap cleanup EXIT
cd "$WT"
run_demo() { PYTHONPATH="$WT/src" timeout 300 /venv/bin/python "$SRC/demo.py" >/tmp/demo_out.$$ 2>&1; echo $?; }
D0=$(run_demo)
if ! git apply "$SRC/patch.diff" 2>/dev/null; then
  git apply --3way "$SRC/patch.diff" >/dev/null 2>&1 || { echo "RESULT $ID: patch does not apply to HEAD"; exit 1; }
fi
git diff HEAD > /tmp/patch_rebased.$$
T=$(PYTHONPATH="$WT/src" timeout 900 /venv/bin/python -m pytest -q -p no:cacheprovider --no-cov tests 2>&1 | tail -1)
D1=$(run_demo)
tail -3 /tmp/demo_out.$$ > /tmp/demo_tail.$$
echo "RESULT $ID: demo_clean_exit=$D0 tests_with_patch='$T' demo_patched_exit=$D1"
case "$T" in *"111 passed"*) TOK=1;; *) TOK=0;; esac
if [ "$D0" = "0" ] && [ "$D1" != "0" ] && [ "$TOK" = "1" ]; then
  mkdir -p "/verif/seeded/$ID"
  cp /tmp/patch_rebased.$$ "/verif/seeded/$ID/patch.diff"
  cp "$SRC/demo.py" "/verif/seeded/$ID/demo.py"
  /venv/bin/python - "$SRC/meta.json" "/verif/seeded/$ID/meta.json" "$D0" "$D1" "$T" <<'PY'
import json, sys
m = json.load(open(sys.argv[1]))
m["confirmed"] = {"repo_head": __import__("subprocess").check_output(["git", "-C", "/repo", "rev-parse", "--short", "HEAD"], text=True).strip(),
                  "demo_exit_clean": int(sys.argv[3]), "demo_exit_patched": int(sys.argv[4]), "tests_with_patch": sys.argv[5],
                  "ran": "tools/confirm_mutant.sh: fresh worktree of /repo HEAD; demo on clean tree; git apply; pytest tests; demo again"}
json.dump(m, open(sys.argv[2], "w"), indent=1)
PY
  echo "KEPT /verif/seeded/$ID"
else
  echo "NOT KEPT $ID"; cat /tmp/demo_tail.$$
fi
rm -f /tmp/demo_out.$$ /tmp/demo_tail.$$ /tmp/patch_rebased.$$
