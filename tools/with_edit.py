#!/usr/bin/env python3
"""tools/with_edit.py <relpath under src> <old> <new> [--count N] -- <command…>
Run a command against a scratch copy of /repo/src in which one textual edit was made (YAW_SRC)."""
import os, shutil, subprocess, sys, tempfile
args = sys.argv[1:]
sep = args.index("--")
rel, old, new = args[:3]
cmd = args[sep + 1:]
tmp = tempfile.mkdtemp(prefix="yawsrc.", dir="/tmp")
try:
    shutil.copytree("/repo/src", tmp + "/src", ignore=shutil.ignore_patterns("__pycache__", "*.egg-info"))
    p = os.path.join(tmp, "src", rel)
    s = open(p).read()
    if s.count(old) != 1:
        print(f"edit target occurs {s.count(old)} times", file=sys.stderr); sys.exit(3)
    open(p, "w").write(s.replace(old, new))
    verif = os.path.dirname(os.path.dirname(os.path.abspath(__file__)))
    subprocess.check_call(["cp", "-a", os.path.join(verif, "lean"), tmp + "/lean"])      # private Lean project (Generated/ is rewritten)
    env = dict(os.environ, YAW_SRC=tmp + "/src", YAW_LEAN_DIR=tmp + "/lean")
    sys.exit(subprocess.call(cmd, env=env))
finally:
    shutil.rmtree(tmp, ignore_errors=True)
