#!/venv/bin/python
"""tools/update_purity.py — write lean/purity_expected.json (the committed hidden-state inventory of /repo/src) from the
current tree.  Run deliberately (after a repository fix that legitimately changes an inventory), never by a check."""
import hashlib
import json
import sys
from pathlib import Path

sys.path.insert(0, str(Path(__file__).resolve().parent.parent / "translator"))
import translate as T  # noqa: E402

src = Path(sys.argv[1] if len(sys.argv) > 1 else "/repo/src")
inv = T.purity_inventory(src)
out = {rel: {"name": T.purity_name(rel), "hash": hashlib.sha256("\n".join(e).encode()).hexdigest()[:16], "entries": e}
       for rel, e in inv.items()}
p = Path(__file__).resolve().parent.parent / "lean" / "purity_expected.json"
p.write_text(json.dumps(out, indent=1, sort_keys=True) + "\n")
print(f"wrote {p} ({len(out)} files, {sum(len(v['entries']) for v in out.values())} entries)")
