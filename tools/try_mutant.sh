#!/bin/sh
# tools/try_mutant.sh <patch.diff> <Cxx> [extra check args]  — apply to /repo, run check, undo
P="$1"; shift; C="$1"; shift
cd /repo
if [ -n "$(git status --porcelain --untracked-files=no)" ]; then echo "REPO NOT CLEAN"; exit 3; fi
if ! git apply "$P" 2>/dev/null; then
  if ! git apply --3way "$P" >/dev/null 2>&1; then
    git reset -q --hard HEAD; echo "PATCH DOES NOT APPLY"; exit 3
  fi
fi
cd /verif && ./check "$C" "$@" 2>&1 | tail -2
cd /repo && git reset -q --hard HEAD && git status --short --untracked-files=no | head -3
