#!/bin/sh
# tools/try_mutant.sh <patch.diff> <Cxx> [extra check args]  — apply to /repo, run check, undo
P="$1"; shift; C="$1"; shift
cd /repo && git apply --3way "$P" 2>/dev/null || git apply "$P" || { echo "PATCH DOES NOT APPLY"; exit 3; }
cd /verif && ./check "$C" "$@" 2>&1 | tail -2
cd /repo && git reset -q && git checkout -q -- . && git status --short | head -3
