#!/bin/sh
# tools/process_round.sh <suffix> <Cxx…> — confirm the deliveries of a round of sub-agents (worktrees /tmp/wt_mut_<Cxx>),
# keep the confirmed ones as seeded/<Cxx>_<suffix>, remove the worktrees, run the owning checks against them
cd "$(dirname "$0")/.."
SUF="$1"; shift
KEPT=""
for k in "$@"; do
  if [ -f "/tmp/wt_mut_$k/mutant_out/patch.diff" ]; then
    out=$(tools/confirm_mutant.sh "/tmp/wt_mut_$k/mutant_out" "${k}_$SUF" 2>&1 | grep -E "RESULT|KEPT" | tr '\n' ' ')
    echo "$out"
    case "$out" in *"KEPT /verif"*) KEPT="$KEPT ${k}_$SUF";; esac
  else
    echo "no delivery for $k"
  fi
  git -C /repo worktree remove --force "/tmp/wt_mut_$k" 2>/dev/null
done
[ -n "$KEPT" ] && tools/mutant_matrix.sh $KEPT
