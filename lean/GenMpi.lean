import YawVerif.Drv.GenMpi
def main : IO Unit := do
  Yaw.Proto.loop Yaw.Drv.GenMpi.handler (← IO.getStdin) (← IO.getStdout)
