/-
  C11 — every persisted product reads back equal to what was written.
-/
import Mathlib.Tactic.Linarith
import YawVerif.Model.Persist
import YawVerif.Props.C15

namespace Yaw.C11
open Yaw Yaw.Persist

theorem mem_allPairs (N i j : Nat) : (i, j) ∈ allPairs N ↔ i < N ∧ j < N := by
  unfold allPairs
  simp only [List.mem_flatMap, List.mem_map, List.mem_range, Prod.mk.injEq]
  constructor
  · rintro ⟨a, ha, b, hb, h1, h2⟩; omega
  · rintro ⟨h1, h2⟩; exact ⟨i, h1, j, h2, rfl, rfl⟩

theorem fromSparse_not_mem (entries : List ((Nat × Nat) × List Rat)) (b i j : Nat)
    (h : ∀ e ∈ entries, e.1 ≠ (i, j)) : fromSparse entries b i j = 0 := by
  unfold fromSparse
  suffices H : ∀ acc : Nat → Nat → Nat → Rat, acc b i j = 0 →
      (entries.foldl (fun acc e => fun b i j => if (i, j) = e.1 then e.2.getD b 0 else acc b i j) acc) b i j = 0 from
    H _ rfl
  induction entries with
  | nil => intro acc h0; exact h0
  | cons e es ih =>
    intro acc h0
    rw [List.foldl_cons]
    apply ih (fun e' he' => h e' (List.mem_cons_of_mem _ he'))
    have : (i, j) ≠ e.1 := fun hh => h e (by simp) hh.symm
    simp [this, h0]

theorem foldl_val (b i j : Nat) (v : List Rat) :
    ∀ (entries : List ((Nat × Nat) × List Rat)), (∀ e ∈ entries, e.1 = (i, j) → e.2 = v) →
      ∀ acc : Nat → Nat → Nat → Rat, (acc b i j = v.getD b 0 ∨ ((i, j), v) ∈ entries) →
      (entries.foldl (fun acc e => fun b i j => if (i, j) = e.1 then e.2.getD b 0 else acc b i j) acc) b i j
        = v.getD b 0 := by
  intro entries
  induction entries with
  | nil =>
    intro _ acc h
    rcases h with h | h
    · exact h
    · simp at h
  | cons e es ih =>
    intro huniq acc h
    rw [List.foldl_cons]
    apply ih (fun e' he' => huniq e' (List.mem_cons_of_mem _ he'))
    by_cases he : (i, j) = e.1
    · left
      have := huniq e (by simp) he.symm
      simp [he, this]
    · rcases h with h | h
      · left; simp [he, h]
      · rcases List.mem_cons.mp h with h' | h'
        · exact absurd (by rw [← h']) he
        · right; exact h'

theorem fromSparse_mem (entries : List ((Nat × Nat) × List Rat)) (b i j : Nat) (v : List Rat)
    (hmem : ((i, j), v) ∈ entries)
    (huniq : ∀ e ∈ entries, e.1 = (i, j) → e.2 = v) : fromSparse entries b i j = v.getD b 0 := by
  unfold fromSparse
  exact foldl_val b i j v entries huniq _ (Or.inr hmem)

/-- sparse HDF5 storage of pair counts round-trips every array, incl. all-zero and negative counts -/
theorem sparse_roundtrip (B N : Nat) (c : Nat → Nat → Nat → Rat) (b i j : Nat)
    (hb : b < B) (hi : i < N) (hj : j < N) :
    fromSparse (toSparse B N c) b i j = c b i j := by
  by_cases hnz : ((List.range B).any fun b => c b i j != 0) = true
  · -- the pair is stored with its binned counts
    have hmem : ((i, j), (List.range B).map fun b => c b i j) ∈ toSparse B N c := by
      unfold toSparse
      rw [List.mem_map]
      exact ⟨(i, j), List.mem_filter.mpr ⟨(mem_allPairs N i j).mpr ⟨hi, hj⟩, hnz⟩, rfl⟩
    rw [fromSparse_mem _ b i j _ hmem]
    · simp [hb]
    · intro e he h1
      unfold toSparse at he
      rw [List.mem_map] at he
      obtain ⟨p, _, hp⟩ := he
      rw [← hp] at h1 ⊢
      simp only at h1
      subst h1
      rfl
  · -- not stored: reads back as zero, and it is zero in every bin
    have hz : c b i j = 0 := by
      by_contra hne
      apply hnz
      rw [List.any_eq_true]
      exact ⟨b, List.mem_range.mpr hb, by simpa using hne⟩
    rw [hz]
    apply fromSparse_not_mem
    intro e he h1
    unfold toSparse at he
    rw [List.mem_map] at he
    obtain ⟨p, hp, hpe⟩ := he
    rw [← hpe] at h1
    simp only at h1
    subst h1
    exact hnz (List.mem_filter.mp hp).2

/-- all-zero counts are stored as an empty table -/
theorem sparse_zero (B N : Nat) : toSparse B N (fun _ _ _ => 0) = [] := by
  unfold toSparse
  simp

/-- every combination of present DD/DR/RD/RR is read back as the same members -/
theorem members_roundtrip : ∀ dr rd rr : Bool, ∀ k, k < 4 →
    memberRead (groupsWritten [true, dr, rd, rr]) k = if [true, dr, rd, rr].getD k false then some k else none := by
  decide

/-- configurations round-trip through their parameter dictionary (shared with C15) -/
theorem config_dict_roundtrip (b : Cfg.Binning) (p : Cfg.BinParams) (h : Cfg.paramsOf b = some p)
    (hvalid : ∀ e c, b = .custom e c → Gen.edgesInvalid e = false)
    (hm : ∀ m a z n c, b = .generated m a z n c → m ≠ .custom) : Cfg.createBinning p = b := by
  cases b with
  | error => simp [Cfg.paramsOf] at h
  | custom e c =>
    simp only [Cfg.paramsOf, Option.some.injEq] at h
    subst h
    simp [Cfg.createBinning, hvalid e c rfl]
  | generated m a z n c =>
    simp only [Cfg.paramsOf, Option.some.injEq] at h
    subst h
    simp [Cfg.createBinning, hm m a z n c rfl]

/-- regenerated bin edges are identical: they are a function of (zmin, zmax, num_bins) only and the
    stored limits are the outer edges themselves -/
theorem edges_regenerate (g h : Rat → Rat) (zmin zmax : Rat) (n : Nat) (hn : 1 ≤ n) :
    Cfg.mappedEdges g h (Cfg.mappedEdges g h zmin zmax n 0) (Cfg.mappedEdges g h zmin zmax n n) n
      = Cfg.mappedEdges g h zmin zmax n := by
  have h0 : Cfg.mappedEdges g h zmin zmax n 0 = zmin := by simp [Cfg.mappedEdges]
  have hn0 : n ≠ 0 := by omega
  have hN : Cfg.mappedEdges g h zmin zmax n n = zmax := by simp [Cfg.mappedEdges, hn0]
  rw [h0, hN]

theorem glue_pinned :
    Gen.pinCountsToHdf = "bb56829873376ac6" ∧ Gen.pinCountsFromHdf = "cb1696cd1b3dffe8" ∧
    Gen.pinWeightsHdf = "810b6cac05938113" ∧ Gen.pinNormalisedHdf = "d539da95ff89b42d" ∧
    Gen.pinBinningHdf = "b7440340d75cbf69" ∧ Gen.pinFormatFloat = "79450456eef8b1cf" ∧
    Gen.pinTextWriters = "38bb5efa8ef5d1a0" ∧ Gen.pinTextReaders = "61c81f2c2841b217" ∧
    Gen.pinMetadataDict = "3dbcdd147066c27c" ∧ Gen.textPrecision = 10 := by decide

/-- **a written product replaces what its file held** — every place where the library opens a file for writing truncates it
(`w` / `wb`: HDF5 products, YAML, the three text files, the tree pickle and its marker); the one appending site is the
record writer of a patch, whose file lives in a directory the writer has just created.  Read off the source on every run. -/
theorem write_sites_truncate :
    ∀ s ∈ Gen.writeSites, s.2 = "w" ∨ s.2 = "wb" ∨ s = ("yaw/catalog/patch.py:PatchWriter.open", "ab") := by decide

theorem result_writers_present :
    ("yaw/utils/abc.py:HdfSerializable.to_file", "w") ∈ Gen.writeSites ∧
    ("yaw/utils/abc.py:YamlSerialisable.to_file", "w") ∈ Gen.writeSites ∧
    ("yaw/correlation/corrdata.py:write_data", "w") ∈ Gen.writeSites ∧
    ("yaw/correlation/corrdata.py:write_samples", "w") ∈ Gen.writeSites := by decide

/-! non-vacuity -/
example : toSparse 2 2 (fun b i j => if i = 0 ∧ j = 1 then (b : Rat) - 1 else 0) = [((0, 1), [-1, 0])] := by
  decide +kernel

end Yaw.C11
