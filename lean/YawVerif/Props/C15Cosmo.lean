/-
  C15 / C11 — how a configuration treats its cosmology: the decision chains of `parse_cosmology`, `cosmology_to_yaml`,
  `yaml_to_cosmology` and `cosmology_is_equal`, regenerated from the source.  A value given as `cosmology=` is described by
  what the code can test about it (None / string / astropy FLRW object / CustomCosmology object / anything else, and
  whether the string resp. the object's name is one of astropy's predefined models).
-/
import YawVerif.Generated.Cosmo

namespace Yaw.C15Cosmo
open Yaw.Gen

def isNone (c : CosmoArg) : Prop := c.isNone = true
def isName (c : CosmoArg) : Prop := c.isNone = false ∧ c.isStr = true
def isObject (c : CosmoArg) : Prop := c.isNone = false ∧ c.isStr = false ∧ (c.isFLRW = true ∨ c.isCustom = true)
def isOther (c : CosmoArg) : Prop := c.isNone = false ∧ c.isStr = false ∧ c.isFLRW = false ∧ c.isCustom = false

/-- **parse** — no value: the default model; a name: the predefined model of that name, an unknown name raises; a model
object (astropy or user-defined): that object; anything else raises.  Never a silent substitute. -/
theorem parse_spec (c : CosmoArg) :
    (isNone c → parseCosmology c = .default) ∧
    (isName c → (c.nameAvailable = true → parseCosmology c = .named) ∧
                (c.nameAvailable = false → parseCosmology c = .raises "ConfigError")) ∧
    (isObject c → parseCosmology c = .same) ∧
    (isOther c → parseCosmology c = .raises "ConfigError") := by
  obtain ⟨n, s, f, cu, av⟩ := c
  unfold isNone isName isObject isOther parseCosmology yamlToCosmology
  cases n <;> cases s <;> cases f <;> cases cu <;> cases av <;> simp

/-- **write** — only a predefined astropy model is written (by its name); a user-defined model, an astropy model that is
not predefined (modified parameters, no name) and anything else raise — a configuration file never names another model
than the one configured -/
theorem yaml_spec (c : CosmoArg) :
    (cosmologyToYaml c = .name ↔ c.isCustom = false ∧ c.isFLRW = true ∧ c.nameAvailable = true) ∧
    (cosmologyToYaml c ≠ .name → ∃ e, cosmologyToYaml c = .raises e) := by
  obtain ⟨n, s, f, cu, av⟩ := c
  unfold cosmologyToYaml
  cases f <;> cases cu <;> cases av <;> simp

/-- **round trip** — the name written for a predefined model is read back as the predefined model of that name
(`getattr(astropy.cosmology, name)`: for predefined models that is the object itself — astropy, trusted) -/
theorem yaml_roundtrip (c : CosmoArg) (h : cosmologyToYaml c = .name) :
    parseCosmology { isNone := false, isStr := true, isFLRW := false, isCustom := false, nameAvailable := c.nameAvailable } = .named := by
  have := ((yaml_spec c).1.mp h).2.2
  simp [parseCosmology, yamlToCosmology, this]

/-- **equality** of the cosmologies of two configurations: symmetric; an astropy model never equals a user-defined one; two
astropy models compare as astropy says; any two user-defined models are treated as equal (documented: they cannot be
compared) — so `==` of configurations may NOT be used to decide that two measurements share their distances
(see the stratum "re-measurement with another user-defined cosmology", C01) -/
theorem eq_spec (a b : CosmoArg) (e : Bool) (ha : a.isFLRW = true ∨ a.isCustom = true) (hb : b.isFLRW = true ∨ b.isCustom = true) :
    cosmologyIsEqual a b e = cosmologyIsEqual b a e ∧
    (a.isCustom = true → b.isCustom = true → cosmologyIsEqual a b e = .value true) ∧
    (a.isCustom = false → b.isCustom = false → cosmologyIsEqual a b e = .value e) ∧
    (a.isCustom ≠ b.isCustom → cosmologyIsEqual a b e = .value false) := by
  obtain ⟨n1, s1, f1, c1, v1⟩ := a
  obtain ⟨n2, s2, f2, c2, v2⟩ := b
  unfold cosmologyIsEqual
  simp only at ha hb
  cases f1 <;> cases c1 <;> cases f2 <;> cases c2 <;> simp_all

theorem eq_rejects_other (a b : CosmoArg) (e : Bool) (h : (a.isFLRW = false ∧ a.isCustom = false) ∨ (b.isFLRW = false ∧ b.isCustom = false)) :
    cosmologyIsEqual a b e = .raises "TypeError" := by
  obtain ⟨n1, s1, f1, c1, v1⟩ := a
  obtain ⟨n2, s2, f2, c2, v2⟩ := b
  unfold cosmologyIsEqual
  simp only at h
  cases f1 <;> cases c1 <;> cases f2 <;> cases c2 <;> simp_all

/-- the configuration classes go through these helpers: the stored cosmology is the parsed one, `==` uses `cosmology_is_equal`,
`to_dict` writes `cosmology_to_yaml`, `from_dict` parses and hands the parsed model to the binning; the default is Planck15 -/
theorem cosmo_flags : configUsesCosmologyHelpers = true ∧ defaultCosmologyExpr = "return Planck15" := by decide

/-! non-vacuity -/
example : isObject ⟨false, false, true, false, true⟩ ∧ isName ⟨false, true, false, false, false⟩ ∧ isOther ⟨false, false, false, false, false⟩ := by
  simp [isObject, isName, isOther]
example : cosmologyToYaml ⟨false, false, true, false, true⟩ = .name := by decide

end Yaw.C15Cosmo
