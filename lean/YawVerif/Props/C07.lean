/-
  C07 — measurements are independent of what was cached before.
-/
import YawVerif.Model.Cache

namespace Yaw.C07
open Yaw Yaw.Cache

/-- cached trees are reused ONLY for an identical binning: same edges and same closed side, or both
    unbinned (the generated rule; breaks if an attribute is dropped from the comparison) -/
theorem reusable_iff (stored requested : Bin) : reusable stored requested = true ↔ stored = requested := by
  unfold reusable Gen.binningEqual
  cases stored with
  | none => cases requested <;> simp
  | some s =>
    cases requested with
    | none => simp
    | some r =>
      obtain ⟨sc, se⟩ := s
      obtain ⟨rc, re⟩ := r
      simp only [Option.some.injEq, Bins.mk.injEq]
      by_cases h1 : se = re <;> by_cases h2 : sc = rc <;> simp [h1, h2]

theorem fresh_inv : Consistent fresh := by
  intro m h; simp [fresh] at h

/-- every operation preserves cache consistency -/
theorem step_inv (s : PatchCache) (op : Op) (h : Consistent s) : Consistent (step s op) := by
  have hb : ∀ b f, Consistent (build s b f) := by
    intro b f
    unfold build
    by_cases hf : f = true
    · simp only [hf, if_true]; intro m hm; simp at hm ⊢; exact hm
    · simp only [hf, Bool.false_eq_true, if_false]
      cases hm : s.marker with
      | none => intro m h'; simp at h' ⊢; exact h'
      | some stored =>
        simp only
        by_cases hr : reusable stored b = true
        · simp only [hr, if_true]; exact h
        · simp only [hr, Bool.false_eq_true, if_false]; intro m h'; simp at h' ⊢; exact h'
  cases op with
  | build b f => exact hb b f
  | reopen => exact h
  | measure b => exact hb b false

/-- in every reachable state the marker describes the trees on disk -/
theorem marker_inv (ops : List Op) : Consistent (run ops fresh) := by
  suffices H : ∀ s, Consistent s → Consistent (run ops s) from H fresh fresh_inv
  induction ops with
  | nil => intro s h; exact h
  | cons op ops ih => intro s h; exact ih _ (step_inv s op h)

/-- after a build the trees on disk are the trees for exactly the requested binning -/
theorem build_post (s : PatchCache) (b : Bin) (f : Bool) (h : Consistent s) :
    (build s b f).trees = some b ∧ (build s b f).marker = some b := by
  unfold build
  by_cases hf : f = true
  · simp [hf]
  · simp only [hf, Bool.false_eq_true, if_false]
    cases hm : s.marker with
    | none => simp
    | some stored =>
      simp only
      by_cases hr : reusable stored b = true
      · simp only [hr, if_true]
        have := (reusable_iff stored b).mp hr
        subst this
        exact ⟨h stored hm, hm⟩
      · simp [hr]

/-- MAIN: for every history of builds (any binning, closed side, forced or not), re-openings and earlier
    measurements, a measurement counts with trees built for its own binning — exactly as on fresh caches -/
theorem history_free (ops : List Op) (b : Bin) :
    measuredWith (run ops fresh) b = measuredWith fresh b := by
  unfold measuredWith
  rw [(build_post (run ops fresh) b false (marker_inv ops)).1, (build_post fresh b false fresh_inv).1]

theorem glue_pinned :
    Gen.pinTreesBuild = "fed03c5ad7ad2348" ∧ Gen.pinTreesInit = "842330566ccff74d" ∧
    Gen.pinTreesLoad = "981cd4cac1e6fb03" ∧ Gen.pinCatalogBuildTrees = "d3dae8f38df94187" := by decide

/-! non-vacuity: same edges, other closed side ⇒ rebuilt -/
example : (build (build fresh (some ⟨false, [1, 2]⟩) false) (some ⟨true, [1, 2]⟩) false).trees
    = some (some ⟨true, [1, 2]⟩) := by decide +kernel

end Yaw.C07
