/-
  C17 — container algebra and indexing.
-/
import YawVerif.Lemmas.Sums
import YawVerif.Generated.Algebra
import YawVerif.Model.Containers
import YawVerif.Model.CorrFuncGlue

namespace Yaw.C17
open Yaw Yaw.Cont Yaw.Impl

/-- adding containers adds their counts (binning, patches, weights of the left operand kept) -/
theorem add_counts (x y z : C) (h : add x y = some z) :
    (∀ b i j, z.counts b i j = x.counts b i j + y.counts b i j) ∧
    z.binning = x.binning ∧ z.N = x.N ∧ z.B = x.B := by
  unfold add at h
  split at h
  · simp only [Option.some.injEq] at h
    subst h
    simp
  · simp at h

/-- addition is rejected exactly when binning (edges or closed side) or patch number differ -/
theorem add_requires_compat (x y : C) :
    add x y = none ↔ ¬ (x.binning = y.binning ∧ x.N = y.N) := by
  unfold add compatible
  by_cases h1 : x.binning = y.binning <;> by_cases h2 : x.N = y.N <;> simp [h1, h2]

/-- a differing closed side alone makes containers incompatible -/
theorem closed_side_matters (x y : C) (h : x.binning.closedLeft ≠ y.binning.closedLeft) :
    add x y = none := by
  rw [add_requires_compat]
  intro hc
  exact h (by rw [hc.1])

theorem mul_counts (x : C) (s : Rat) :
    (∀ b i j, (mul x s).counts b i j = x.counts b i j * s) ∧ (mul x s).binning = x.binning
      ∧ (mul x s).w1 = x.w1 ∧ (mul x s).w2 = x.w2 := by
  unfold mul; simp

/-- scaling the counts of one normalised term scales its value -/
theorem nc_scale (N : Nat) (c : NC) (s : Rat) :
    (NC.mk (fun i j => c.a i j * s) c.w1 c.w2 c.auto).data N = c.data N * s := by
  unfold NC.data NC.normArr Gen.normData Gen.jkData
  simp only [sumTo_mul_right]
  ring

/-- multiplying every pair-count term by the same non-zero scalar leaves Landy–Szalay unchanged -/
theorem sample_mul_invariant_ls (dd dr rd rr s : Rat) (hs : s ≠ 0) :
    Spec.ls (dd * s) (dr * s) (rd * s) (rr * s) = Spec.ls dd dr rd rr := by
  unfold Spec.ls
  by_cases hr : rr = 0
  · subst hr; simp
  · field_simp

/-- … and Davis–Peebles -/
theorem sample_mul_invariant_dp (dd m s : Rat) (hs : s ≠ 0) :
    Spec.dp (dd * s) (m * s) = Spec.dp dd m := by
  unfold Spec.dp
  by_cases hm : m = 0
  · subst hm; simp
  · field_simp

/-- equality is reflexive, symmetric, transitive and structural -/
theorem eq_refl (x : C) : eqv x x := by
  unfold eqv; simp

theorem eq_symm (x y : C) (h : eqv x y) : eqv y x := by
  unfold eqv at *
  obtain ⟨hB, hN, ha, hb, hc, hw⟩ := h
  refine ⟨hB.symm, hN.symm, ha.symm, hb.symm, ?_, ?_⟩
  · intro b i j h1 h2 h3; exact (hc b i j (hB ▸ h1) (hN ▸ h2) (hN ▸ h3)).symm
  · intro b i h1 h2
    have := hw b i (hB ▸ h1) (hN ▸ h2)
    exact ⟨this.1.symm, this.2.symm⟩

/-- valid integer indices: 0 ≤ i < len as is, -len ≤ i < 0 wraps once, everything else raises -/
theorem normIdx_spec (len : Nat) (i : Int) (k : Nat) :
    normIdx len i = some k ↔ ((0 ≤ i ∧ i = k) ∨ (i < 0 ∧ i + len = k)) ∧ k < len := by
  unfold normIdx
  by_cases hi : i < 0
  · have hn : ¬ (0 ≤ i) := by omega
    simp only [hi, if_true, hn, false_and, true_and, false_or]
    split
    · simp only [Option.some.injEq]; omega
    · simp only [reduceCtorEq, false_iff]; omega
  · have hn : 0 ≤ i := by omega
    simp only [hi, if_false, hn, false_and, true_and, or_false]
    split
    · simp only [Option.some.injEq]; omega
    · simp only [reduceCtorEq, false_iff]; omega

/-- slices select a contiguous range inside the container -/
theorem sliceRange_bounds (len : Nat) (s e : Option Int) :
    (sliceRange len s e).1 ≤ (sliceRange len s e).2 ∧ (sliceRange len s e).2 ≤ len := by
  unfold sliceRange clamp
  cases s <;> cases e <;> simp only <;> (try split) <;> (try split) <;> omega

/-- selecting bins `[a,b)` yields the corresponding sub-arrays and the edges `a..b` -/
theorem bins_slice (x y : C) (a b : Nat) (h : binsRange x a b = some y) :
    y.B = b - a ∧ y.N = x.N ∧ (∀ k, y.counts k = x.counts (a + k)) ∧
    (∀ k, y.w1 k = x.w1 (a + k) ∧ y.w2 k = x.w2 (a + k)) ∧
    y.binning.edges = (x.binning.edges.drop a).take (b - a + 1) ∧
    y.binning.closedLeft = x.binning.closedLeft := by
  unfold binsRange Binning.sub at h
  by_cases hab : a < b
  · simp only [hab, if_true, Option.bind_eq_bind, Option.bind_some, Option.some.injEq] at h
    subst h
    simp
  · simp [hab] at h

/-- an integer index is the one-bin slice -/
theorem bins_int_eq_slice (x : C) (i : Int) (k : Nat) (h : normIdx x.B i = some k) :
    binsInt x i = binsRange x k (k + 1) := by
  unfold binsInt
  simp [h]

/-- out-of-range integer indices are rejected -/
theorem bins_int_rejects (x : C) (i : Int) (h : normIdx x.B i = none) : binsInt x i = none := by
  unfold binsInt
  simp [h]

/-- selecting patches `[a,b)` yields the diagonal sub-block of every pair array -/
theorem patches_slice (x : C) (a b : Nat) :
    (patchesRange x a b).N = b - a ∧
    (∀ k i j, (patchesRange x a b).counts k i j = x.counts k (a + i) (a + j)) ∧
    (∀ k i, (patchesRange x a b).w1 k i = x.w1 k (a + i) ∧ (patchesRange x a b).w2 k i = x.w2 k (a + i))
    ∧ (patchesRange x a b).binning = x.binning := by
  unfold patchesRange; simp

/-- bin selection commutes with summation over patches and with jackknife sampling -/
theorem slice_commutes_sum (x y : C) (a b : Nat) (h : binsRange x a b = some y) (k : Nat) :
    Gen.jkData y.N (y.counts k) = Gen.jkData x.N (x.counts (a + k)) ∧
    Gen.jkSamples y.N (y.counts k) = Gen.jkSamples x.N (x.counts (a + k)) := by
  obtain ⟨_, hN, hc, _⟩ := bins_slice x y a b h
  rw [hN, hc k]
  exact ⟨rfl, rfl⟩

/-- patch selection commutes with summation: the total of the selection is the sum over the sub-block -/
theorem patch_slice_sum (x : C) (a b k : Nat) :
    Gen.jkData (b - a) ((patchesRange x a b).counts k)
      = sumTo (b - a) fun i => sumTo (b - a) fun j => x.counts k (a + i) (a + j) := rfl

/-- iteration yields bins 0 … B-1, each the one-bin selection -/
theorem iter_bins (x : C) :
    (iterBins x).length = x.B ∧
    ∀ k, k < x.B → (iterBins x)[k]? = some (binsRange x k (k + 1)) := by
  unfold iterBins
  refine ⟨by simp, ?_⟩
  intro k hk
  have hn : normIdx x.B (k : Int) = some k := by
    rw [normIdx_spec]; omega
  simp [hk, bins_int_eq_slice x k k hn]

/-- a stepped selection keeps the selected bins' sub-arrays; its edges are the left edges of the
    selected bins followed by the right edge of the last selected bin (documented expansion rule) -/
theorem bins_sel (x y : C) (sel : List Nat) (h : binsSel x sel = some y) :
    y.B = sel.length ∧ (∀ k, y.counts k = x.counts (sel.getD k 0)) ∧
    ∃ l, sel.getLast? = some l ∧
      y.binning.edges = sel.map (fun k => x.binning.edges.getD k 0) ++ [x.binning.edges.getD (l + 1) 0] := by
  unfold binsSel Binning.sel at h
  cases hl : sel.getLast? with
  | none => simp [hl] at h
  | some l =>
    simp only [hl, Option.bind_eq_bind, Option.bind_some, Option.some.injEq] at h
    subst h
    exact ⟨rfl, fun _ => rfl, l, rfl, rfl⟩

/-- an empty selection is rejected -/
theorem bins_sel_empty (x : C) : binsSel x [] = none := rfl

/-- with step 1 the selected indices are the contiguous range of the slice -/
theorem sliceSel_step_one (len : Nat) (s e : Option Int) :
    sliceSel len s e 1 = (List.range ((sliceRange len s e).2 - (sliceRange len s e).1)).map
      fun t => (sliceRange len s e).1 + t := by
  unfold sliceSel
  simp

/-! non-vacuity -/
example : sliceSel 5 none none 2 = [0, 2, 4] := by decide
example : sliceSel 6 (some 1) (some (-1)) 3 = [1, 4] := by decide
example : normIdx 3 (-1) = some 2 := by decide
example : sliceRange 5 (some (-2)) none = (3, 5) := by decide
example : sliceRange 5 (some 4) (some 2) = (4, 4) := by decide

/-! ### The shape of the code the model abstracts (regenerated from the source on every run, `k_algebra`) -/

/-- `==` looks at EVERY attribute that defines a container (binning incl. closed side, all arrays, the auto flag), and
only the sampled-data containers — whose estimates may legitimately be NaN (empty bins) — compare with `equal_nan`, which is
what makes their equality reflexive (`eq_refl`). -/
theorem eq_fields :
    Gen.eqFieldsPatchedCounts = ["binning", "counts", "auto"] ∧
    Gen.eqNanPatchedCounts = [] ∧
    Gen.eqFieldsPatchedSumWeights = ["binning", "sum_weights1", "sum_weights2", "auto"] ∧
    Gen.eqNanPatchedSumWeights = [] ∧
    Gen.eqFieldsNormalisedCounts = ["counts", "sum_weights"] ∧
    Gen.eqNanNormalisedCounts = [] ∧
    Gen.eqFieldsSampledData = ["binning", "data", "samples"] ∧
    Gen.eqNanSampledData = ["data", "samples"] ∧
    Gen.eqFieldsBinning = ["edges", "closed"] ∧
    Gen.eqNanBinning = [] := by decide

/-- the methods each container class defines itself: nothing overrides (or memoises) sampling, comparison, pickling or
indexing beyond what the model describes -/
theorem class_methods :
    Gen.methodsPatchedCounts = ["__add__", "__eq__", "__init__", "__mul__", "__radd__", "_make_bin_slice", "_make_patch_slice", "from_hdf", "get_array", "num_patches", "set_patch_pair", "to_hdf", "zeros"] ∧
    Gen.methodsPatchedSumWeights = ["__eq__", "__init__", "_make_bin_slice", "_make_patch_slice", "from_hdf", "get_array", "num_patches", "to_hdf"] ∧
    Gen.methodsNormalisedCounts = ["__add__", "__eq__", "__init__", "__mul__", "__radd__", "_make_bin_slice", "_make_patch_slice", "auto", "binning", "from_hdf", "get_array", "is_compatible", "num_patches", "sample_patch_sum", "to_hdf"] ∧
    Gen.methodsBinwisePatchwiseArray = ["__eq__", "__repr__", "auto", "get_array", "is_compatible", "sample_patch_sum"] ∧
    Gen.methodsSampledData = ["__add__", "__eq__", "__getstate__", "__init__", "__repr__", "__setstate__", "__sub__", "_make_bin_slice", "correlation", "covariance", "error", "is_compatible", "num_samples", "plot", "plot_corr"] ∧
    Gen.methodsBinning = ["__eq__", "__getitem__", "__getstate__", "__init__", "__iter__", "__len__", "__repr__", "__setstate__", "copy", "dz", "from_hdf", "left", "mids", "right", "to_hdf"] ∧
    Gen.methodsCorrFunc = ["__add__", "__eq__", "__init__", "__mul__", "__repr__", "_make_bin_slice", "_make_patch_slice", "auto", "binning", "from_file", "from_hdf", "is_compatible", "num_patches", "sample", "to_dict", "to_file", "to_hdf"] := by decide

/-- compatibility is decided on the binning (`Binning.__eq__`: edges and closed side) AND the number of patches, by both
base classes; `+` on counts requires it and adds the arrays; `*` accepts scalars only and scales the counts; normalised
counts add only under equal weight sums and scale only their counts (`add_requires_compat`, `mul_counts`, `nc_scale`). -/
theorem algebra_flags :
    Gen.binwiseCompatOnBinning = true ∧ Gen.patchwiseCompatOnPatches = true ∧ Gen.arrayCompatBoth = true ∧
    Gen.countsAddChecked = true ∧ Gen.countsMulScalar = true ∧ Gen.normAddEqualWeights = true ∧
    Gen.normMulCountsOnly = true := by decide

theorem glue_pinned :
    Gen.pinCorrFuncAlgebra = "a4775d702fd93c3c" ∧
    Gen.pinSampledAlgebra = "5f69cd479b519647" ∧
    Gen.pinSlices = "9219b8533b1b3cad" ∧
    Gen.pinBinningSelect = "1ce535c7babfe3f2" := by decide

end Yaw.C17
