/-
  C01 / C13 — the front door of the tree counter: which angular limits `AngularTree.count` accepts, and how a tree keeps
  its records and weights together.  Regenerated from `catalog/trees.py` on every run.
-/
import Mathlib.Algebra.Order.Field.Rat
import Mathlib.Tactic.NormNum
import YawVerif.Generated.Tree

namespace Yaw.C01Tree
open Yaw.Gen

/-- **accepted limits** — `parse_ang_limits` lets a set of scales through exactly when there are as many lower as upper
limits, every lower limit is strictly below its upper limit, and all limits lie in [0, π]; everything else raises.  These are
the hypotheses under which the fine grid is laid out (`edgesOK`, C01) -/
theorem ang_limits_spec (mins maxs : List Rat) (pi : Rat) :
    angLimitsRaises mins maxs pi = false ↔
      mins.length = maxs.length ∧ (∀ p ∈ mins.zip maxs, p.1 < p.2) ∧ (∀ x ∈ mins ++ maxs, 0 ≤ x ∧ x ≤ pi) := by
  unfold angLimitsRaises
  simp only [Bool.or_eq_false_iff, bne_eq_false_iff_eq, List.any_eq_false, decide_eq_true_eq, ge_iff_le, gt_iff_lt,
    not_le, not_lt]
  constructor
  · rintro ⟨⟨h1, h2⟩, h3, h4⟩
    exact ⟨h1, h2, fun x hx => ⟨h3 x hx, h4 x hx⟩⟩
  · rintro ⟨h1, h2, h3⟩
    exact ⟨⟨h1, h2⟩, fun x hx => (h3 x hx).1, fun x hx => (h3 x hx).2⟩

/-- accepted limits are non-degenerate intervals inside [0, π] — stated per scale -/
theorem accepted_scale (mins maxs : List Rat) (pi : Rat) (h : angLimitsRaises mins maxs pi = false) (k : Nat)
    (hk : k < mins.length) :
    ∃ lo hi, mins[k]? = some lo ∧ maxs[k]? = some hi ∧ 0 ≤ lo ∧ lo < hi ∧ hi ≤ pi := by
  obtain ⟨hl, hz, hr⟩ := (ang_limits_spec mins maxs pi).mp h
  have hk2 : k < maxs.length := hl ▸ hk
  refine ⟨mins[k], maxs[k], by simp [hk], by simp [hk2], ?_, ?_, ?_⟩
  · exact (hr _ (List.mem_append_left _ (List.getElem_mem hk))).1
  · have : (mins[k], maxs[k]) ∈ mins.zip maxs := by
      have hz' : k < (mins.zip maxs).length := by simp [hl, hk2]
      have := List.getElem_mem hz'
      simpa using this
    exact hz _ this
  · exact (hr _ (List.mem_append_right _ (List.getElem_mem hk2))).2

/-- a tree and its weights: records and weights enter in one order and stay in it (the KD-tree is built from the coordinates
as given, the weights are stored as given, the pair counter receives `(self.weights, other.weights)` for `(self.tree,
other.tree)`); an empty tree counts zero; limits are validated before anything is counted -/
theorem tree_flags : treeInitAsModelled = true ∧ treeEmptyAsModelled = true ∧ treeCountAligned = true := by decide

/-! non-vacuity -/
example : angLimitsRaises [0, 1/100] [1/100, 1/10] (355/113) = false := by
  simp [angLimitsRaises]; norm_num
example : angLimitsRaises [1/10] [1/10] (355/113) = true ∧ angLimitsRaises [0] [4] (355/113) = true ∧
    angLimitsRaises [-1/10] [1] (355/113) = true ∧ angLimitsRaises [0, 1] [1] (355/113) = true := by
  refine ⟨?_, ?_, ?_, ?_⟩ <;> simp [angLimitsRaises] <;> norm_num

end Yaw.C01Tree
