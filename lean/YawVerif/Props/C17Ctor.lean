/-
  C17 — "incompatible shapes are rejected with an error": the shape validation of the container constructors, regenerated
  from the source as Bool kernels over array shapes (lists of naturals; ndim = length).  An IndexError while a
  condition is evaluated counts as a rejection (the generated terms carry the index guards).
-/
import YawVerif.Generated.Ctors

namespace Yaw.C17Ctor
open Yaw Yaw.Gen

/-- `PatchedCounts(binning, counts)` is accepted exactly for arrays of shape (num_bins, N, N) -/
theorem counts_ctor_spec (B : Nat) (s : List Nat) :
    countsCtorRaises B s = false ↔ ∃ N, s = [B, N, N] := by
  unfold countsCtorRaises
  match s with
  | [] => simp
  | [_] => simp
  | [_, _] => simp
  | [a, b, c] =>
    simp only [List.length_cons, List.length_nil, List.getD_cons_zero, List.getD_cons_succ]
    constructor
    · intro h
      simp at h
      exact ⟨b, by rw [h.1, h.2]⟩
    · rintro ⟨N, h⟩
      simp at h
      simp [h.1, h.2.1, h.2.2]
  | _ :: _ :: _ :: _ :: _ => simp

/-- `PatchedSumWeights(binning, sw1, sw2)` is accepted exactly for two arrays of the same shape (num_bins, N).
(Before ff1937b the chained comparison `a.ndim != b.ndim != 2` let two 1-dim or two 3-dim arrays through.) -/
theorem sumweights_ctor_spec (B : Nat) (s1 s2 : List Nat) :
    sumWeightsCtorRaises B s1 s2 = false ↔ ∃ N, s1 = [B, N] ∧ s2 = [B, N] := by
  unfold sumWeightsCtorRaises
  constructor
  · intro h
    simp only [Bool.or_eq_false_iff, bne_eq_false_iff_eq, Bool.not_eq_false', decide_eq_true_eq,
      Bool.and_eq_false_imp, beq_iff_eq] at h
    obtain ⟨⟨⟨h1, h2⟩, h3⟩, h4⟩ := h
    subst h3
    match s1, h1, h4 with
    | [a, b], _, h4 =>
      simp at h4
      exact ⟨b, by rw [h4], by rw [h4]⟩
  · rintro ⟨N, rfl, rfl⟩
    simp

/-- `SampledData(binning, data, samples)` is accepted exactly for data of shape (num_bins,) and samples (S, num_bins) -/
theorem sampled_ctor_spec (B : Nat) (d s : List Nat) :
    sampledCtorRaises B d s = false ↔ d = [B] ∧ ∃ S, s = [S, B] := by
  unfold sampledCtorRaises
  constructor
  · intro h
    simp only [Bool.or_eq_false_iff, bne_eq_false_iff_eq, Bool.not_eq_false', decide_eq_true_eq] at h
    obtain ⟨⟨h1, h2⟩, h3⟩ := h
    refine ⟨h1, ?_⟩
    match s, h2, h3 with
    | [a, b], _, h3 =>
      simp at h3
      exact ⟨a, by rw [h3]⟩
  · rintro ⟨rfl, S, rfl⟩
    simp

/-- `NormalisedCounts(counts, sum_weights)` is accepted exactly when patch and bin numbers agree -/
theorem normalised_ctor_spec (cN cB wN wB : Nat) :
    normalisedCtorRaises cN cB wN wB = false ↔ cN = wN ∧ cB = wB := by
  unfold normalisedCtorRaises
  simp

/-- `CorrFunc(dd, dr, rd, rr)` needs at least one term with randoms, checks every member it gets against dd and stores it
under its own name; num_patches / num_bins read the axes the model assumes -/
theorem corrfunc_ctor_spec (dr rd rr : Bool) :
    (corrfuncCtorNoRandoms dr rd rr = true ↔ dr = false ∧ rd = false ∧ rr = false) ∧
    corrfuncChecksEveryMember = true ∧ ctorAxesAsModelled = true := by
  refine ⟨?_, by decide, by decide⟩
  cases dr <;> cases rd <;> cases rr <;> decide

/-- derived correlation functions keep every member in its own slot (so the estimator that applies to a measurement applies to its
bins, its patches and its multiples), and a sum needs operands with the same members: the model of a correlation function as four
optional slots, the sum defined when the presence patterns agree -/
def cfAddDefined (a b : Bool × Bool × Bool) : Bool := a == b

theorem cf_add_symmetric (a b : Bool × Bool × Bool) : cfAddDefined a b = cfAddDefined b a := by
  unfold cfAddDefined
  rw [Bool.eq_iff_iff]
  simp only [beq_iff_eq]
  exact eq_comm

theorem corrfunc_algebra_flags : corrfuncDerivesByName = true ∧ corrfuncAddRequiresSameMembers = true := by decide

/-! ### iteration: the `Indexer` protocol (state = position; the callback raises IndexError from `n` on) -/

structure Ix (α : Type) where
  n : Nat
  item : Nat → α
  state : Nat

/-- `__next__` -/
def Ix.next {α} (ix : Ix α) : Option (α × Ix α) :=
  if ix.state < ix.n then some (ix.item ix.state, { ix with state := ix.state + 1 }) else none

/-- what a `for` loop collects from an indexer in its current state -/
def Ix.drain {α} (ix : Ix α) : Nat → List α
  | 0 => []
  | fuel + 1 => match ix.next with
    | none => []
    | some (x, ix') => x :: ix'.drain fuel

theorem drain_from {α} (n : Nat) (item : Nat → α) (fuel s : Nat) (h : n ≤ s + fuel) :
    (Ix.mk n item s).drain fuel = ((List.range' s (n - s)).map item) := by
  induction fuel generalizing s with
  | zero =>
    have : n - s = 0 := by omega
    simp [Ix.drain, this]
  | succ f ih =>
    unfold Ix.drain Ix.next
    by_cases hs : s < n
    · simp only [hs, if_true]
      rw [ih (s + 1) (by omega)]
      have : n - s = (n - (s + 1)) + 1 := by omega
      rw [this, List.range'_succ]
      simp
    · have : n - s = 0 := by omega
      simp [hs, this]

/-- **iteration** — a loop over `.bins` / `.patches` (a fresh indexer, position 0) yields item 0 … n−1 in order, and
because every access builds a NEW indexer (`indexerFreshPerAccess`), loops that overlap in time — nested loops over the same
container, `zip(x.bins, x.bins)` — each see all items: the position of one is not shared with the other -/
theorem iteration_complete {α} (n : Nat) (item : Nat → α) :
    (Ix.mk n item 0).drain (n + 1) = (List.range n).map item := by
  rw [drain_from n item (n + 1) 0 (by omega)]
  simp [List.range_eq_range']

theorem indexer_flags : indexerFreshPerAccess = true ∧ indexerProtocolAsModelled = true := by decide

/-- with ONE shared indexer the same nested loop is wrong — the inner loop rewinds and exhausts the shared position, so the
outer loop ends after its first pass (what a cached `.patches` would do); kept as the reason why the flag matters -/
example : let shared : Ix Nat := ⟨3, id, 0⟩
    -- outer takes item 0; inner loop drains the rest from the rewound position; outer continues from the exhausted state
    (match shared.next with
     | some (_, s1) => (({ s1 with state := 0 } : Ix Nat).drain 4, ({ s1 with state := 3 } : Ix Nat).drain 4)
     | none => ([], [])) = ([0, 1, 2], []) := by decide

/-! non-vacuity / the old defect as a witness on the pre-fix predicate (kept for reference, evaluated on the model only) -/
example : countsCtorRaises 2 [2, 3, 3] = false ∧ countsCtorRaises 2 [2, 3, 4] = true ∧ countsCtorRaises 2 [2, 3] = true := by decide
example : sumWeightsCtorRaises 2 [2, 3] [2, 3] = false ∧ sumWeightsCtorRaises 2 [2] [2] = true ∧
    sumWeightsCtorRaises 2 [2, 3, 3] [2, 3, 3] = true := by decide
example : sampledCtorRaises 3 [3] [7, 3] = false ∧ sampledCtorRaises 3 [3] [3, 7] = true := by decide

end Yaw.C17Ctor
