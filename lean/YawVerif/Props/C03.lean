/-
  C03 — jackknife sample k is the statistic with patch k left out; delete-one covariance.
  ONLY property theorems and non-vacuity examples live here (helper lemmas: Lemmas/).
-/
import YawVerif.Lemmas.Sums
import Mathlib.Algebra.Order.BigOperators.Group.Finset
import Mathlib.Tactic.NormNum
import YawVerif.Model.CorrFuncGlue
import YawVerif.Lemmas.HistJk

namespace Yaw.C03
open Yaw Yaw.Spec Yaw.Impl

/-- the un-resampled value is the sum over all patch pairs -/
theorem jk_data (N : Nat) (a : Nat → Nat → Rat) : Gen.jkData N a = total N a := by
  rfl

/-- generated `sample_patch_sum` sample `k` = Σ_{i≠k} Σ_{j≠k} a i j -/
theorem jk_counts (N : Nat) (a : Nat → Nat → Rat) (k : Nat) (hk : k < N) :
    Gen.jkSamples N a k = looTotal N a k := by
  unfold Gen.jkSamples looTotal
  rw [sumSkip_eq hk]
  have h : ∀ i, sumSkip N k (fun j => a i j) = sumTo N (fun j => a i j) - a i k :=
    fun i => sumSkip_eq hk _
  simp only [h, sumTo_sub]
  ring

/-- the leave-one-out total IS the total recomputed on the data with patch k removed -/
theorem loo_eq_removed (N : Nat) (a : Nat → Nat → Rat) (k : Nat) (hk : k ≤ N) :
    looTotal (N + 1) a k = total N (removePatch k a) := by
  have hk' : k < N + 1 := by omega
  unfold looTotal total removePatch
  rw [sumSkip_eq hk']
  have h : ∀ i, sumSkip (N + 1) k (fun j => a i j) = sumTo (N + 1) (fun j => a i j) - a i k :=
    fun i => sumSkip_eq hk' _
  simp only [h]
  have h2 : ∀ i, sumTo N (fun j => a (skipIdx k i) (skipIdx k j))
      = sumTo (N + 1) (fun j => a (skipIdx k i) j) - a (skipIdx k i) k :=
    fun i => sumTo_skipIdx hk _
  simp only [h2]
  rw [sumTo_skipIdx hk (fun i => sumTo (N + 1) (fun j => a i j) - a i k)]

/-- sample k of the pair counts = total recomputed with patch k removed (N+1 patches) -/
theorem jk_counts_removed (N : Nat) (a : Nat → Nat → Rat) (k : Nat) (hk : k ≤ N) :
    Gen.jkSamples (N + 1) a k = Gen.jkData N (removePatch k a) := by
  rw [jk_counts _ _ _ (by omega), loo_eq_removed _ _ _ hk, jk_data]

/-- the weight-product array of the reduced catalogs is the reduced weight-product array -/
theorem weights_remove (auto : Bool) (w1 w2 : Nat → Rat) (k : Nat) :
    removePatch k (Gen.weightArr auto w1 w2)
      = Gen.weightArr auto (removeEntry k w1) (removeEntry k w2) := by
  funext i j
  unfold removePatch Gen.weightArr removeEntry
  have e1 : (skipIdx k i = skipIdx k j) ↔ (i = j) := by unfold skipIdx; split <;> split <;> omega
  have e2 : (skipIdx k i ≤ skipIdx k j) ↔ (i ≤ j) := by unfold skipIdx; split <;> split <;> omega
  simp only [e1, e2]

/-- jackknife sample k of normalised counts = normalised counts of the data without patch k -/
theorem jk_normalised (N : Nat) (c : NC) (k : Nat) (hk : k ≤ N) :
    c.samples (N + 1) k = (c.remove k).data N := by
  unfold NC.samples NC.data NC.remove NC.normArr Gen.normSamples Gen.normData
  simp only [jk_counts_removed _ _ _ hk, weights_remove]

/-- jackknife sample k of the correlation estimate = estimate from the data without patch k -/
theorem jk_corrfunc (N : Nat) (c : CF) (k : Nat) (hk : k ≤ N) :
    c.sample (N + 1) k = (c.remove k).data N := by
  unfold CF.sample CF.data CF.remove
  simp only [jk_normalised _ _ _ hk, Option.map_map, Function.comp_def]

/-- the generated covariance is the delete-one jackknife covariance -/
theorem cov_formula (n : Nat) (hn : 2 ≤ n) (x : Nat → Nat → Rat) (p q : Nat) :
    Impl.cov n x p q = jkCov n x p q := by
  unfold Impl.cov jkCov npCov Gen.covDdof Gen.covFactor
  have hn0 : (n : Rat) ≠ 0 := by
    have : (0 : Rat) < n := by exact_mod_cast (by omega : 0 < n)
    exact ne_of_gt this
  simp only [Nat.cast_zero, sub_zero]
  field_simp

theorem cov_symm (n : Nat) (x : Nat → Nat → Rat) (p q : Nat) :
    jkCov n x p q = jkCov n x q p := by
  unfold jkCov
  congr 1
  apply sumTo_congr
  intro k _
  ring

/-- positive semi-definite: vᵀ C v = (n-1)/n Σ_k (Σ_p v_p (x_k,p - mean_p))² ≥ 0 -/
theorem cov_psd (n B : Nat) (hn : 1 ≤ n) (x : Nat → Nat → Rat) (v : Nat → Rat) :
    0 ≤ sumTo B fun p => sumTo B fun q => v p * jkCov n x p q * v q := by
  have key : (sumTo B fun p => sumTo B fun q => v p * jkCov n x p q * v q)
      = (((n : Rat) - 1) / n) *
        sumTo n fun k => (sumTo B fun p => v p * (x k p - mean n x p)) *
                         (sumTo B fun p => v p * (x k p - mean n x p)) := by
    unfold jkCov
    simp only [sumTo_eq]
    have hsq : ∀ k, (∑ p ∈ Finset.range B, v p * (x k p - mean n x p)) *
        (∑ q ∈ Finset.range B, v q * (x k q - mean n x q))
        = ∑ p ∈ Finset.range B, ∑ q ∈ Finset.range B,
            (v p * (x k p - mean n x p)) * (v q * (x k q - mean n x q)) :=
      fun k => Finset.sum_mul_sum _ _ _ _
    simp only [hsq, Finset.mul_sum, Finset.sum_mul]
    -- LHS: Σ_p Σ_q Σ_k …, RHS: Σ_k Σ_p Σ_q …
    rw [Finset.sum_congr rfl (fun p _ => Finset.sum_comm)]
    rw [Finset.sum_comm]
    apply Finset.sum_congr rfl
    intro k _
    apply Finset.sum_congr rfl
    intro p _
    apply Finset.sum_congr rfl
    intro q _
    ring
  rw [key]
  have h1 : (0 : Rat) ≤ ((n : Rat) - 1) / n := by
    have : (1 : Rat) ≤ n := by exact_mod_cast hn
    apply div_nonneg <;> linarith
  apply mul_nonneg h1
  rw [sumTo_eq]
  apply Finset.sum_nonneg
  intro k _
  exact mul_self_nonneg _

/-- the squared error (diagonal of the covariance) is non-negative, so `sqrt` is defined -/
theorem error_sq_nonneg (n : Nat) (hn : 1 ≤ n) (x : Nat → Nat → Rat) (p : Nat) :
    0 ≤ jkCov n x p p := by
  unfold jkCov
  have h1 : (0 : Rat) ≤ ((n : Rat) - 1) / n := by
    have : (1 : Rat) ≤ n := by exact_mod_cast hn
    apply div_nonneg <;> linarith
  apply mul_nonneg h1
  rw [sumTo_eq]
  exact Finset.sum_nonneg fun k _ => mul_self_nonneg _

/-- glue of `CorrFunc.sample` / `to_dict` that the hand model mirrors is unchanged -/
theorem glue_pinned :
    Gen.pinCorrFuncSampleGlue = "643d7c1acd96a2f7" ∧ Gen.pinCorrFuncToDict = "29278bba8909b4c8" := by
  decide

/-- row k of the histogram jackknife index matrix = all patches except k, in patch-index order
    (for the positions the current source deletes; false before the `fix:` of F22) -/
theorem hist_jk_row (N k : Nat) (hk : k < N) :
    Impl.histJkRow N k = (List.range N).filter fun c => decide (c ≠ k) :=
  Impl.histJkRow_eq N k hk rfl

/-- histogram jackknife sample k = Σ_{i≠k} counts i (leave-one-out, patch-index order) -/
theorem hist_jk (N k : Nat) (hk : k < N) (c : Nat → Rat) :
    Impl.histJk N c k = looSum N c k := by
  unfold Impl.histJk looSum
  rw [hist_jk_row N k hk, Impl.lsum_filter_ne]

/-! non-vacuity: concrete arrays meet the hypotheses and give non-trivial values -/
example : Gen.jkSamples 3 (fun i j => (i + 2 * j : Nat)) 1 = 12 := by norm_num [Gen.jkSamples, sumTo]
example : looTotal 3 (fun i j => (i + 2 * j : Nat)) 1 = 12 := by norm_num [looTotal, sumSkip, sumTo]
example : Impl.histJkRow 4 1 = [0, 2, 3] := by decide
example : jkCov 3 (fun k _ => (k : Rat)) 0 0 = 4 / 3 := by norm_num [jkCov, mean, sumTo]

end Yaw.C03
