/-
  C18 — input is consumed in bounded, consecutive chunks, each record once per pass.
-/
import YawVerif.Lemmas.Reader
import YawVerif.Model.Parquet

namespace Yaw.C18
open Yaw Yaw.Rd

/-- one pass over the source requests every record exactly once, in order: the chunks concatenate
    to the input, for every length and every chunk size ≥ 1 -/
theorem requests_cover_once {α : Type} (xs : List α) (c : Nat) (hc : 1 ≤ c) :
    (readAll xs c).flatten = xs := by
  unfold readAll
  have := read_from xs c hc (xs.length + 1) 0 (by omega)
  simpa using this

/-- no chunk is larger than the configured chunk size -/
theorem requests_bounded {α : Type} (xs : List α) (c : Nat) :
    ∀ ch ∈ readAll xs c, ch.length ≤ c := by
  intro ch hch
  unfold readAll at hch
  rw [List.mem_map] at hch
  obtain ⟨r, hr, rfl⟩ := hch
  unfold pySlice
  have h1 := (requests_shape xs.length c (xs.length + 1) 0).1 r hr
  rw [List.length_take]
  have : r.2.toNat - r.1.toNat ≤ c := by omega
  omega

/-- the requested slices are consecutive and non-overlapping: each spans `c` rows, starts where the
    previous one ended, and the first starts at row 0 -/
theorem requests_consecutive (n : Int) (c : Nat) (fuel : Nat) :
    (∀ r ∈ requests n c fuel 0, r.2 = r.1 + c) ∧
    List.IsChain (fun a b : Int × Int => b.1 = a.2) (requests n c fuel 0) ∧
    (∀ r, (requests n c fuel 0).head? = some r → r.1 = 0) :=
  requests_shape n c fuel 0

/-- the HDF5 and FITS readers request exactly the slices of the data-frame reader, so everything proved
    about `requests` (cover once, bounded, consecutive) holds for them as well -/
theorem file_slices_eq_df (s n c : Int) :
    Gen.hdfSliceLo s n c = Gen.dfSliceLo s n c ∧ Gen.hdfSliceHi s n c = Gen.dfSliceHi s n c ∧
    Gen.fitsSliceLo s n c = Gen.dfSliceLo s n c ∧ Gen.fitsSliceHi s n c = Gen.dfSliceHi s n c :=
  ⟨rfl, rfl, rfl, rfl⟩

/-- the sparse probe, the patch-centre pass and the writing pass all go through the same iterator;
    the glue that makes the number of passes 1 (or 2 when centres are generated) is pinned -/
theorem probe_and_passes_pinned :
    Gen.pinDataProbe = "ace9bc8216460ef9" ∧ Gen.pinRandomProbe = "0163df6a58e1fbdd" ∧
    Gen.pinRandomIter = "68b6757a4ca11947" := by decide

/-! ### Parquet: the row-group cache hands out the file's rows in order, in chunks of `c`, and never
    requests a row group before it is needed -/

namespace Pq
open Yaw.Parquet

@[simp] theorem size_nil {α : Type} : size ([] : List (List α)) = 0 := rfl
@[simp] theorem size_cons {α : Type} (x : List α) (xs : List (List α)) : size (x :: xs) = x.length + size xs := by
  simp [size]
@[simp] theorem size_append {α : Type} (a b : List (List α)) : size (a ++ b) = size a + size b := by
  simp [size]

theorem size_flatten {α : Type} (a : List (List α)) : a.flatten.length = size a := by
  induction a with
  | nil => rfl
  | cons x xs ih => simp [List.flatten_cons, ih]

/-- `_load_groups` only moves row groups from the file into the cache -/
theorem load_flatten {α : Type} (c : Nat) : ∀ (gs cache : List (List α)) (r l : Nat),
    (load c gs cache r l).cache.flatten ++ (load c gs cache r l).groups.flatten = cache.flatten ++ gs.flatten := by
  intro gs
  induction gs with
  | nil => intro cache r l; simp [load]
  | cons g gs ih =>
    intro cache r l
    unfold load
    split
    · rw [ih]; simp
    · simp

/-- after `_load_groups` the cache holds a full chunk or the file is exhausted -/
theorem load_full {α : Type} (c : Nat) : ∀ (gs cache : List (List α)) (r l : Nat),
    c ≤ size (load c gs cache r l).cache ∨ (load c gs cache r l).groups = [] := by
  intro gs
  induction gs with
  | nil => intro cache r l; right; simp [load]
  | cons g gs ih =>
    intro cache r l
    unfold load
    split
    · exact ih _ _ _
    · next h => left; simp only; omega

theorem pop_append {α : Type} (c : Nat) : ∀ (cache : List (List α)) (n : Nat),
    (pop c n cache).1 ++ (pop c n cache).2 = cache := by
  intro cache
  induction cache with
  | nil => intro n; rfl
  | cons t ts ih =>
    intro n
    unfold pop
    split
    · simp only [List.cons_append]; rw [ih]
    · rfl

/-- the pop loop collects at least `c` rows unless the cache runs out -/
theorem pop_enough {α : Type} (c : Nat) : ∀ (cache : List (List α)) (n : Nat),
    c ≤ n + size (pop c n cache).1 ∨ (pop c n cache).2 = [] := by
  intro cache
  induction cache with
  | nil => intro n; right; rfl
  | cons t ts ih =>
    intro n
    unfold pop
    split
    · rcases ih (n + t.length) with h | h
      · left; simp only [size_cons]; omega
      · right; exact h
    · next h => left; simp only [size_nil]; omega

/-- `_extract_chunk` removes exactly the chunk from the left end of the cache -/
theorem extract_flatten {α : Type} (c : Nat) (cache : List (List α)) :
    (extract c cache).1 ++ (extract c cache).2.flatten = cache.flatten := by
  unfold extract
  have hp := pop_append c cache 0
  generalize pop c 0 cache = pr at hp
  obtain ⟨p, rest⟩ := pr
  simp only at hp ⊢
  rw [← hp, List.flatten_append]
  split
  · next he =>
    have hdrop : List.drop c p.flatten = [] := by simpa using he
    have htake : List.take c p.flatten = p.flatten := by
      conv_rhs => rw [← List.take_append_drop c p.flatten, hdrop, List.append_nil]
    rw [htake]
  · simp only [List.flatten_cons]
    rw [← List.append_assoc, List.take_append_drop]

/-- … and the chunk has `c` rows, or all that is left when fewer remain in the cache -/
theorem extract_length {α : Type} (c : Nat) (cache : List (List α)) :
    (extract c cache).1.length = min c (size cache) := by
  unfold extract
  have hp := pop_append c cache 0
  have he := pop_enough c cache 0
  generalize pop c 0 cache = pr at hp he
  obtain ⟨p, rest⟩ := pr
  simp only at hp he ⊢
  rw [List.length_take, size_flatten]
  have hs : size cache = size p + size rest := by rw [← hp, size_append]
  rcases he with h | h
  · omega
  · subst h
    simp only [size_nil, Nat.add_zero] at hs
    omega

/-- MAIN (Parquet, content): one call hands out the next rows of the file, nothing is lost or repeated -/
theorem next_flatten {α : Type} (c : Nat) (s : St α) :
    (next c s).1 ++ ((next c s).2.cache.flatten ++ (next c s).2.groups.flatten) =
      s.cache.flatten ++ s.groups.flatten := by
  unfold next
  simp only
  rw [← List.append_assoc, extract_flatten, load_flatten]

/-- MAIN (Parquet, all chunks): `k` calls hand out a prefix of the file's rows, in order -/
theorem run_flatten {α : Type} (c : Nat) : ∀ (k : Nat) (s : St α),
    (run c k s).1.flatten ++ ((run c k s).2.cache.flatten ++ (run c k s).2.groups.flatten) =
      s.cache.flatten ++ s.groups.flatten := by
  intro k
  induction k with
  | zero => intro s; simp [run]
  | succ k ih =>
    intro s
    simp only [run, List.flatten_cons, List.append_assoc]
    rw [ih, next_flatten]

/-- MAIN (Parquet, chunk size): a chunk has `c` rows, or everything that is left of the file -/
theorem next_length {α : Type} (c : Nat) (s : St α) :
    (next c s).1.length = min c (size s.cache + size s.groups) := by
  unfold next
  simp only
  rw [extract_length]
  have hf := load_flatten c s.groups s.cache s.requested s.last
  have hfull := load_full c s.groups s.cache s.requested s.last
  have hl := congrArg List.length hf
  simp only [List.length_append, size_flatten] at hl
  rcases hfull with h | h
  · omega
  · rw [h] at hl
    simp only [size_nil, Nat.add_zero] at hl
    omega

/-- the read-ahead invariant: the cache holds fewer rows than the row group requested last, i.e. without
    that group the rows already handed out would not be covered -/
def Lazy {α : Type} (s : St α) : Prop :=
  (s.requested = 0 ∧ s.cache = []) ∨ (0 < s.requested ∧ size s.cache < s.last)

private theorem load_post {α : Type} (c : Nat) (hc : 0 < c) : ∀ (gs cache : List (List α)) (r l : Nat),
    (∀ g ∈ gs, g ≠ []) →
    ((load c gs cache r l).requested = r ∧ (load c gs cache r l).cache = cache ∧ (load c gs cache r l).last = l ∧
        (c ≤ size cache ∨ gs = [])) ∨
    (r < (load c gs cache r l).requested ∧ 0 < (load c gs cache r l).last ∧
        size (load c gs cache r l).cache < c + (load c gs cache r l).last) := by
  intro gs
  induction gs with
  | nil => intro cache r l _; left; simp [load]
  | cons g gs ih =>
    intro cache r l hne
    unfold load
    split
    · next hlt =>
      right
      have hg : g ≠ [] := hne g (by simp)
      have hgl : 0 < g.length := List.length_pos_iff.mpr hg
      rcases ih (cache ++ [g]) (r + 1) g.length (fun x hx => hne x (by simp [hx])) with h | h
      · obtain ⟨h1, h2, h3, _⟩ := h
        refine ⟨by omega, by omega, ?_⟩
        rw [h2, h3, size_append]
        simp only [size_cons, size_nil]
        omega
      · obtain ⟨h1, h2, h3⟩ := h
        exact ⟨by omega, h2, h3⟩
    · next hge => left; exact ⟨rfl, rfl, rfl, Or.inl (by omega)⟩

/-- MAIN (Parquet, bounded reads): reading stays lazy — after every chunk the row groups requested so
    far are needed to cover the rows handed out (row groups are non-empty, chunk size ≥ 1) -/
theorem next_lazy {α : Type} (c : Nat) (hc : 0 < c) (s : St α) (hne : ∀ g ∈ s.groups, g ≠ []) (h : Lazy s) :
    Lazy (next c s).2 := by
  unfold next
  simp only
  have hlen := extract_length c (load c s.groups s.cache s.requested s.last).cache
  have hfl := extract_flatten c (load c s.groups s.cache s.requested s.last).cache
  have hsz : size (extract c (load c s.groups s.cache s.requested s.last).cache).2 =
      size (load c s.groups s.cache s.requested s.last).cache - min c (size (load c s.groups s.cache s.requested s.last).cache) := by
    have := congrArg List.length hfl
    simp only [List.length_append, size_flatten] at this
    omega
  rcases load_post c hc s.groups s.cache s.requested s.last hne with hp | hp
  · obtain ⟨h1, h2, h3, h4⟩ := hp
    rcases h with ⟨hr, hcache⟩ | ⟨hr, hlt⟩
    · -- nothing requested yet and nothing to request: the file is empty
      left
      refine ⟨by simp only; omega, ?_⟩
      simp only
      rw [h2, hcache]
      simp [extract, pop]
    · right
      refine ⟨by simp only; omega, ?_⟩
      simp only
      rw [hsz, h2, h3]
      omega
  · obtain ⟨h1, h2, h3⟩ := hp
    right
    refine ⟨by simp only; omega, ?_⟩
    simp only
    rw [hsz]
    omega

theorem parquet_pinned : Gen.pinParquetCache = "c82032c997ed9b51" := by decide

/-! non-vacuity: three row groups of sizes 4, 1, 2, chunk size 3 -/
example : (run 3 3 (start [[0, 1, 2, 3], [4], [5, 6]])).1 = [[0, 1, 2], [3, 4, 5], [6]] := by decide
example : ((run 3 1 (start [[0, 1, 2, 3], [4], [5, 6]])).2.requested, (run 3 2 (start [[0, 1, 2, 3], [4], [5, 6]])).2.requested) = (1, 3) := by
  decide

end Pq

/-! non-vacuity -/
example : readAll [1, 2, 3, 4, 5, 6, 7] 3 = [[1, 2, 3], [4, 5, 6], [7]] := by decide
example : requests 7 3 8 0 = [(0, 3), (3, 6), (6, 9)] := by decide

end Yaw.C18
