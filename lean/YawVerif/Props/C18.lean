/-
  C18 — input is consumed in bounded, consecutive chunks, each record once per pass.
-/
import YawVerif.Lemmas.Reader

namespace Yaw.C18
open Yaw Yaw.Rd

/-- one pass over the source requests every record exactly once, in order: the chunks concatenate
    to the input, for every length and every chunk size ≥ 1 -/
theorem requests_cover_once {α : Type} (xs : List α) (c : Nat) (hc : 1 ≤ c) :
    (readAll xs c).flatten = xs := by
  unfold readAll
  have := read_from xs c hc (xs.length + 1) 0 (by omega)
  simpa using this

/-- no chunk is larger than the configured chunk size -/
theorem requests_bounded {α : Type} (xs : List α) (c : Nat) :
    ∀ ch ∈ readAll xs c, ch.length ≤ c := by
  intro ch hch
  unfold readAll at hch
  rw [List.mem_map] at hch
  obtain ⟨r, hr, rfl⟩ := hch
  unfold pySlice
  have h1 := (requests_shape xs.length c (xs.length + 1) 0).1 r hr
  rw [List.length_take]
  have : r.2.toNat - r.1.toNat ≤ c := by omega
  omega

/-- the requested slices are consecutive and non-overlapping: each spans `c` rows, starts where the
    previous one ended, and the first starts at row 0 -/
theorem requests_consecutive (n : Int) (c : Nat) (fuel : Nat) :
    (∀ r ∈ requests n c fuel 0, r.2 = r.1 + c) ∧
    List.IsChain (fun a b : Int × Int => b.1 = a.2) (requests n c fuel 0) ∧
    (∀ r, (requests n c fuel 0).head? = some r → r.1 = 0) :=
  requests_shape n c fuel 0

/-- the sparse probe, the patch-centre pass and the writing pass all go through the same iterator;
    the glue that makes the number of passes 1 (or 2 when centres are generated) is pinned -/
theorem probe_and_passes_pinned :
    Gen.pinDataProbe = "ace9bc8216460ef9" ∧ Gen.pinRandomProbe = "0163df6a58e1fbdd" ∧
    Gen.pinRandomIter = "68b6757a4ca11947" := by decide

/-! non-vacuity -/
example : readAll [1, 2, 3, 4, 5, 6, 7] 3 = [[1, 2, 3], [4, 5, 6], [7]] := by decide
example : requests 7 3 8 0 = [(0, 3), (3, 6), (6, 9)] := by decide

end Yaw.C18
