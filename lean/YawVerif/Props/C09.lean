/-
  C09 — catalog creation is fail-stop: exact catalog or an exception, never a hang.
-/
import YawVerif.Model.Creation
import YawVerif.Generated.Validation
import Mathlib.Tactic.Linarith

namespace Yaw.C09
open Yaw Yaw.Create

/-- facts that hold in every reachable state of a parallel creation -/
structure Inv (f : Faults) (chunks : Nat) (s : Sys) : Prop where
  joinOk_eoq : s.main = .joining false → s.eoq = true ∧ s.left = 0
  joinFail_exited : s.main = .joining true → wrExited s.wr = true ∧ s.eoq = false
  marker_ok : s.marker = true → s.wr = .exitedOk
  ok_marker : s.wr = .exitedOk → s.marker = true ∧ s.eoq = true
  fault_ahead : s.main = .reading → ∀ k, f.faultAt = some k → k ≤ chunks → k ≤ s.left
  reading_noeoq : s.main = .reading → s.eoq = false
  left_le : s.left ≤ chunks
  eoq_nofault : s.eoq = true → ∀ k, f.faultAt = some k → chunks < k
  wrInit_never : f.wrInit = true → s.wr = .init ∨ s.wr = .exitedErr ∨ s.wr = .killed
  wrFinal_never : f.wrFinal = true → s.wr ≠ .exitedOk
  killed_failed : s.wr = .killed → s.main = .joining true ∨ s.main = .done true
  done_raised : s.main = .done true → s.eoq = false ∨ s.wr = .exitedErr
  done_ok : s.main = .done false → s.wr = .exitedOk
  exitedErr_fault : s.wr = .exitedErr → f.wrInit = true ∨ f.wrFinal = true
  failed_fault : (s.main = .joining true ∨ (s.main = .done true ∧ s.eoq = false)) →
    ∃ k, f.faultAt = some k ∧ k ≤ chunks

theorem init_inv (f : Faults) (chunks : Nat) : Inv f chunks (init chunks) := by
  constructor <;> simp [init, wrExited]

/-- every transition preserves the invariant -/
theorem next_inv (f : Faults) (w chunks : Nat) (s : Sys) (h : Inv f chunks s) :
    ∀ s' ∈ next f w s, Inv f chunks s' := by
  intro s' hs'
  obtain ⟨left, queue, eoq, main, wr, marker⟩ := s
  obtain ⟨h1, h2, h3, h4, h5, h6, h7, h8, h9, h10, h11, h12, h13, h14, h15⟩ := h
  simp only at h1 h2 h3 h4 h5 h6 h7 h8 h9 h10 h11 h12 h13 h14 h15
  unfold next cap at hs'
  simp only [Gen.queueBounded, Gen.terminatesWriterOnError, Gen.forwardsWriterError, Bool.false_eq_true, if_false,
    Bool.true_and, List.mem_append] at hs'
  rcases hs' with hm | hw
  · -- parent step
    cases main with
    | reading =>
      simp only at hm
      by_cases hf : f.faultAt = some left
      · simp only [hf, if_true, List.mem_singleton] at hm
        subst hm
        have hk : left ≤ chunks := h7
        constructor <;> simp only [reduceCtorEq, false_imp_iff, imp_self, implies_true, true_and] <;>
          first
            | (intro; simp_all [wrExited]; done)
            | (cases wr <;> simp_all [wrExited])
      · simp only [hf, if_false] at hm
        by_cases hl : left = 0
        · simp only [hl, if_true, List.mem_singleton] at hm
          subst hm
          subst hl
          constructor <;> simp only [reduceCtorEq, false_imp_iff, imp_self, implies_true, true_and] <;>
            first
              | (intro; simp_all; done)
              | (intros; simp_all; try omega)
        · simp only [hl, if_false, List.mem_singleton] at hm
          subst hm
          constructor <;> simp only [reduceCtorEq, false_imp_iff, imp_self, implies_true, true_and] <;>
            first
              | (intro; simp_all; done)
              | (intros; simp_all; try omega)
    | joining failed =>
      simp only at hm
      by_cases he : wrExited wr = true
      · simp only [he, if_true, List.mem_singleton] at hm
        subst hm
        cases failed
        · -- clean join: raised iff the writer forwarded an error
          have ⟨he1, hl0⟩ := h1 rfl
          constructor <;> simp only [reduceCtorEq, false_imp_iff, imp_self, implies_true, true_and] <;>
            first
              | (intro; simp_all; done)
              | (cases wr <;> simp_all [wrExited])
        · have ⟨_, he0⟩ := h2 rfl
          constructor <;> simp only [reduceCtorEq, false_imp_iff, imp_self, implies_true, true_and] <;>
            first
              | (intro; simp_all; done)
              | (cases wr <;> simp_all [wrExited])
      · simp [he] at hm
    | done r => simp at hm
  · -- writer step
    cases wr with
    | init =>
      simp only [List.mem_singleton] at hw
      subst hw
      by_cases hi : f.wrInit = true
      · simp only [hi, if_true]
        constructor <;> simp only [reduceCtorEq, false_imp_iff, imp_self, implies_true, true_and] <;>
          first
            | (intro; simp_all [wrExited]; done)
            | (cases main <;> simp_all [wrExited])
      · simp only [hi, Bool.false_eq_true, if_false]
        constructor <;> simp only [reduceCtorEq, false_imp_iff, imp_self, implies_true, true_and] <;>
          first
            | (intro; simp_all [wrExited]; done)
            | (cases main <;> simp_all [wrExited])
    | loop =>
      simp only at hw
      by_cases hq : queue > 0
      · simp only [hq, if_true, List.mem_singleton] at hw
        subst hw
        constructor <;> simp only [reduceCtorEq, false_imp_iff, imp_self, implies_true, true_and] <;>
          first
            | (intro; simp_all [wrExited]; done)
            | (cases main <;> simp_all [wrExited])
      · simp only [hq, if_false] at hw
        by_cases he : eoq = true
        · simp only [he, if_true, List.mem_singleton] at hw
          subst hw
          by_cases hfin : f.wrFinal = true
          · simp only [hfin, if_true]
            constructor <;> simp only [reduceCtorEq, false_imp_iff, imp_self, implies_true, true_and] <;>
              first
                | (intro; simp_all [wrExited]; done)
                | (cases main <;> simp_all [wrExited])
          · simp only [hfin, Bool.false_eq_true, if_false]
            constructor <;> simp only [reduceCtorEq, false_imp_iff, imp_self, implies_true, true_and] <;>
              first
                | (intro; simp_all [wrExited]; done)
                | (cases main <;> simp_all [wrExited])
        · simp [he] at hw
    | exitedOk => simp at hw
    | exitedErr => simp at hw
    | killed => simp at hw

/-- NO HANG: every reachable non-final state has an enabled transition -/
theorem progress (f : Faults) (w chunks : Nat) (s : Sys) (h : Inv f chunks s) (hn : final s = false) :
    next f w s ≠ [] := by
  obtain ⟨left, queue, eoq, main, wr, marker⟩ := s
  unfold next cap
  simp only [Gen.queueBounded, Gen.terminatesWriterOnError, Gen.forwardsWriterError, Bool.false_eq_true, if_false]
  cases main with
  | reading =>
    simp only
    by_cases hf : f.faultAt = some left
    · simp [hf]
    · by_cases hl : left = 0
      · subst hl; simp [hf]
      · simp [hf, hl]
  | joining failed =>
    by_cases he : wrExited wr = true
    · simp [he]
    · cases wr with
      | init => simp
      | loop =>
        by_cases hq : queue > 0
        · simp [hq]
        · cases failed
          · have := (h.joinOk_eoq rfl).1
            simp only at this
            simp [hq, this]
          · have := (h.joinFail_exited rfl).1
            simp [wrExited] at this
      | exitedOk => simp [wrExited] at he
      | exitedErr => simp [wrExited] at he
      | killed => simp [wrExited] at he
  | done r => simp [final] at hn

/-- termination measure: strictly decreases with every transition (bounded time) -/
def measure (w : Nat) (s : Sys) : Nat :=
  (2 * w + 1) * s.left + 2 * s.queue
    + (match s.main with | .reading => 2 | .joining _ => 1 | .done _ => 0)
    + (match s.wr with | .init => 3 | .loop => 2 | _ => 0)

theorem terminates (f : Faults) (w : Nat) (s : Sys) : ∀ s' ∈ next f w s, measure w s' < measure w s := by
  intro s' hs'
  obtain ⟨left, queue, eoq, main, wr, marker⟩ := s
  unfold next cap at hs'
  simp only [Gen.queueBounded, Gen.terminatesWriterOnError, Gen.forwardsWriterError, Bool.false_eq_true, if_false,
    Bool.true_and, List.mem_append] at hs'
  rcases hs' with hm | hw
  · cases main with
    | reading =>
      simp only at hm
      by_cases hf : f.faultAt = some left
      · simp only [hf, if_true, List.mem_singleton] at hm
        subst hm
        cases wr <;> simp [measure, wrExited]
      · simp only [hf, if_false] at hm
        by_cases hl : left = 0
        · simp only [hl, if_true, List.mem_singleton] at hm
          subst hm; subst hl; simp [measure]
        · simp only [hl, if_false, List.mem_singleton] at hm
          subst hm
          simp only [measure]
          have : left - 1 + 1 = left := by omega
          have e : (2 * w + 1) * left = (2 * w + 1) * (left - 1) + (2 * w + 1) := by
            conv_lhs => rw [← this]
            rw [Nat.mul_add, Nat.mul_one]
          omega
    | joining failed =>
      simp only at hm
      by_cases he : wrExited wr = true
      · simp only [he, if_true, List.mem_singleton] at hm
        subst hm; simp [measure]
      · simp [he] at hm
    | done r => simp at hm
  · cases wr with
    | init =>
      simp only [List.mem_singleton] at hw
      subst hw
      by_cases hi : f.wrInit = true <;> simp [measure, hi]
    | loop =>
      simp only at hw
      by_cases hq : queue > 0
      · simp only [hq, if_true, List.mem_singleton] at hw
        subst hw; simp only [measure]; omega
      · simp only [hq, if_false] at hw
        by_cases he : eoq = true
        · simp only [he, if_true, List.mem_singleton] at hw
          subst hw
          by_cases hfin : f.wrFinal = true <;> simp [measure, hfin]
        · simp [he] at hw
    | exitedOk => simp at hw
    | exitedErr => simp at hw
    | killed => simp at hw

/-- FAIL-STOP outcome of a finished parallel creation: it raises iff a fault is present; without
    raising the cache is finalised; after raising it is NOT finalised (does not open as a catalog) -/
theorem outcome (f : Faults) (chunks : Nat) (s : Sys) (h : Inv f chunks s) (r : Bool) (hd : s.main = .done r) :
    (r = anyFault f chunks) ∧ (r = false → s.marker = true) ∧ (r = true → s.marker = false) := by
  obtain ⟨left, queue, eoq, main, wr, marker⟩ := s
  simp only at hd
  subst hd
  cases r
  · -- returned: the writer finished cleanly, no fault anywhere
    have hok := h.done_ok rfl
    simp only at hok
    subst hok
    have ⟨hmk, heq⟩ := h.ok_marker rfl
    simp only at hmk heq
    refine ⟨?_, fun _ => hmk, fun hh => by simp at hh⟩
    unfold anyFault
    have h1 : f.wrInit = false := by
      by_contra hc
      have := h.wrInit_never (by simpa using hc)
      simp at this
    have h2 : f.wrFinal = false := by
      by_contra hc
      exact h.wrFinal_never (by simpa using hc) rfl
    have h3 := h.eoq_nofault heq
    cases hfa : f.faultAt with
    | none => simp [h1, h2]
    | some k =>
      have := h3 k hfa
      simp [h1, h2]; omega
  · refine ⟨?_, fun hh => by simp at hh, fun _ => ?_⟩
    · unfold anyFault
      rcases h.done_raised rfl with he | he
      · simp only at he
        obtain ⟨k, hk, hkc⟩ := h.failed_fault (Or.inr ⟨rfl, he⟩)
        simp [hk, hkc]
      · simp only at he
        rcases h.exitedErr_fault he with hh | hh <;> simp [hh]
    · by_contra hm
      have hmk : marker = true := by simpa using hm
      have hw := h.marker_ok hmk
      simp only at hw
      rcases h.done_raised rfl with he | he
      · have := (h.ok_marker hw).2
        simp only at he this
        rw [he] at this; simp at this
      · simp only at he; rw [hw] at he; simp at he

/-- sequential and parallel mode agree on raising and on whether a valid catalog is left behind -/
theorem sequential_agrees (f : Faults) (chunks : Nat) :
    (sequential f chunks).1 = anyFault f chunks ∧
    ((sequential f chunks).1 = true → (sequential f chunks).2 = false) := by
  unfold sequential anyFault Gen.finalizeOnCleanExitOnly
  obtain ⟨fa, wi, wf⟩ := f
  cases wi <;> cases wf <;> cases fa <;> simp
  all_goals (split <;> simp_all)

/-- the target path: a missing path is created; an existing one raises without overwrite; with
    overwrite only a catalog cache is deleted, anything else raises -/
theorem path_rule (pathExists isCatalog overwrite : Bool) :
    pathAction pathExists isCatalog overwrite =
      if !pathExists then .create else if overwrite && isCatalog then .deleteAndCreate else .raise := by
  unfold pathAction Gen.overwriteOnlyCatalog
  cases pathExists <;> cases isCatalog <;> cases overwrite <;> rfl

theorem flags :
    Gen.finalizeOnCleanExitOnly = true ∧ Gen.overwriteOnlyCatalog = true ∧ Gen.expectsAllPatches = true ∧
    Gen.terminatesWriterOnError = true ∧ Gen.forwardsWriterError = true ∧ Gen.queueBounded = false :=
  ⟨rfl, rfl, rfl, rfl, rfl, rfl⟩

theorem glue_pinned :
    Gen.pinWriteUnthreaded2 = "8a5acea113c96fa9" ∧ Gen.pinWritePatchesMP2 = "46c840d17381bc14" ∧
    Gen.pinWriterProcess = "3e283404dfdc632b" ∧ Gen.pinChunkCreate = "68276cf6aa4b27ae" ∧
    Gen.pinPatchMode = "507f3f0f7592a17b" := by decide

/-! non-vacuity: a run with a reader fault in the second of three chunks -/
example : (next ⟨some 2, false, false⟩ 2 (init 3)).length = 2 := by decide

/-! ### What a chunk is checked for (regenerated from `check_patch_ids` / `DataChunk.create` / `common_len_assert`) -/

/-- the id test of the code rejects a column exactly when some id lies outside 0..32767 (`mn`, `mx`: smallest and
largest id of the column, so "all ids in range" is `0 ≤ mn ∧ mx ≤ 32767`) -/
theorem id_range_spec (mn mx : Int) : Gen.idRejected mn mx = true ↔ ¬ (0 ≤ mn ∧ mx ≤ 32767) := by
  unfold Gen.idRejected
  simp only [Bool.or_eq_true, decide_eq_true_eq]
  constructor
  · rintro (h | h) ⟨h0, h1⟩
    · have : (0 : Rat) ≤ (mn : Rat) := by exact_mod_cast h0
      exact absurd h (not_lt.mpr this)
    · have : (mx : Rat) ≤ (32767 : Rat) := by exact_mod_cast h1
      exact absurd h (not_lt.mpr this)
  · intro h
    by_cases h0 : 0 ≤ mn
    · right
      have h1 : ¬ mx ≤ 32767 := fun h1 => h ⟨h0, h1⟩
      have : (32767 : Int) < mx := by omega
      exact_mod_cast this
    · left
      have : mn < 0 := by omega
      exact_mod_cast this

/-- the bound IS the capacity of the stored id type, so an accepted id is stored unchanged -/
theorem id_bound_is_dtype_max : Gen.patchIdMax = 32767 := by decide

/-- why the ORDER matters: reduced to 16 bit first, the id 65537 becomes the valid id 1 — a test after the cast accepts
it (the defect pattern of a check that runs on the already filled record array) -/
def wrap16 (i : Int) : Int := (i + 32768) % 65536 - 32768
theorem check_after_cast_accepts_garbage :
    Gen.idRejected 65537 65537 = true ∧ Gen.idRejected (wrap16 65537) (wrap16 65537) = false := by decide

/-- the code checks the ids of the raw column before anything is cast, compares the lengths of ALL given columns, and
rejects non-finite values unless told otherwise -/
theorem validation_flags :
    Gen.idsCheckedBeforeCast = true ∧ Gen.lengthsCompared = true ∧ Gen.finiteCheckedByDefault = true := by decide

end Yaw.C09
