/-
  C11 — "to the precision of the fixed-width format": what `format_float_fixed_width` keeps of a value, for every value.
-/
import Mathlib.Algebra.Order.Field.Rat
import Mathlib.Tactic.Linarith
import Mathlib.Algebra.Order.Ring.Abs
import Mathlib.Algebra.Order.Ring.Cast
import YawVerif.Model.Fmt
import YawVerif.Generated.Persist

namespace Yaw.C11Fmt
open Yaw.Fmt

/-- rounding to the last printed decimal is off by at most half a unit -/
theorem roundHE_err (x : Rat) : |((roundHE x : Int) : Rat) - x| ≤ 1 / 2 := by
  have h1 := Rat.floor_le x
  have h2 := Rat.lt_floor_add_one x
  unfold roundHE
  simp only
  push_cast at h2
  split_ifs with a b c
  · rw [abs_le]; constructor <;> linarith
  · push_cast; rw [abs_le]; constructor <;> linarith
  · rw [abs_le]; constructor <;> linarith
  · push_cast
    have : x - (x.floor : Rat) = 1 / 2 := le_antisymm (not_lt.mp b) (not_lt.mp a)
    rw [abs_le]; constructor <;> linarith

/-- truncation never increases the magnitude … -/
theorem keep_le (w m : Nat) : keep w m ≤ m := Nat.div_mul_le_self m _

/-- … and loses less than one unit of the last kept decimal: with `d` digits in front of the point the file is exact to
10^-(w-2-d) (w = 10: a value below 10 keeps 7 decimals, below 100 six, …), and to less than 1 once the integer part fills
the width -/
theorem keep_err (w m : Nat) : m - keep w m < cutUnit w (intDigits w m) := by
  have e2 : keep w m = (m / cutUnit w (intDigits w m)) * cutUnit w (intDigits w m) := rfl
  have hpos : 0 < cutUnit w (intDigits w m) := by unfold cutUnit; positivity
  rw [e2]
  generalize cutUnit w (intDigits w m) = K at hpos ⊢
  have h1 := Nat.mod_lt m hpos
  have h2 := Nat.div_add_mod m K
  rw [Nat.mul_comm] at h2
  omega

theorem cutUnit_dvd (w d : Nat) : cutUnit w d ∣ 10 ^ w := by
  unfold cutUnit
  exact pow_dvd_pow 10 (Nat.sub_le _ _)

/-- the integer part survives the truncation -/
theorem keep_int_part (w m : Nat) : keep w m / 10 ^ w = m / 10 ^ w := by
  unfold keep
  obtain ⟨c, hc⟩ := cutUnit_dvd w (intDigits w m)
  set K := cutUnit w (intDigits w m) with hK
  have hpos : 0 < K := by rw [hK]; unfold cutUnit; positivity
  rw [hc, ← Nat.div_div_eq_div_mul, Nat.mul_div_cancel _ hpos, Nat.div_div_eq_div_mul]

/-- **writing is idempotent**: a value read from a file and written again gives the same characters (files can be re-read and
re-written any number of times without drifting) -/
theorem keep_idem (w m : Nat) : keep w (keep w m) = keep w m := by
  have hd : intDigits w (keep w m) = intDigits w m := by unfold intDigits; rw [keep_int_part]
  have e1 : keep w (keep w m) = (keep w m / cutUnit w (intDigits w (keep w m))) * cutUnit w (intDigits w (keep w m)) := rfl
  have e2 : keep w m = (m / cutUnit w (intDigits w m)) * cutUnit w (intDigits w m) := rfl
  have hpos : 0 < cutUnit w (intDigits w m) := by unfold cutUnit; positivity
  rw [e1, hd, e2, Nat.mul_div_cancel _ hpos]

/-- **precision of the text format** — for every finite value: what is read back differs from what was written by less than
(one unit of the last kept decimal + half a unit of the 10^-w rounding) -/
theorem fmt_precision (w : Nat) (x : Rat) :
    let r := roundHE (x * (10 ^ w : Nat))
    |fmtValue w x - x| * (10 ^ w : Nat) < (cutUnit w (intDigits w r.natAbs) : Rat) + 1 / 2 + 1 / 2 := by
  intro r
  have hw : (0 : Rat) < ((10 ^ w : Nat) : Rat) := by positivity
  have hr := roundHE_err (x * (10 ^ w : Nat))
  have hk1 : (keep w r.natAbs : Rat) ≤ r.natAbs := by exact_mod_cast keep_le w r.natAbs
  have hk2 : (r.natAbs : Rat) - keep w r.natAbs < cutUnit w (intDigits w r.natAbs) := by
    have := keep_err w r.natAbs
    have h3 := keep_le w r.natAbs
    have : ((r.natAbs - keep w r.natAbs : Nat) : Rat) < cutUnit w (intDigits w r.natAbs) := by exact_mod_cast this
    rwa [Nat.cast_sub h3] at this
  have key : |fmtValue w x - x| * (10 ^ w : Nat) = |fmtValue w x * (10 ^ w : Nat) - x * (10 ^ w : Nat)| := by
    rw [← sub_mul, abs_mul, abs_of_pos hw]
  rw [key]
  have hval : fmtValue w x * (10 ^ w : Nat) = if r < 0 then -(keep w r.natAbs : Rat) else (keep w r.natAbs : Rat) := by
    unfold fmtValue
    simp only
    rw [div_mul_cancel₀ _ (ne_of_gt hw)]
  rw [hval]
  have habs : (r.natAbs : Rat) = |(r : Rat)| := by
    rw [Nat.cast_natAbs, Int.cast_abs]
  have hr' := abs_le.mp hr
  by_cases h : r < 0
  · have hr0 : (r : Rat) < 0 := by exact_mod_cast h
    rw [abs_of_neg hr0] at habs
    simp only [h, if_true]
    rw [abs_lt]; constructor <;> linarith
  · have hr0 : (0 : Rat) ≤ (r : Rat) := by exact_mod_cast (not_lt.mp h)
    rw [abs_of_nonneg hr0] at habs
    simp only [h, if_false]
    rw [abs_lt]; constructor <;> linarith

/-- the code is the modelled function, used with the width `PRECISION` = 10 for every value column -/
theorem fmt_flags : Yaw.Gen.fmtAsModelled = true ∧ Yaw.Gen.fmtUsedWithPrecision = true ∧ Yaw.Gen.textPrecision = 10 := by decide

/-! non-vacuity (w = 10): 0.123456789012 keeps 7 decimals, 123.456789012 keeps 5, 9.99999999996 carries to 10.000000 -/
example : keep 10 1234567890 = 1234567000 ∧ keep 10 1234567890120 = 1234567800000 := by decide
example : intDigits 10 1234567890 = 1 ∧ intDigits 10 1234567890120 = 3 ∧ cutUnit 10 1 = 1000 ∧ cutUnit 10 9 = 10 ^ 10 := by decide

end Yaw.C11Fmt
