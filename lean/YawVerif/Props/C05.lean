/-
  C05 — results do not depend on worker count or completion order.
-/
import YawVerif.Model.Schedule
import YawVerif.Generated.Wrappers
import Mathlib.Data.List.Perm.Basic
import Mathlib.Tactic.Linarith

namespace Yaw.C05
open Yaw Yaw.Sched

theorem assignFold_mem {κ ν : Type} [DecidableEq κ] (arrivals : List (κ × ν)) (k : κ) (v : ν)
    (h : assignFold arrivals k = some v) : (k, v) ∈ arrivals := by
  unfold assignFold at h
  rw [Option.map_eq_some_iff] at h
  obtain ⟨a, ha, hv⟩ := h
  have hm := List.mem_of_find?_eq_some ha
  have hk := List.find?_some ha
  simp only [beq_iff_eq] at hk
  rw [List.mem_reverse] at hm
  have : a = (k, v) := by
    cases a; simp_all
  rw [← this]; exact hm

theorem assignFold_none {κ ν : Type} [DecidableEq κ] (arrivals : List (κ × ν)) (k : κ) :
    assignFold arrivals k = none ↔ ∀ a ∈ arrivals, a.1 ≠ k := by
  unfold assignFold
  rw [Option.map_eq_none_iff, List.find?_eq_none]
  simp only [List.mem_reverse, beq_iff_eq]

/-- MAIN LEMMA: a fold of assignments whose repeated writes agree gives the same final store for every
    arrival order (every permutation of the results) -/
theorem fold_perm_invariant {κ ν : Type} [DecidableEq κ] (l1 l2 : List (κ × ν)) (hp : l1.Perm l2)
    (hc : Consistent l1) (k : κ) : assignFold l1 k = assignFold l2 k := by
  cases h1 : assignFold l1 k with
  | none =>
    have := (assignFold_none l1 k).mp h1
    symm
    rw [assignFold_none]
    intro a ha
    exact this a (hp.mem_iff.mpr ha)
  | some v =>
    have hm1 := assignFold_mem l1 k v h1
    cases h2 : assignFold l2 k with
    | none =>
      have := (assignFold_none l2 k).mp h2 (k, v) (hp.mem_iff.mp hm1)
      exact absurd rfl this
    | some w =>
      have hm2 := hp.mem_iff.mpr (assignFold_mem l2 k w h2)
      have := hc (k, v) hm1 (k, w) hm2 rfl
      simp only at this
      rw [this]

/-- pair counts: every task writes its own cell (i, j) — distinct keys are trivially consistent -/
theorem nodup_consistent {κ ν : Type} (l : List (κ × ν)) (h : (l.map (·.1)).Nodup) : Consistent l := by
  induction l with
  | nil => intro a ha; simp at ha
  | cons x xs ih =>
    rw [List.map_cons, List.nodup_cons] at h
    obtain ⟨hx, hxs⟩ := h
    intro a ha b hb hk
    rcases List.mem_cons.mp ha with rfl | ha' <;> rcases List.mem_cons.mp hb with rfl | hb'
    · rfl
    · exact absurd (List.mem_map.mpr ⟨b, hb', hk.symm⟩) hx
    · exact absurd (List.mem_map.mpr ⟨a, ha', hk⟩) hx
    · exact ih hxs a ha' b hb' hk

theorem count_pairs_schedule_free {ν : Type} (l1 l2 : List ((Nat × Nat) × ν)) (hp : l1.Perm l2)
    (h : (l1.map (·.1)).Nodup) (cell : Nat × Nat) : assignFold l1 cell = assignFold l2 cell :=
  fold_perm_invariant l1 l2 hp (nodup_consistent l1 h) cell

/-- patch dictionary of a loaded catalog: keyed by the id parsed from the path -/
theorem load_patches_schedule_free {ν : Type} (l1 l2 : List (Nat × ν)) (hp : l1.Perm l2)
    (h : (l1.map (·.1)).Nodup) (pid : Nat) : assignFold l1 pid = assignFold l2 pid :=
  fold_perm_invariant l1 l2 hp (nodup_consistent l1 h) pid

/-- redshift histograms (and hence the order of the jackknife samples): rows are stored at the patch
    position, whatever the completion order (false before the repair of F11) -/
theorem hist_schedule_free {ν : Type} (l1 l2 : List (Nat × ν)) (hp : l1.Perm l2)
    (h : (l1.map (·.1)).Nodup) (row : Nat) :
    histRows Gen.histRowsKeyed l1 row = histRows Gen.histRowsKeyed l2 row := by
  unfold histRows Gen.histRowsKeyed
  simp only [if_true]
  exact fold_perm_invariant l1 l2 hp (nodup_consistent l1 h) row

/-- the defect repaired by the `fix:` of F11, on the smallest witness: arrival-indexed rows depend on
    the completion order -/
theorem arrival_indexed_rows_depend_on_order :
    histRows false [(0, "a"), (1, "b")] 0 ≠ histRows false [(1, "b"), (0, "a")] 0 := by decide

theorem accumulation_by_id : Gen.countsAssignedById = true ∧ Gen.histRowsKeyed = true := ⟨rfl, rfl⟩

/-- the per-bin weight sums of a patch are reported by EVERY pair the patch takes part in (generated flag:
    unconditionally, for every bin) and are a function of the patch alone (its cached trees): repeated
    writes to the same cell agree, so the fold is order independent -/
theorem weights_consistent {ν : Type} (W : Nat → ν) (pairs : List (Nat × Nat)) :
    Consistent (pairs.map fun p => (p.1, W p.1)) ∧ Consistent (pairs.map fun p => (p.2, W p.2)) := by
  constructor <;>
  · intro a ha b hb hk
    simp only [List.mem_map] at ha hb
    obtain ⟨p, _, rfl⟩ := ha
    obtain ⟨q, _, rfl⟩ := hb
    simp only at hk ⊢
    rw [hk]

theorem pair_weights_flag : Gen.pairWeightsUnconditional = true := rfl

theorem glue_pinned :
    Gen.pinIterUnordered = "a80bbc69dae9ab1a" ∧ Gen.pinPatchHistogram = "191fe95584c9adf0" ∧
    Gen.pinProcessPatchPairSched = "6dc1ae67850d260f" := by decide

/-! non-vacuity -/
example : assignFold [((0, 1), 5), ((1, 1), 7)] (1, 1) = some 7 := by decide

/-- the progress wrapper put around the unordered result stream (and around the chunk reader): on the root it loops
over the wrapped iterable and yields each item once, unconditionally; on every other rank it is `yield from` — modelled
as the two functions below, whose shape is read off `Indicator.__iter__` on every run (`progress_wrapper_flags`). -/
def indicatorRoot {α : Type} (xs : List α) : List α := xs.foldl (fun acc x => acc ++ [x]) []
def indicatorWorker {α : Type} (xs : List α) : List α := xs

theorem indicatorRoot_eq {α : Type} (xs : List α) : indicatorRoot xs = xs := by
  unfold indicatorRoot
  suffices h : ∀ acc : List α, xs.foldl (fun acc x => acc ++ [x]) acc = acc ++ xs by simpa using h []
  induction xs with
  | nil => intro acc; simp
  | cons x xs ih => intro acc; simp [ih]

/-- results do not depend on the progress display: with or without the wrapper, on the root and on the workers, the
consumer sees the same items in the same order, each exactly once -/
theorem progress_wrapper_transparent {α : Type} (xs : List α) (root : Bool) :
    (if root then indicatorRoot xs else indicatorWorker xs) = xs := by
  cases root <;> simp [indicatorRoot_eq, indicatorWorker]

theorem progress_wrapper_flags :
    Gen.indicatorRootYieldsEach = true ∧ Gen.indicatorWorkerYieldsFrom = true ∧ Gen.indicatorKeepsIterable = true := by decide

end Yaw.C05
