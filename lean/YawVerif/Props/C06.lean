/-
  C06 — MPI runs terminate and the root rank gets the single-process result.

  A. dispatch protocol (`iter_unordered`): for every number of worker ranks, every task list, every
     selection of ranks (`max_workers`, same-node restriction) and every interleaving of root and
     worker steps incl. every order in which the root's wildcard receive matches results:
     `inv_reach` (invariant), `progress` (no deadlock), `measure_decreases` (termination),
     `exactly_once` (at the end every task was yielded exactly once; nothing is left).
  B. writer protocol (MPI `write_patches`): for every number of sending ranks and chunks, eager and
     synchronous sends and every wildcard matching order: `no_loss`, `progressB`, `measureB_decreases`.
  The protocols of the unrepaired code are expressible (`Cfg.fallback := false`,
  `CfgB.perSender := false`); witness theorems show what they lose.
-/
import YawVerif.Model.Mpi
import YawVerif.Props.C05

namespace Yaw.C06
open Yaw.Mpi

/-! ### list helpers -/

theorem split_of_getElem? {α} {ws : List α} {i : Nat} {w : α} (h : ws[i]? = some w) :
    ∃ l1 l2, ws = l1 ++ w :: l2 ∧ l1.length = i ∧ ∀ x, ws.set i x = l1 ++ x :: l2 := by
  obtain ⟨hi, hw⟩ := List.getElem?_eq_some_iff.mp h
  refine ⟨ws.take i, ws.drop (i + 1), ?_, by simp [List.length_take]; omega, ?_⟩
  · rw [← hw]; simp
  · intro x
    rw [List.set_eq_take_append_cons_drop]
    simp [hi]

def inflight (ws : List W) : List Nat := ws.filterMap taskOf
def nBusy (ws : List W) : Nat := (ws.filter isBusy).length

@[simp] theorem inflight_nil : inflight [] = [] := rfl
@[simp] theorem inflight_append (a b : List W) : inflight (a ++ b) = inflight a ++ inflight b := by
  simp [inflight]
@[simp] theorem inflight_fresh (l) : inflight (.fresh :: l) = inflight l := rfl
@[simp] theorem inflight_eoq (l) : inflight (.eoq :: l) = inflight l := rfl
@[simp] theorem inflight_stopped (l) : inflight (.stopped :: l) = inflight l := rfl
@[simp] theorem inflight_task (t l) : inflight (.task t :: l) = t :: inflight l := rfl
@[simp] theorem inflight_busy (t l) : inflight (.busy t :: l) = t :: inflight l := rfl
@[simp] theorem inflight_result (t l) : inflight (.result t :: l) = t :: inflight l := rfl

@[simp] theorem nBusy_nil : nBusy [] = 0 := rfl
@[simp] theorem nBusy_append (a b : List W) : nBusy (a ++ b) = nBusy a + nBusy b := by simp [nBusy]
@[simp] theorem nBusy_fresh (l) : nBusy (.fresh :: l) = nBusy l := rfl
@[simp] theorem nBusy_eoq (l) : nBusy (.eoq :: l) = nBusy l := rfl
@[simp] theorem nBusy_stopped (l) : nBusy (.stopped :: l) = nBusy l := rfl
@[simp] theorem nBusy_task (t l) : nBusy (.task t :: l) = nBusy l + 1 := rfl
@[simp] theorem nBusy_busy (t l) : nBusy (.busy t :: l) = nBusy l + 1 := rfl
@[simp] theorem nBusy_result (t l) : nBusy (.result t :: l) = nBusy l + 1 := rfl

theorem fresh_set {ws : List W} {k : Nat} {w x : W} (hw : ws[k]? = some w) (hwf : w ≠ .fresh) (hx : x ≠ .fresh)
    (j : Nat) : (ws.set k x)[j]? = some .fresh ↔ ws[j]? = some .fresh := by
  by_cases hjk : k = j
  · subst hjk
    have hk := (List.getElem?_eq_some_iff.mp hw).1
    simp [List.getElem?_set_self hk, hw, hwf, hx]
  · rw [List.getElem?_set_ne hjk]

theorem exists_busy {ws : List W} (h : 0 < nBusy ws) : ∃ (i : Nat) (w : W), ws[i]? = some w ∧ isBusy w = true := by
  unfold nBusy at h
  obtain ⟨w, hw⟩ := List.exists_mem_of_length_pos h
  rw [List.mem_filter] at hw
  obtain ⟨i, hi, rfl⟩ := List.mem_iff_getElem.mp hw.1
  exact ⟨i, ws[i], by simp [hi], hw.2⟩

/-! ### A. invariant -/

structure Inv (c : Cfg) (n : Nat) (tasks : List Nat) (s : St) : Prop where
  len : s.ws.length = n
  cnt : ∀ t, tasks.count t = s.pending.count t + (inflight s.ws).count t + s.yielded.count t
  act : s.active = nBusy s.ws
  fr : ∀ i, s.pc = .first i → i ≤ n ∧ ∀ j : Nat, j < n → (s.ws[j]? = some W.fresh ↔ i ≤ j)
  nf : (∀ i, s.pc ≠ .first i) → ∀ j : Nat, s.ws[j]? ≠ some W.fresh
  idle : s.pc = .fallback ∨ s.pc = .barrier ∨ s.pc = .done → nBusy s.ws = 0
  drained : c.fallback = true → s.pc = .barrier ∨ s.pc = .done → s.pending = []
  allStopped : s.pc = .done → ∀ w ∈ s.ws, w = .stopped

theorem init_inv (c : Cfg) (n : Nat) (tasks : List Nat) : Inv c n tasks (init n tasks) := by
  have hin : ∀ k, inflight (List.replicate k W.fresh) = [] := by
    intro k; induction k with
    | zero => rfl
    | succ k ih => simp [List.replicate_succ, ih]
  have hb : ∀ k, nBusy (List.replicate k W.fresh) = 0 := by
    intro k; induction k with
    | zero => rfl
    | succ k ih => simp [List.replicate_succ, ih]
  refine ⟨by simp [init], ?_, ?_, ?_, ?_, ?_, ?_, ?_⟩
  · intro t; simp [init, hin]
  · simp [init, hb]
  · intro i hi
    simp only [init, PC.first.injEq] at hi
    subst hi
    refine ⟨Nat.zero_le _, fun j hj => ?_⟩
    simp [init, List.getElem?_replicate, hj]
  · intro h; exact absurd rfl (h 0)
  · intro h; simp [init] at h
  · intro _ h; simp [init] at h
  · intro h; simp [init] at h

/-! ### A. every step preserves the invariant -/

/-- a worker-side step: worker `k` moves from a non-fresh state `w` to a non-fresh state `x` with the
    same task in flight and the same busy-ness; nothing else changes -/
private theorem inv_worker {c : Cfg} {n : Nat} {tasks : List Nat} {s : St} (h : Inv c n tasks s)
    {k : Nat} {w x : W} (hw : s.ws[k]? = some w) (hwf : w ≠ .fresh) (hxf : x ≠ .fresh)
    (ht : taskOf x = taskOf w) (hb : isBusy x = isBusy w) (hws : w ≠ .stopped) :
    Inv c n tasks { s with ws := s.ws.set k x } := by
  obtain ⟨l1, l2, hsplit, _, hset⟩ := split_of_getElem? hw
  have hin : inflight (s.ws.set k x) = inflight s.ws := by
    rw [hset x, hsplit]
    simp only [inflight, List.filterMap_append, List.filterMap_cons, ht]
  have hnb : nBusy (s.ws.set k x) = nBusy s.ws := by
    rw [hset x, hsplit]
    simp only [nBusy, List.filter_append, List.filter_cons, hb]
    cases isBusy w <;> simp
  refine ⟨by simp [h.len], ?_, ?_, ?_, ?_, ?_, h.drained, ?_⟩
  · intro t; simpa [hin] using h.cnt t
  · simpa [hnb] using h.act
  · intro i hi
    obtain ⟨h1, h2⟩ := h.fr i hi
    exact ⟨h1, fun j hj => by rw [fresh_set hw hwf hxf]; exact h2 j hj⟩
  · intro hp j
    have := h.nf hp j
    intro hc
    exact this ((fresh_set hw hwf hxf j).mp hc)
  · intro hp; simpa [hnb] using h.idle hp
  · intro hp
    -- nothing moves after `done`: a worker step needs a non-stopped worker
    have hall := h.allStopped hp
    have hwmem : w ∈ s.ws := by rw [hsplit]; simp
    exact absurd (hall w hwmem) hws

theorem step_inv {c : Cfg} (hc : c.countFirst = false) {n : Nat} {tasks : List Nat} {s s' : St}
    (h : Inv c n tasks s) (e : Ev) (hs : step c s e = some s') : Inv c n tasks s' := by
  cases e with
  | wRecv i =>
    simp only [step] at hs
    split at hs
    · next t hw =>
      cases hs
      exact inv_worker h hw (by simp) (by simp) rfl rfl (by simp)
    · cases hs
  | wDone i =>
    simp only [step] at hs
    split at hs
    · next t hw =>
      cases hs
      exact inv_worker h hw (by simp) (by simp) rfl rfl (by simp)
    · cases hs
  | wStop i =>
    simp only [step] at hs
    split at hs
    · next hw =>
      cases hs
      exact inv_worker h hw (by simp) (by simp) rfl rfl (by simp)
    · cases hs
  | barrier =>
    simp only [step] at hs
    split at hs
    · next hb =>
      cases hs
      obtain ⟨hpc, hall⟩ := hb
      refine ⟨h.len, h.cnt, h.act, ?_, ?_, ?_, ?_, ?_⟩
      · intro i hi; cases hi
      · intro _; exact h.nf (by intro i hi; rw [hpc] at hi; cases hi)
      · intro _; exact h.idle (Or.inr (Or.inl hpc))
      · intro hf _; exact h.drained hf (Or.inl hpc)
      · intro _ w hw
        rw [List.all_eq_true] at hall
        simpa using hall w hw
    · cases hs
  | rootLocal =>
    simp only [step] at hs
    split at hs
    · next t rest hpc hp =>
      cases hs
      refine ⟨h.len, ?_, h.act, ?_, ?_, ?_, ?_, ?_⟩
      · intro x
        have := h.cnt x
        rw [hp] at this
        simp only [List.count_cons, List.count_append, List.count_nil] at this ⊢
        omega
      · intro i hi; simp only at hi; rw [hpc] at hi; cases hi
      · intro _; exact h.nf (by intro i hi; rw [hpc] at hi; cases hi)
      · intro _; exact h.idle (Or.inl hpc)
      · intro _ hp'; simp only at hp'; rw [hpc] at hp'; rcases hp' with hp' | hp' <;> cases hp'
      · intro hp'; simp only at hp'; rw [hpc] at hp'; cases hp'
    · cases hs
  | rootLocalDone =>
    simp only [step] at hs
    split at hs
    · next hpc hp =>
      cases hs
      refine ⟨h.len, h.cnt, h.act, ?_, ?_, ?_, ?_, ?_⟩
      · intro i hi; cases hi
      · intro _; exact h.nf (by intro i hi; rw [hpc] at hi; cases hi)
      · intro _; exact h.idle (Or.inl hpc)
      · intro _ _; exact hp
      · intro hp'; cases hp'
    · cases hs
  | rootExit =>
    simp only [step] at hs
    split at hs
    · next hb =>
      cases hs
      obtain ⟨hpc, hact⟩ := hb
      have hnb : nBusy s.ws = 0 := by rw [← h.act]; exact hact
      refine ⟨h.len, h.cnt, h.act, ?_, ?_, ?_, ?_, ?_⟩
      · intro i hi; simp only at hi; split at hi <;> cases hi
      · intro _; exact h.nf (by intro i hi; rw [hpc] at hi; cases hi)
      · intro _; exact hnb
      · intro hf hp'; simp only [hf, ↓reduceIte] at hp'; rcases hp' with hp' | hp' <;> cases hp'
      · intro hp'; simp only at hp'; split at hp' <;> cases hp'
    · cases hs
  | rootRecv i =>
    simp only [step] at hs
    split at hs
    · next hb =>
      obtain ⟨hpc, hact⟩ := hb
      split at hs
      · next t hw =>
        obtain ⟨l1, l2, hsplit, _, hset⟩ := split_of_getElem? hw
        have hnf := h.nf (by intro i hi; rw [hpc] at hi; cases hi)
        split at hs
        · next t' rest hp =>
          cases hs
          refine ⟨by simp [h.len], ?_, ?_, ?_, ?_, ?_, ?_, ?_⟩
          · intro x
            have := h.cnt x
            rw [hp, hsplit] at this
            simp only [hset, inflight_append, inflight_task, inflight_result, List.count_cons, List.count_append,
              List.count_nil] at this ⊢
            omega
          · have := h.act
            rw [hsplit] at this
            simp only [hset, nBusy_append, nBusy_task, nBusy_result] at this ⊢
            omega
          · intro i hi; simp only at hi; rw [hpc] at hi; cases hi
          · intro _ j hcj
            exact hnf j ((fresh_set hw (by simp) (by simp) j).mp hcj)
          · intro hp'; simp only at hp'; rw [hpc] at hp'; rcases hp' with hp' | hp' | hp' <;> cases hp'
          · intro _ hp'; simp only at hp'; rw [hpc] at hp'; rcases hp' with hp' | hp' <;> cases hp'
          · intro hp'; simp only at hp'; rw [hpc] at hp'; cases hp'
        · next hp =>
          cases hs
          refine ⟨by simp [h.len], ?_, ?_, ?_, ?_, ?_, ?_, ?_⟩
          · intro x
            have := h.cnt x
            rw [hsplit] at this
            simp only [hp, hset, inflight_append, inflight_eoq, inflight_result, List.count_cons, List.count_append,
              List.count_nil] at this ⊢
            omega
          · have := h.act
            rw [hsplit] at this
            simp only [hset, nBusy_append, nBusy_eoq, nBusy_result] at this ⊢
            omega
          · intro i hi; simp only at hi; rw [hpc] at hi; cases hi
          · intro _ j hcj
            exact hnf j ((fresh_set hw (by simp) (by simp) j).mp hcj)
          · intro hp'; simp only at hp'; rw [hpc] at hp'; rcases hp' with hp' | hp' | hp' <;> cases hp'
          · intro _ hp'; simp only at hp'; rw [hpc] at hp'; rcases hp' with hp' | hp' <;> cases hp'
          · intro hp'; simp only at hp'; rw [hpc] at hp'; cases hp'
      · cases hs
    · cases hs
  | rootFirst =>
    simp only [step] at hs
    split at hs
    · next i hpc =>
      obtain ⟨hin, hfr⟩ := h.fr i hpc
      split at hs
      · next hlt =>
        have hi : i < n := by rw [← h.len]; exact hlt
        have hw : s.ws[i]? = some W.fresh := (hfr i hi).mpr (Nat.le_refl i)
        obtain ⟨l1, l2, hsplit, _, hset⟩ := split_of_getElem? hw
        -- the three outcomes share everything but `cnt` / `act`
        have frNext : ∀ x : W, x ≠ .fresh → ∀ j : Nat, j < n → ((s.ws.set i x)[j]? = some W.fresh ↔ i + 1 ≤ j) := by
          intro x hx j hj
          by_cases hji : i = j
          · subst hji
            simp [List.getElem?_set_self hlt, hx]
          · rw [List.getElem?_set_ne hji, hfr j hj]; omega
        split at hs
        · split at hs
          · next t rest hp =>
            cases hs
            refine ⟨by simp [h.len], ?_, ?_, ?_, ?_, ?_, ?_, ?_⟩
            · intro x
              have := h.cnt x
              rw [hp, hsplit] at this
              simp only [hset, inflight_append, inflight_task, inflight_fresh, List.count_cons, List.count_append] at this ⊢
              omega
            · have := h.act
              rw [hsplit] at this
              simp only [hset, nBusy_append, nBusy_task, nBusy_fresh] at this ⊢
              omega
            · intro i' hi'; simp only [PC.first.injEq] at hi'; subst hi'
              exact ⟨hi, frNext _ (by simp)⟩
            · intro hp'; exact absurd rfl (hp' (i + 1))
            · intro hp'; simp only at hp'; rcases hp' with hp' | hp' | hp' <;> cases hp'
            · intro _ hp'; simp only at hp'; rcases hp' with hp' | hp' <;> cases hp'
            · intro hp'; cases hp'
          · next hp =>
            cases hs
            refine ⟨by simp [h.len], ?_, ?_, ?_, ?_, ?_, ?_, ?_⟩
            · intro x
              have := h.cnt x
              rw [hsplit] at this
              simp only [hset, inflight_append, inflight_eoq, inflight_fresh] at this ⊢
              exact this
            · have := h.act
              rw [hsplit] at this
              simp only [hc, hset, nBusy_append, nBusy_eoq, nBusy_fresh, Bool.false_eq_true, ↓reduceIte] at this ⊢
              exact this
            · intro i' hi'; simp only [PC.first.injEq] at hi'; subst hi'
              exact ⟨hi, frNext _ (by simp)⟩
            · intro hp'; exact absurd rfl (hp' (i + 1))
            · intro hp'; simp only at hp'; rcases hp' with hp' | hp' | hp' <;> cases hp'
            · intro _ hp'; simp only at hp'; rcases hp' with hp' | hp' <;> cases hp'
            · intro hp'; cases hp'
        · cases hs
          refine ⟨by simp [h.len], ?_, ?_, ?_, ?_, ?_, ?_, ?_⟩
          · intro x
            have := h.cnt x
            rw [hsplit] at this
            simp only [hset, inflight_append, inflight_eoq, inflight_fresh] at this ⊢
            exact this
          · have := h.act
            rw [hsplit] at this
            simp only [hset, nBusy_append, nBusy_eoq, nBusy_fresh] at this ⊢
            exact this
          · intro i' hi'; simp only [PC.first.injEq] at hi'; subst hi'
            exact ⟨hi, frNext _ (by simp)⟩
          · intro hp'; exact absurd rfl (hp' (i + 1))
          · intro hp'; simp only at hp'; rcases hp' with hp' | hp' | hp' <;> cases hp'
          · intro _ hp'; simp only at hp'; rcases hp' with hp' | hp' <;> cases hp'
          · intro hp'; cases hp'
      · next hge =>
        cases hs
        have hin' : i = n := by rw [h.len] at hge; omega
        refine ⟨h.len, h.cnt, h.act, ?_, ?_, ?_, ?_, ?_⟩
        · intro i' hi'; cases hi'
        · intro _ j hcj
          have hj : j < n := by
            rw [← h.len]; exact (List.getElem?_eq_some_iff.mp hcj).1
          have := (hfr j hj).mp hcj
          omega
        · intro hp'; simp only at hp'; rcases hp' with hp' | hp' | hp' <;> cases hp'
        · intro _ hp'; simp only at hp'; rcases hp' with hp' | hp' <;> cases hp'
        · intro hp'; cases hp'
    · cases hs

theorem inv_reach {c : Cfg} (hc : c.countFirst = false) {n : Nat} {tasks : List Nat} {s : St}
    (h : Reach c n tasks s) : Inv c n tasks s := by
  induction h with
  | init => exact init_inv c n tasks
  | step _ hstep ih =>
    obtain ⟨e, he⟩ := hstep
    exact step_inv hc ih e he

/-! ### A. no deadlock, termination, exactly once -/

/-- NO DEADLOCK: in every state that satisfies the invariant and is not final, some rank can move -/
theorem progress {c : Cfg} {n : Nat} {tasks : List Nat} {s : St} (h : Inv c n tasks s) (hnd : s.pc ≠ .done) :
    ∃ e s', step c s e = some s' := by
  cases hpc : s.pc with
  | done => exact absurd hpc hnd
  | first i =>
    refine ⟨.rootFirst, ?_⟩
    simp only [step, hpc]
    split
    · split
      · split <;> exact ⟨_, rfl⟩
      · exact ⟨_, rfl⟩
    · exact ⟨_, rfl⟩
  | fallback =>
    cases hp : s.pending with
    | nil => exact ⟨.rootLocalDone, by simp [step, hpc, hp]⟩
    | cons t rest => exact ⟨.rootLocal, by simp [step, hpc, hp]⟩
  | loop =>
    by_cases ha : s.active = 0
    · exact ⟨.rootExit, by simp [step, hpc, ha]⟩
    · have hb : 0 < nBusy s.ws := by rw [← h.act]; omega
      obtain ⟨i, w, hw, hbusy⟩ := exists_busy hb
      cases w with
      | task t => exact ⟨.wRecv i, by simp [step, hw]⟩
      | busy t => exact ⟨.wDone i, by simp [step, hw]⟩
      | result t =>
        refine ⟨.rootRecv i, ?_⟩
        have ha' : 0 < s.active := by omega
        simp only [step, hpc, ha', and_self, ↓reduceIte, hw]
        split <;> exact ⟨_, rfl⟩
      | fresh => simp [isBusy] at hbusy
      | eoq => simp [isBusy] at hbusy
      | stopped => simp [isBusy] at hbusy
  | barrier =>
    by_cases hall : s.ws.all (· == .stopped) = true
    · exact ⟨.barrier, by simp [step, hpc, hall]⟩
    · -- some worker has not stopped; it is neither fresh nor busy, so the sentinel is on its way
      rw [List.all_eq_true] at hall
      obtain ⟨w, hw'⟩ := Classical.not_forall.mp hall
      obtain ⟨hwmem, hwne⟩ := Classical.not_imp.mp hw'
      obtain ⟨i, hi, rfl⟩ := List.mem_iff_getElem.mp hwmem
      have hw : s.ws[i]? = some s.ws[i] := by simp [hi]
      have hnf := h.nf (by intro j hj; rw [hpc] at hj; cases hj) i
      have hidle := h.idle (Or.inr (Or.inl hpc))
      obtain ⟨l1, l2, hsplit, _, _⟩ := split_of_getElem? hw
      cases hwi : s.ws[i] with
      | eoq => exact ⟨.wStop i, by simp [step, hw, hwi]⟩
      | stopped => simp [hwi] at hwne
      | fresh => rw [hwi] at hw; exact absurd hw hnf
      | task t => rw [hsplit, hwi] at hidle; simp at hidle
      | busy t => rw [hsplit, hwi] at hidle; simp at hidle
      | result t => rw [hsplit, hwi] at hidle; simp at hidle

/-- a quantity that every step decreases: the run is finite -/
def wW : W → Nat
  | .fresh => 2 | .task _ => 5 | .busy _ => 4 | .result _ => 3 | .eoq => 1 | .stopped => 0

def sumW (ws : List W) : Nat := (ws.map wW).sum

@[simp] theorem sumW_append (a b : List W) : sumW (a ++ b) = sumW a + sumW b := by simp [sumW]
@[simp] theorem sumW_cons (w : W) (l : List W) : sumW (w :: l) = wW w + sumW l := by simp [sumW]

def pcW (n : Nat) : PC → Nat
  | .first i => (n - i) + 4 | .loop => 3 | .fallback => 2 | .barrier => 1 | .done => 0

def measure (n : Nat) (s : St) : Nat := pcW n s.pc + sumW s.ws + 4 * s.pending.length

theorem measure_decreases {c : Cfg} {n : Nat} {tasks : List Nat} {s s' : St} (h : Inv c n tasks s) (e : Ev)
    (hs : step c s e = some s') : measure n s' < measure n s := by
  have wstep : ∀ (k : Nat) (w x : W), s.ws[k]? = some w → wW x < wW w →
      measure n { s with ws := s.ws.set k x } < measure n s := by
    intro k w x hw hlt
    obtain ⟨l1, l2, hsplit, _, hset⟩ := split_of_getElem? hw
    unfold measure
    simp only [hset]
    rw [hsplit]
    simp only [sumW_append, sumW_cons]
    omega
  cases e with
  | wRecv i =>
    simp only [step] at hs
    split at hs
    · next t hw => cases hs; exact wstep i _ _ hw (by simp [wW])
    · cases hs
  | wDone i =>
    simp only [step] at hs
    split at hs
    · next t hw => cases hs; exact wstep i _ _ hw (by simp [wW])
    · cases hs
  | wStop i =>
    simp only [step] at hs
    split at hs
    · next hw => cases hs; exact wstep i _ _ hw (by simp [wW])
    · cases hs
  | barrier =>
    simp only [step] at hs
    split at hs
    · next hb => cases hs; simp [measure, pcW, hb.1]
    · cases hs
  | rootLocal =>
    simp only [step] at hs
    split at hs
    · next t rest hpc hp => cases hs; simp [measure, hp]
    · cases hs
  | rootLocalDone =>
    simp only [step] at hs
    split at hs
    · next hpc hp => cases hs; simp [measure, pcW, hpc]
    · cases hs
  | rootExit =>
    simp only [step] at hs
    split at hs
    · next hb => cases hs; cases c.fallback <;> simp [measure, pcW, hb.1]
    · cases hs
  | rootRecv i =>
    simp only [step] at hs
    split at hs
    · split at hs
      · next t hw =>
        obtain ⟨l1, l2, hsplit, _, hset⟩ := split_of_getElem? hw
        split at hs
        · next t' rest hp =>
          cases hs
          unfold measure
          simp only [hset, hp]
          rw [hsplit]
          simp only [sumW_append, sumW_cons, wW, List.length_cons]
          omega
        · next hp =>
          cases hs
          unfold measure
          simp only [hset]
          rw [hsplit]
          simp only [sumW_append, sumW_cons, wW]
          omega
      · cases hs
    · cases hs
  | rootFirst =>
    simp only [step] at hs
    split at hs
    · next i hpc =>
      obtain ⟨hin, hfr⟩ := h.fr i hpc
      split at hs
      · next hlt =>
        have hi : i < n := by rw [← h.len]; exact hlt
        have hw : s.ws[i]? = some W.fresh := (hfr i hi).mpr (Nat.le_refl i)
        obtain ⟨l1, l2, hsplit, _, hset⟩ := split_of_getElem? hw
        split at hs
        · split at hs
          · next t rest hp =>
            cases hs
            unfold measure
            simp only [hset, hp, hpc, pcW]
            rw [hsplit]
            simp only [sumW_append, sumW_cons, wW, List.length_cons]
            omega
          · cases hs
            unfold measure
            simp only [hset, hpc, pcW]
            rw [hsplit]
            simp only [sumW_append, sumW_cons, wW]
            omega
        · cases hs
          unfold measure
          simp only [hset, hpc, pcW]
          rw [hsplit]
          simp only [sumW_append, sumW_cons, wW]
          omega
      · cases hs
        simp only [measure, hpc, pcW]
        omega
    · cases hs

/-- EXACTLY ONCE: when the protocol has finished, every task has been yielded exactly once and the
    iterator is empty (current code: the root runs what no worker could take) -/
theorem exactly_once {c : Cfg} (hc : c.countFirst = false) (hf : c.fallback = true) {n : Nat} {tasks : List Nat}
    {s : St} (h : Reach c n tasks s) (hd : s.pc = .done) : s.yielded.Perm tasks ∧ s.pending = [] := by
  have hinv := inv_reach hc h
  have hp := hinv.drained hf (Or.inr hd)
  have hall := hinv.allStopped hd
  have hin : inflight s.ws = [] := by
    have : ∀ l : List W, (∀ w ∈ l, w = W.stopped) → inflight l = [] := by
      intro l; induction l with
      | nil => intro _; rfl
      | cons a l ih =>
        intro hl
        have ha := hl a (by simp)
        subst ha
        simp [ih (fun w hw => hl w (by simp [hw]))]
    exact this _ hall
  refine ⟨?_, hp⟩
  rw [List.perm_iff_count]
  intro t
  have := hinv.cnt t
  rw [hp, hin] at this
  simp at this
  omega

/-- without the fallback and without a usable worker rank NOTHING is executed, silently (the
    behaviour before the repair: `max_workers = 1`) -/
theorem no_worker_no_task :
    ∃ s, Reach { sel := fun _ => false, fallback := false } 2 [7, 8, 9] s ∧ s.pc = .done ∧ s.yielded = [] ∧
      s.pending = [7, 8, 9] := by
  let c : Cfg := { sel := fun _ => false, fallback := false }
  have run : ∀ (es : List Ev) (s s' : St), Reach c 2 [7, 8, 9] s → runA c s es = some s' → Reach c 2 [7, 8, 9] s' := by
    intro es
    induction es with
    | nil => intro s s' hr h; simp only [runA, Option.some.injEq] at h; subst h; exact hr
    | cons e es ih =>
      intro s s' hr h
      simp only [runA] at h
      split at h
      · next s1 h1 => exact ih s1 s' (Reach.step hr ⟨e, h1⟩) h
      · cases h
  refine ⟨_, run [.rootFirst, .rootFirst, .rootFirst, .rootExit, .wStop 0, .wStop 1, .barrier] _ _ Reach.init rfl,
    by decide, by decide, by decide⟩

/-! ## B. many senders, one wildcard receiver -/

def dataOf (q : List Msg) : List Nat := q.filterMap fun m => match m with | .data c => some c | .eoq => none

@[simp] theorem dataOf_nil : dataOf [] = [] := rfl
@[simp] theorem dataOf_append (a b : List Msg) : dataOf (a ++ b) = dataOf a ++ dataOf b := by simp [dataOf]
@[simp] theorem dataOf_data (c : Nat) (q : List Msg) : dataOf (.data c :: q) = c :: dataOf q := rfl
@[simp] theorem dataOf_eoq (q : List Msg) : dataOf (.eoq :: q) = dataOf q := rfl

/-- what the writer has written for sender `j`, in order -/
def writtenOf (j : Nat) (w : List (Nat × Nat)) : List Nat := (w.filter fun p => p.1 == j).map (·.2)

@[simp] theorem writtenOf_nil (j : Nat) : writtenOf j [] = [] := rfl
theorem writtenOf_snoc (j k c : Nat) (w : List (Nat × Nat)) :
    writtenOf j (w ++ [(k, c)]) = if k = j then writtenOf j w ++ [c] else writtenOf j w := by
  unfold writtenOf
  by_cases h : k = j <;> simp [List.filter_append, h]

/-- a sender still owes the writer its sentinel -/
def pend (x : Sender) : Bool := !x.signalled || x.queue.contains .eoq

def nPend (ss : List Sender) : Nat := (ss.filter pend).length

@[simp] theorem nPend_append (a b : List Sender) : nPend (a ++ b) = nPend a + nPend b := by simp [nPend]
theorem nPend_cons (x : Sender) (l : List Sender) : nPend (x :: l) = (if pend x then 1 else 0) + nPend l := by
  unfold nPend
  rw [List.filter_cons]
  split <;> simp <;> omega

structure SInv (chunks : Nat) (x : Sender) : Prop where
  noEoq : x.signalled = false → Msg.eoq ∉ x.queue
  eoqLast : ∀ l1 l2, x.queue = l1 ++ Msg.eoq :: l2 → l2 = []
  sigLeft : x.signalled = true → x.left = 0
  sigBar : x.signalled = true → x.atBarrier = true
  barSig : x.atBarrier = true → x.signalled = true
  total : x.left + x.next = chunks
  sigDone : x.signalled = true → Msg.eoq ∉ x.queue → x.queue = []

structure InvB (m chunks : Nat) (s : StB) : Prop where
  len : s.ss.length = m
  sender : ∀ (j : Nat) (x : Sender), s.ss[j]? = some x → SInv chunks x
  fifo : ∀ (j : Nat) (x : Sender), s.ss[j]? = some x → writtenOf j s.written ++ dataOf x.queue = List.range x.next
  rem : s.remaining = nPend s.ss
  stop : s.stopped = true ↔ s.remaining = 0
  noRoot : s.rootSignalled = false

theorem getElem?_set' {α} (l : List α) (j k : Nat) (y : α) (hj : j < l.length) :
    (l.set j y)[k]? = if j = k then some y else l[k]? := by
  by_cases h : j = k
  · subst h; simp [List.getElem?_set_self hj]
  · simp [List.getElem?_set_ne h, h]

theorem initB_inv (sync : Bool) (m chunks : Nat) (hm : 0 < m) :
    InvB m chunks (initB { perSender := true, sync := sync } m chunks) := by
  have hget : ∀ (j : Nat) (x : Sender), (List.replicate m (Sender.start chunks))[j]? = some x →
      x = Sender.start chunks := by
    intro j x h
    rw [List.getElem?_replicate] at h
    split at h <;> simp_all
  have hn : ∀ k, nPend (List.replicate k (Sender.start chunks)) = k := by
    intro k; induction k with
    | zero => rfl
    | succ k ih => rw [List.replicate_succ, nPend_cons, ih]; simp [pend, Sender.start]; omega
  refine ⟨by simp [initB], ?_, ?_, ?_, ?_, rfl⟩
  · intro j x h
    have := hget j x (by simpa [initB] using h)
    subst this
    exact ⟨by simp [Sender.start], by intro l1 l2 h; simp [Sender.start] at h, by simp [Sender.start],
      by simp [Sender.start], by simp [Sender.start], by simp [Sender.start], by simp [Sender.start]⟩
  · intro j x h
    have := hget j x (by simpa [initB] using h)
    subst this
    simp [initB, Sender.start]
  · simp [initB, hn]
  · simp [initB]; omega

/-- update of one sender -/
private theorem invB_set {m chunks : Nat} {s : StB} (h : InvB m chunks s) {j : Nat} {x y : Sender}
    (hx : s.ss[j]? = some x) (w' : List (Nat × Nat)) (r' : Nat) (st' : Bool)
    (hy : SInv chunks y)
    (hfifo_j : writtenOf j w' ++ dataOf y.queue = List.range y.next)
    (hfifo_o : ∀ k, k ≠ j → writtenOf k w' = writtenOf k s.written)
    (hrem : r' + (if pend x then 1 else 0) = s.remaining + (if pend y then 1 else 0))
    (hstop : st' = true ↔ r' = 0) :
    InvB m chunks { s with ss := s.ss.set j y, written := w', remaining := r', stopped := st' } := by
  have hj : j < s.ss.length := (List.getElem?_eq_some_iff.mp hx).1
  obtain ⟨l1, l2, hsplit, _, hset⟩ := split_of_getElem? hx
  refine ⟨by simp [h.len], ?_, ?_, ?_, hstop, h.noRoot⟩
  · intro k z hz
    simp only [getElem?_set' _ _ _ _ hj] at hz
    split at hz
    · cases hz; exact hy
    · exact h.sender k z hz
  · intro k z hz
    simp only [getElem?_set' _ _ _ _ hj] at hz
    split at hz
    · next hjk => cases hz; subst hjk; exact hfifo_j
    · next hjk =>
      simp only
      rw [hfifo_o k (fun hk => hjk hk.symm)]
      exact h.fifo k z hz
  · have := h.rem
    rw [hsplit] at this
    simp only [hset, nPend_append, nPend_cons] at this ⊢
    omega

theorem stepB_inv {sync : Bool} {m chunks : Nat} {s s' : StB} (h : InvB m chunks s) (e : EvB)
    (hs : stepB { perSender := true, sync := sync } s e = some s') : InvB m chunks s' := by
  cases e with
  | toBarrier j =>
    simp only [stepB] at hs
    split at hs
    · split at hs
      · next hc => simp at hc
      · cases hs
    · cases hs
  | rootSignal =>
    simp only [stepB] at hs
    split at hs
    · split at hs
      · next hc => simp at hc
      · cases hs
    · cases hs
  | send j =>
    simp only [stepB] at hs
    split at hs
    · next x hx =>
      split at hs
      · next hc =>
        cases hs
        obtain ⟨hleft, hsig, hbar, _⟩ := hc
        have hsx := h.sender j x hx
        have hq : Msg.eoq ∉ x.queue := hsx.noEoq hsig
        have := invB_set h hx s.written s.remaining s.stopped
          (y := { x with left := x.left - 1, next := x.next + 1, queue := x.queue ++ [.data x.next] })
          ⟨by intro _; simp [hq], ?_, by simp [hsig], by simp [hsig], by simp [hbar], by have := hsx.total; simp; omega,
            by simp [hsig]⟩
          ?_ (fun _ _ => rfl) ?_ h.stop
        · simpa using this
        · intro l1 l2 hl
          -- the sentinel is not in the queue at all
          exfalso
          have hl' : x.queue ++ [Msg.data x.next] = l1 ++ Msg.eoq :: l2 := hl
          have : Msg.eoq ∈ x.queue ++ [Msg.data x.next] := by rw [hl']; simp
          simp [hq] at this
        · have := h.fifo j x hx
          simp only [dataOf_append, dataOf_data, dataOf_nil]
          rw [← List.append_assoc, this, List.range_succ]
        · simp [pend, hsig]
      · cases hs
    · cases hs
  | signal j =>
    simp only [stepB] at hs
    split at hs
    · next x hx =>
      split at hs
      · next hc =>
        cases hs
        obtain ⟨_, hleft, hsig, _⟩ := hc
        have hsx := h.sender j x hx
        have hq : Msg.eoq ∉ x.queue := hsx.noEoq hsig
        have := invB_set h hx s.written s.remaining s.stopped
          (y := { x with signalled := true, atBarrier := true, queue := x.queue ++ [.eoq] })
          ⟨by simp, ?_, by simp [hleft], by simp, by simp, hsx.total, by simp⟩
          ?_ (fun _ _ => rfl) ?_ h.stop
        · simpa using this
        · intro l1 l2 hl
          -- the only sentinel is the appended one
          have hl' : x.queue ++ [Msg.eoq] = l1 ++ Msg.eoq :: l2 := hl
          rcases List.eq_nil_or_concat l2 with rfl | ⟨l2', z, rfl⟩
          · rfl
          · exfalso
            have h3 : x.queue ++ [Msg.eoq] = (l1 ++ Msg.eoq :: l2') ++ [z] := by
              rw [hl']; simp [List.append_assoc]
            have h2 := List.append_inj' h3 rfl
            exact hq (by rw [h2.1]; simp)
        · have := h.fifo j x hx
          simpa using this
        · simp [pend, hsig]
      · cases hs
    · cases hs
  | recv j =>
    simp only [stepB] at hs
    split at hs
    · cases hs
    · next hns =>
      split at hs
      · next x hx =>
        have hsx := h.sender j x hx
        split at hs
        · next c' rest hq =>
          cases hs
          have := invB_set h hx (s.written ++ [(j, c')]) s.remaining s.stopped
            (y := { x with queue := rest })
            ⟨?_, ?_, hsx.sigLeft, hsx.sigBar, hsx.barSig, hsx.total, ?_⟩ ?_ ?_ ?_ h.stop
          · simpa using this
          · intro hsg
            have := hsx.noEoq hsg
            rw [hq] at this
            intro hm; exact this (by simp [hm])
          · intro l1 l2 hl
            have hl' : rest = l1 ++ Msg.eoq :: l2 := hl
            exact hsx.eoqLast (.data c' :: l1) l2 (by rw [hq, hl']; rfl)
          · intro hsg hno
            have hno' : Msg.eoq ∉ rest := hno
            have := hsx.sigDone hsg (by rw [hq]; simp [hno'])
            rw [hq] at this; cases this
          · have := h.fifo j x hx
            rw [hq] at this
            rw [writtenOf_snoc]
            simp only [↓reduceIte, List.append_assoc, List.singleton_append]
            simpa using this
          · intro k hk
            rw [writtenOf_snoc]
            simp [Ne.symm hk]
          · simp [pend, hq]
        · next rest hq =>
          cases hs
          have hrest : rest = [] := hsx.eoqLast [] rest (by simpa using hq)
          subst hrest
          have hsig : x.signalled = true := by
            cases hsg : x.signalled with
            | true => rfl
            | false => exact absurd (by rw [hq]; simp) (hsx.noEoq hsg)
          have hpos : 0 < s.remaining := by
            have := h.rem
            obtain ⟨l1, l2, hsplit, _, _⟩ := split_of_getElem? hx
            rw [hsplit, nPend_append, nPend_cons] at this
            have hp : pend x = true := by simp [pend, hq]
            simp [hp] at this
            omega
          have := invB_set h hx s.written (s.remaining - 1) (decide (s.remaining ≤ 1))
            (y := { x with queue := [] })
            ⟨by simp, by intro l1 l2 hl; simp at hl, hsx.sigLeft, hsx.sigBar, hsx.barSig, hsx.total, by simp⟩ ?_ (fun _ _ => rfl) ?_ ?_
          · simpa using this
          · have := h.fifo j x hx
            rw [hq] at this
            simpa using this
          · simp [pend, hq, hsig]; omega
          · simp; omega
        · cases hs
      · cases hs

theorem invB_reach {sync : Bool} {m chunks : Nat} (hm : 0 < m) {s : StB}
    (h : ReachB { perSender := true, sync := sync } m chunks s) : InvB m chunks s := by
  induction h with
  | init => exact initB_inv sync m chunks hm
  | step _ hstep ih =>
    obtain ⟨e, he⟩ := hstep
    exact stepB_inv ih e he

theorem nPend_zero {ss : List Sender} (h : nPend ss = 0) : ∀ x ∈ ss, pend x = false := by
  intro x hx
  cases hp : pend x with
  | false => rfl
  | true =>
    exfalso
    have : x ∈ ss.filter pend := List.mem_filter.mpr ⟨hx, hp⟩
    unfold nPend at h
    rw [List.length_eq_zero_iff] at h
    rw [h] at this
    simp at this

/-- NO RECORD LOST: when the writer has stopped, every sender's queue is empty, nothing is left to
    send, every sender is at its barrier, and the writer has written every chunk of every sender
    exactly once and in order -/
theorem no_loss {sync : Bool} {m chunks : Nat} (hm : 0 < m) {s : StB}
    (h : ReachB { perSender := true, sync := sync } m chunks s) (hst : s.stopped = true) :
    ∀ (j : Nat) (x : Sender), s.ss[j]? = some x →
      x.queue = [] ∧ x.left = 0 ∧ x.atBarrier = true ∧ writtenOf j s.written = List.range chunks := by
  have hinv := invB_reach hm h
  intro j x hx
  have hrem := hinv.stop.mp hst
  have hp := nPend_zero (by rw [← hinv.rem]; exact hrem) x (List.mem_of_getElem? hx)
  have hsx := hinv.sender j x hx
  simp only [pend, Bool.or_eq_false_iff, Bool.not_eq_false'] at hp
  obtain ⟨hsig, hno⟩ := hp
  have hno' : Msg.eoq ∉ x.queue := by
    intro hmem
    have : x.queue.contains Msg.eoq = true := by simpa using hmem
    rw [this] at hno; cases hno
  have hq : x.queue = [] := hsx.sigDone hsig hno'
  refine ⟨hq, hsx.sigLeft hsig, hsx.sigBar hsig, ?_⟩
  have hf := hinv.fifo j x hx
  have ht := hsx.total
  rw [hsx.sigLeft hsig] at ht
  rw [hq] at hf
  simp only [dataOf_nil, List.append_nil, Nat.zero_add] at hf ht
  rw [hf, ht]

/-- NO DEADLOCK (writer protocol): as long as the writer has not stopped, some rank can move — for
    eager and for synchronous sends -/
theorem progressB {sync : Bool} {m chunks : Nat} {s : StB} (h : InvB m chunks s) (hns : s.stopped = false) :
    ∃ e s', stepB { perSender := true, sync := sync } s e = some s' := by
  have hrem : 0 < s.remaining := by
    rcases Nat.eq_zero_or_pos s.remaining with h0 | h0
    · have := h.stop.mpr h0; rw [hns] at this; cases this
    · exact h0
  rw [h.rem] at hrem
  unfold nPend at hrem
  obtain ⟨x, hxm⟩ := List.exists_mem_of_length_pos hrem
  rw [List.mem_filter] at hxm
  obtain ⟨j, hj, rfl⟩ := List.mem_iff_getElem.mp hxm.1
  have hx : s.ss[j]? = some s.ss[j] := by simp [hj]
  have hsx := h.sender j _ hx
  -- a sender with a non-empty queue can always be served by the writer
  cases hq : s.ss[j].queue with
  | cons a rest =>
    refine ⟨.recv j, ?_⟩
    simp only [stepB, hns, Bool.false_eq_true, ↓reduceIte, hx, hq]
    cases a <;> exact ⟨_, rfl⟩
  | nil =>
    have hp := hxm.2
    simp only [pend, hq, List.contains_nil, Bool.or_false, Bool.not_eq_eq_eq_not, Bool.not_true] at hp
    have hbar : s.ss[j].atBarrier = false := by
      cases hb : s.ss[j].atBarrier with
      | false => rfl
      | true => have := hsx.barSig hb; rw [hp] at this; cases this
    by_cases hl : 0 < s.ss[j].left
    · refine ⟨.send j, ?_⟩
      simp only [stepB, hx]
      rw [if_pos ⟨hl, hp, hbar, fun _ => hq⟩]
      exact ⟨_, rfl⟩
    · refine ⟨.signal j, ?_⟩
      simp only [stepB, hx]
      rw [if_pos ⟨trivial, by omega, hp, fun _ => hq⟩]
      exact ⟨_, rfl⟩

def wS (x : Sender) : Nat := 3 * x.left + (if x.signalled then 0 else 2) + x.queue.length
def sumS (ss : List Sender) : Nat := (ss.map wS).sum
@[simp] theorem sumS_append (a b : List Sender) : sumS (a ++ b) = sumS a + sumS b := by simp [sumS]
@[simp] theorem sumS_cons (x : Sender) (l : List Sender) : sumS (x :: l) = wS x + sumS l := by simp [sumS]

/-- TERMINATION (writer protocol): every step decreases `sumS` -/
theorem measureB_decreases {sync : Bool} {s s' : StB} (e : EvB)
    (hs : stepB { perSender := true, sync := sync } s e = some s') : sumS s'.ss < sumS s.ss := by
  have upd : ∀ (j : Nat) (x y : Sender), s.ss[j]? = some x → wS y < wS x → sumS (s.ss.set j y) < sumS s.ss := by
    intro j x y hx hlt
    obtain ⟨l1, l2, hsplit, _, hset⟩ := split_of_getElem? hx
    rw [hset, hsplit]
    simp only [sumS_append, sumS_cons]
    omega
  cases e with
  | toBarrier j =>
    simp only [stepB] at hs
    split at hs
    · split at hs
      · next hc => simp at hc
      · cases hs
    · cases hs
  | rootSignal =>
    simp only [stepB] at hs
    split at hs
    · split at hs
      · next hc => simp at hc
      · cases hs
    · cases hs
  | send j =>
    simp only [stepB] at hs
    split at hs
    · next x hx =>
      split at hs
      · next hc => cases hs; exact upd j x _ hx (by simp [wS]; omega)
      · cases hs
    · cases hs
  | signal j =>
    simp only [stepB] at hs
    split at hs
    · next x hx =>
      split at hs
      · next hc => cases hs; exact upd j x _ hx (by simp [wS, hc.2.2.1]; omega)
      · cases hs
    · cases hs
  | recv j =>
    simp only [stepB] at hs
    split at hs
    · cases hs
    · split at hs
      · next x hx =>
        split at hs
        · next c' rest hq => cases hs; exact upd j x _ hx (by simp [wS, hq])
        · next rest hq => cases hs; exact upd j x _ hx (by simp [wS, hq])
        · cases hs
      · cases hs

/-- the single-sentinel protocol (before the repair) loses data: the reader's sentinel overtakes a
    patch dictionary that another rank sent earlier -/
theorem single_sentinel_loses_data :
    ∃ s, runB { perSender := false } (initB { perSender := false } 2 1)
        [.send 0, .send 1, .toBarrier 0, .toBarrier 1, .rootSignal, .recv 0, .recv 0] = some s ∧ lost s = true := by
  exact ⟨_, rfl, by decide⟩

/-- … which cannot happen when every send is synchronous (what hid the defect) -/
example : runB { perSender := false, sync := true } (initB { perSender := false, sync := true } 2 1)
    [.send 0, .send 1, .toBarrier 0] = none := by decide

/-- non-vacuity: the repaired protocol runs to completion and writes everything -/
example : (runB { perSender := true } (initB { perSender := true } 2 2)
    [.send 0, .send 1, .send 0, .signal 0, .recv 0, .recv 1, .recv 0, .recv 0, .send 1, .signal 1, .recv 1, .recv 1]).map
    (fun s => (s.stopped, lost s, writtenOf 0 s.written, writtenOf 1 s.written)) = some (true, false, [0, 1], [0, 1]) := by
  decide

example : (runA { sel := fun i => i < 2 } (init 3 [5, 6, 7])
    [.rootFirst, .rootFirst, .rootFirst, .rootFirst, .wRecv 1, .wDone 1, .rootRecv 1, .wRecv 0, .wDone 0, .wRecv 1,
     .wStop 2, .rootRecv 0, .wDone 1, .rootRecv 1, .rootExit, .rootLocalDone, .wStop 0, .wStop 1, .barrier]).map
    (fun s => (s.pc, s.yielded)) = some (.done, [6, 5, 7]) := by decide

/-! ### the code is the repaired protocol; glue pinned -/

theorem flags : Gen.mpiCountFirst = false ∧ Gen.mpiFallbackOnRoot = true ∧ Gen.mpiSentinelPerSender = true := by decide

/-- the configuration the generated flags select -/
def codeCfg (sel : Nat → Bool) : Cfg := { sel := sel, countFirst := Gen.mpiCountFirst, fallback := Gen.mpiFallbackOnRoot }
def codeCfgB (sync : Bool) : CfgB := { perSender := Gen.mpiSentinelPerSender, sync := sync }

/-- MAIN (dispatch): for the code as it is, every run from the initial state that reaches the end has
    yielded every task exactly once; no reachable state is stuck; every step decreases the measure -/
theorem dispatch_correct (sel : Nat → Bool) (n : Nat) (tasks : List Nat) (s : St)
    (h : Reach (codeCfg sel) n tasks s) :
    (s.pc = .done → s.yielded.Perm tasks ∧ s.pending = []) ∧
    (s.pc ≠ .done → ∃ e s', step (codeCfg sel) s e = some s') ∧
    (∀ e s', step (codeCfg sel) s e = some s' → measure n s' < measure n s) := by
  have hc : (codeCfg sel).countFirst = false := rfl
  have hf : (codeCfg sel).fallback = true := rfl
  have hinv := inv_reach hc h
  exact ⟨fun hd => exactly_once hc hf h hd, fun hnd => progress hinv hnd, fun e s' hs => measure_decreases hinv e hs⟩

/-- MAIN (writer): for the code as it is, eager or synchronous sends -/
theorem writer_correct (sync : Bool) (m chunks : Nat) (hm : 0 < m) (s : StB) (h : ReachB (codeCfgB sync) m chunks s) :
    (s.stopped = true → ∀ (j : Nat) (x : Sender), s.ss[j]? = some x →
        x.queue = [] ∧ x.left = 0 ∧ x.atBarrier = true ∧ writtenOf j s.written = List.range chunks) ∧
    (s.stopped = false → ∃ e s', stepB (codeCfgB sync) s e = some s') ∧
    (∀ e s', stepB (codeCfgB sync) s e = some s' → sumS s'.ss < sumS s.ss) := by
  have h' : ReachB { perSender := true, sync := sync } m chunks s := h
  exact ⟨fun hst => no_loss hm h' hst, fun hns => progressB (invB_reach hm h') hns,
    fun e s' hs => measureB_decreases e hs⟩

/-- MAIN (root result): whatever the interleaving, folding the results the root has yielded into the
    store they name (pair-count cell, patch dictionary entry, histogram row — C05) gives exactly the
    store of the sequential run over the task list -/
theorem root_result_eq_sequential {κ ν : Type} [DecidableEq κ] (sel : Nat → Bool) (n : Nat) (tasks : List Nat)
    (s : St) (h : Reach (codeCfg sel) n tasks s) (hd : s.pc = .done) (f : Nat → κ × ν)
    (hc : Yaw.Sched.Consistent (tasks.map f)) (k : κ) :
    Yaw.Sched.assignFold (s.yielded.map f) k = Yaw.Sched.assignFold (tasks.map f) k := by
  have hp := (exactly_once (c := codeCfg sel) rfl rfl h hd).1
  exact (Yaw.C05.fold_perm_invariant (tasks.map f) (s.yielded.map f) (hp.symm.map f) hc k).symm

theorem glue_pinned :
    Gen.pinMpiRoot = "34ea0a19d93a9e9b" ∧ Gen.pinMpiIter = "77c3c3e78f816245" ∧ Gen.pinMpiWriter = "bf54e352b8ac6caa" ∧
    Gen.pinMpiChunkTask = "ff00d7c089e6bf2e" ∧ Gen.pinMpiWritePatches = "4cf079e26d9e6f84" ∧
    Gen.pinMpiScatter = "dc4fb43c65bda720" ∧ Gen.pinMpiBcast = "f8862ffa97860bbc" := by decide

end Yaw.C06
