/-
  C01 — pair counts are exact and complete.
  The geometric primitive (all ordered object pairs of one bin and patch pair with weight product
  and separation) is abstract; the KD-tree is assumed to count it exactly (trusted base).
-/
import YawVerif.Lemmas.PairCount
import YawVerif.Lemmas.Grid

namespace Yaw.C01
open Yaw Yaw.PC

/-- cumulative and per-bin neighbour counting give, after `dispatch_counts`, the exact counts of
    every fine bin (r k, r (k+1)] — whatever the `cumulative` threshold is -/
theorem fine_counts_exact (P : Pairs) (r : Nat → Rat) (hr : ∀ k, r k ≤ r (k + 1)) (n k : Nat) :
    fineCounts P r n k = cnt P (r k) (r (k + 1)) := by
  unfold fineCounts
  exact dispatch_agree P r hr _ k

/-- nearest-edge summation over the merged grid = all pairs in (θ_min, θ_max] -/
theorem limit_sum_exact (P : Pairs) (r : Nat → Rat) (n : Nat)
    (hr : ∀ i j, i < j → j < n → r i < r j) (hstep : ∀ k, r k ≤ r (k + 1))
    (a b : Nat) (hab : a ≤ b) (hb : b < n) :
    limitSum (fineCounts P r n) r n (r a) (r b) = cnt P (r a) (r b) := by
  have : fineCounts P r n = fun k => cnt P (r k) (r (k + 1)) := by
    funext k; exact fine_counts_exact P r hstep n k
  rw [this]
  exact limitSum_eq_interval P r n hr hstep a b hab hb

/-- `AngularTree.count` without separation weighting: one exact count per scale, also for many and
    overlapping scales, provided every limit is an edge of the merged grid -/
theorem tree_pair_count_exact (P : Pairs) (r : Nat → Rat) (n : Nat)
    (hr : ∀ i j, i < j → j < n → r i < r j) (hstep : ∀ k, r k ≤ r (k + 1))
    (lims : List (Rat × Rat))
    (hl : ∀ l ∈ lims, ∃ a b, a ≤ b ∧ b < n ∧ l.1 = r a ∧ l.2 = r b) :
    treePairCount P r n none lims = lims.map fun l => cnt P l.1 l.2 := by
  unfold treePairCount
  simp only
  apply List.map_congr_left
  intro l hlm
  obtain ⟨a, b, hab, hb, h1, h2⟩ := hl l hlm
  rw [h1, h2]
  exact limit_sum_exact P r n hr hstep a b hab hb

/-- with separation weighting every pair of fine bin k contributes its weight product times
    ω_k / Σω : the result is Σ_k cnt(fine bin k) · ω_k / Σω over the fine bins between the limits -/
theorem weighted_contribution (P : Pairs) (r : Nat → Rat) (n : Nat) (ω : Nat → Rat)
    (hr : ∀ i j, i < j → j < n → r i < r j) (hstep : ∀ k, r k ≤ r (k + 1))
    (a b : Nat) (hab : a ≤ b) (hb : b < n) :
    limitSum (applyWeights ω n (fineCounts P r n)) r n (r a) (r b)
      = sumRange a b fun k => cnt P (r k) (r (k + 1)) * (ω k / sumTo (n - 1) ω) := by
  unfold limitSum
  rw [argminAbs_mem r n hr a (by omega), argminAbs_mem r n hr b hb]
  unfold sumRange applyWeights
  apply sumTo_congr
  intro t _
  rw [fine_counts_exact P r hstep n (a + t)]

/-- `iter_patch_id_pairs` yields, for ANY pop order, exactly: every diagonal pair, and every (i, j)
    of the link sets that passes the emission guard -/
theorem iterPairs_complete (auto : Bool) (rows : List (Nat × List Nat)) (i j : Nat) :
    (i, j) ∈ iterPairs auto rows ↔
      (i = j ∧ ∃ l, (i, l) ∈ rows) ∨ ((∃ l, (i, l) ∈ rows ∧ j ∈ l) ∧ Gen.emitPair auto i j = true) :=
  mem_iterPairs auto rows i j

/-- … and each of them exactly as often as it is listed (once, for duplicate-free link sets) -/
theorem iterPairs_exactly_once (rows : List (Nat × List Nat)) :
    (columns (totalLen rows) rows).Perm (flat rows) :=
  columns_perm _ rows (le_refl _)

/-- the emission guard keeps the strict upper triangle for an autocorrelation, everything otherwise -/
theorem emit_guard (auto : Bool) (i j : Nat) :
    Gen.emitPair auto i j = (!auto || decide (i < j)) := by
  unfold Gen.emitPair
  cases auto <;> simp

/-- autocorrelation diagonal: the worker counts every unordered pair twice, half is stored -/
theorem diag_value (x : Rat) : Gen.diagValue x = x / 2 := by
  unfold Gen.diagValue; ring

/-- pruning is sound for any pseudo-metric: unlinked patches have no object pair closer than the
    pruning angle -/
theorem pruned_sep {α : Type} (d : α → α → Rat)
    (tri : ∀ x y z, d x z ≤ d x y + d y z) (symm : ∀ x y, d x y = d y x)
    (ci cj a b : α) (Ri Rj A : Rat) (ha : d a ci ≤ Ri) (hb : d b cj ≤ Rj)
    (hlink : Gen.linked (d ci cj) Ri Rj A = false) : A ≤ d a b :=
  PC.pruned_sep d tri symm ci cj a b Ri Rj A ha hb hlink

/-- linked is reflexive for non-negative radii and a positive pruning angle, and symmetric -/
theorem linked_refl_symm (d Ri Rj A : Rat) (hR : 0 ≤ Ri) (hA : 0 < A) :
    Gen.linked 0 Ri Ri A = true ∧ Gen.linked d Ri Rj A = Gen.linked d Rj Ri A := by
  unfold Gen.linked
  refine ⟨by simp; linarith, ?_⟩
  rw [show Rj + Ri + A = Ri + Rj + A by ring]

/-- H3 is necessary in exact arithmetic: with the strict `<` of the link predicate, a pair whose
    separation ties the pruning angle belongs to (lo, A] although its patches are not linked -/
theorem link_tie_witness :
    ∃ (P : Pairs) (A lo : Rat), (∀ p ∈ P, A ≤ p.2) ∧ Gen.linked 3 1 1 1 = false ∧ cnt P lo A ≠ 0 := by
  refine ⟨[(1, 1)], 1, 0, ?_, ?_, ?_⟩
  · intro p hp; simp at hp; subst hp; exact le_refl _
  · decide +kernel
  · decide +kernel

/-- MAIN (partial: hypotheses H1–H3 enter through `hprune`): the array assembled by `count_pairs`
    from the emitted patch pairs equals the specification — all pairs for a cross-correlation; for an
    autocorrelation every unordered pair once (upper triangle, halved diagonal) — for every link
    enumeration (pop order), including empty bins/patches (`full = 0` there) -/
theorem count_pairs_eq_spec_partial (auto : Bool) (N : Nat) (L : Nat → List Nat) (linkedP : Nat → Nat → Bool)
    (full res : Nat → Nat → Rat)
    (hL : ∀ i j, i < N → (j ∈ L i ↔ j < N ∧ j ≠ i ∧ linkedP i j = true))
    (hres : ∀ i j, res i j = full i j)
    (hprune : ∀ i j, i < N → j < N → i ≠ j → linkedP i j = false → full i j = 0)
    (i j : Nat) (hi : i < N) (hj : j < N) :
    algCell auto ((List.range N).map fun i => (i, L i)) res i j = specCell auto full i j := by
  have hrow : ∀ i' l, (i', l) ∈ (List.range N).map (fun i => (i, L i)) ↔ i' < N ∧ l = L i' := by
    intro i' l
    simp only [List.mem_map, List.mem_range, Prod.mk.injEq]
    constructor
    · rintro ⟨k, hk, h1, h2⟩; subst h1; exact ⟨hk, h2.symm⟩
    · rintro ⟨h1, h2⟩; exact ⟨i', h1, rfl, h2.symm⟩
  unfold algCell specCell cellValue
  simp only [List.contains_iff_mem, hres]
  have hiff := iterPairs_complete auto ((List.range N).map fun i => (i, L i)) i j
  rw [emit_guard] at hiff
  by_cases hij : i = j
  · subst hij
    have hin : (i, i) ∈ iterPairs auto ((List.range N).map fun i => (i, L i)) :=
      hiff.mpr (Or.inl ⟨rfl, L i, (hrow i (L i)).mpr ⟨hi, rfl⟩⟩)
    simp only [hin, if_true, beq_self_eq_true, Bool.and_true, Nat.lt_irrefl, if_false]
    cases auto <;> simp [diag_value]
  · have hmem : (∃ l, (i, l) ∈ (List.range N).map (fun i => (i, L i)) ∧ j ∈ l) ↔ linkedP i j = true := by
      constructor
      · rintro ⟨l, hl, hjl⟩
        have := (hrow i l).mp hl
        rw [this.2] at hjl
        exact ((hL i j hi).mp hjl).2.2
      · intro h
        exact ⟨L i, (hrow i (L i)).mpr ⟨hi, rfl⟩, (hL i j hi).mpr ⟨hj, fun h' => hij h'.symm, h⟩⟩
    have hiff' : (i, j) ∈ iterPairs auto ((List.range N).map fun i => (i, L i)) ↔
        (linkedP i j = true ∧ (!auto || decide (i < j)) = true) := by
      rw [hiff, hmem]
      constructor
      · rintro (h | h)
        · exact absurd h.1 hij
        · exact h
      · intro h; exact Or.inr h
    have hbeq : (i == j) = false := by simpa using hij
    simp only [hbeq, Bool.and_false, Bool.false_eq_true, if_false]
    cases hlk : linkedP i j
    · -- pruned: nothing is written, and the specification is 0 as well
      have hz := hprune i j hi hj hij hlk
      have hnot : (i, j) ∉ iterPairs auto ((List.range N).map fun i => (i, L i)) := by
        rw [hiff', hlk]; simp
      simp only [hnot, if_false, hz]
      cases auto <;> simp [hij]
    · rw [hlk] at hiff'
      cases auto
      · have hin : (i, j) ∈ iterPairs false ((List.range N).map fun i => (i, L i)) := by
          rw [hiff']; simp
        simp [hin]
      · by_cases hlt : i < j
        · have hin : (i, j) ∈ iterPairs true ((List.range N).map fun i => (i, L i)) := by
            rw [hiff']; simp [hlt]
          have : ¬ j < i := by omega
          simp [hin, this, hij]
        · have hnot : (i, j) ∉ iterPairs true ((List.range N).map fun i => (i, L i)) := by
            rw [hiff']; simp [hlt]
          have : j < i := by omega
          simp [hnot, this]

/-- `get_ang_bins` discharges the grid hypotheses: the merged grid `np.sort(np.unique(fine edges ++ all limits))` is
    strictly increasing and contains every limit (`Grid.merged_sorted`, `Grid.mem_merged`), hence — for ANY fine edges, any
    number of scales, overlapping or not — counting on the merged grid and summing between the nearest edges gives, per
    scale, exactly the pairs in (θ_min, θ_max].  (Exact arithmetic: the logarithm in which the code sorts is a strictly
    monotone bijection; in floats `10 ** log10 x` may miss `x` by an ulp, which is what the nearest-edge search absorbs.) -/
theorem tree_pair_count_exact_merged (P : Pairs) (fine : List Rat) (lims : List (Rat × Rat))
    (hord : ∀ l ∈ lims, l.1 ≤ l.2) :
    let g := Grid.merged (fine ++ lims.flatMap fun l => [l.1, l.2])
    treePairCount P (Grid.edge g) g.length none lims = lims.map fun l => cnt P l.1 l.2 := by
  intro g
  have hs : g.Pairwise (· < ·) := Grid.merged_sorted _
  apply tree_pair_count_exact P (Grid.edge g) g.length
    (fun i j hij hj => Grid.edge_strict g hs i j hij hj) (fun k => Grid.edge_step g hs k)
  intro l hl
  have hmem : ∀ z, (z = l.1 ∨ z = l.2) → z ∈ g := by
    intro z hz
    rw [Grid.mem_merged, List.mem_append]
    right
    rw [List.mem_flatMap]
    exact ⟨l, hl, by rcases hz with rfl | rfl <;> simp⟩
  obtain ⟨a, ha, ea⟩ := Grid.edge_of_mem g l.1 (hmem _ (Or.inl rfl))
  obtain ⟨b, hb, eb⟩ := Grid.edge_of_mem g l.2 (hmem _ (Or.inr rfl))
  refine ⟨a, b, ?_, hb, ea.symm, eb.symm⟩
  by_contra hab
  have hlt : Grid.edge g b < Grid.edge g a := Grid.edge_strict g hs b a (by omega) ha
  rw [ea, eb] at hlt
  exact absurd (hord l hl) (not_le.mpr hlt)

/-- non-vacuity: two overlapping scales on a grid merged from three fine edges -/
example : Grid.merged ([1, 4, 16] ++ ([((2 : Rat), (8 : Rat)), (4, 32)].flatMap fun l => [l.1, l.2])) = [1, 2, 4, 8, 16, 32] := by
  decide

/-- the hand-modelled glue around the generated kernels is unchanged -/
theorem glue_pinned :
    Gen.pinTreeCount = "8155ef0822c3a62c" ∧ Gen.pinCountsForLimits = "3fd63e4b83225df7" ∧
    Gen.pinAngBins = "d97d360d292d6a1b" ∧ Gen.pinLogMid = "bc4f1ba1f0f542d8" ∧
    Gen.pinFromCatalogs = "50a9a6dcda368013" ∧ Gen.pinMaxAngle = "6fda3a0b4dde6b2e" ∧
    Gen.pinIterPairs = "cbd1ea67dba98422" ∧ Gen.pinCountPairs = "7cd9ecb7ccceeb9a" ∧
    Gen.pinProcessPatchPair = "6dc1ae67850d260f" ∧ Gen.pinSetPatchPair = "4255db4903d80462" := by
  decide

/-! non-vacuity -/
example : cnt [(2, 1 / 2), (3, 1), (5, 3 / 2)] (1 / 2) 1 = 3 := by decide +kernel
example : iterPairs true [(0, [1, 2]), (1, [2, 0]), (2, [0, 1])]
    = [(0, 0), (1, 1), (2, 2), (0, 1), (1, 2), (0, 2)] := by decide +kernel
example : Gen.linked 1 (1 / 4) (1 / 4) 1 = true := by decide +kernel

end Yaw.C01
