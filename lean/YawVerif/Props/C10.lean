/-
  C10 — one closed-side rule for redshift-bin membership everywhere.
-/
import YawVerif.Lemmas.Binning

namespace Yaw.C10
open Yaw Yaw.Bin

private theorem lt_antitone (e : Nat → Rat) (B : Nat) (he : StrictEdges e B) (z : Rat) :
    ∀ i j, i ≤ j → (fun j => if j ≤ B then decide (e j < z) else false) j = true →
      (fun j => if j ≤ B then decide (e j < z) else false) i = true := by
  intro i j hij hj
  simp only at hj ⊢
  by_cases hjB : j ≤ B
  · simp only [hjB, if_true, decide_eq_true_eq] at hj
    have hiB : i ≤ B := by omega
    simp only [hiB, if_true, decide_eq_true_eq]
    rcases Nat.lt_or_ge i j with h | h
    · exact lt_trans (he i j h hjB) hj
    · have : i = j := by omega
      subst this; exact hj
  · simp [hjB] at hj

private theorem le_antitone (e : Nat → Rat) (B : Nat) (he : StrictEdges e B) (z : Rat) :
    ∀ i j, i ≤ j → (fun j => if j ≤ B then decide (e j ≤ z) else false) j = true →
      (fun j => if j ≤ B then decide (e j ≤ z) else false) i = true := by
  intro i j hij hj
  simp only at hj ⊢
  by_cases hjB : j ≤ B
  · simp only [hjB, if_true, decide_eq_true_eq] at hj
    have hiB : i ≤ B := by omega
    simp only [hiB, if_true, decide_eq_true_eq]
    rcases Nat.lt_or_ge i j with h | h
    · exact le_trans (le_of_lt (he i j h hjB)) hj
    · have : i = j := by omega
      subst this; exact hj
  · simp [hjB] at hj

private theorem countP_congr (p q : Nat → Bool) (n : Nat) (h : ∀ j, j < n → p j = q j) :
    countP p n = countP q n := by
  induction n with
  | zero => rfl
  | succ n ih =>
    unfold countP
    rw [ih (fun j hj => h j (by omega)), h n (by omega)]

/-- characterisation of `np.digitize` on strictly increasing edges:
    the result is `b + 1` exactly when `z` lies in bin `b` under the corresponding closed side -/
theorem digitize_spec (right : Bool) (e : Nat → Rat) (B : Nat) (he : StrictEdges e B) (z : Rat)
    (b : Nat) (hb : b < B) :
    digitize right e (B + 1) z = b + 1 ↔ member right e b z = true := by
  unfold digitize member
  cases right
  · -- right = false : count of edges ≤ z
    simp only [Bool.false_eq_true, if_false]
    have hc := countP_congr (fun j => decide (e j ≤ z))
      (fun j => if j ≤ B then decide (e j ≤ z) else false) (B + 1)
      (fun j hj => by simp [show j ≤ B by omega])
    rw [hc]
    have spec := countP_spec _ (le_antitone e B he z) (B + 1)
    have hle := countP_le (fun j => if j ≤ B then decide (e j ≤ z) else false) (B + 1)
    have s1 := spec b (by omega)
    have s2 := spec (b + 1) (by omega)
    simp only [show b ≤ B by omega, show b + 1 ≤ B by omega, if_true, decide_eq_true_eq] at s1 s2
    simp only [Bool.and_eq_true, decide_eq_true_eq]
    constructor
    · intro h
      refine ⟨s1.mpr (by omega), ?_⟩
      by_contra hcon
      have := s2.mp (not_lt.mp hcon)
      omega
    · intro ⟨h1, h2⟩
      have a1 := s1.mp h1
      have a2 : ¬ (b + 1 < countP (fun j => if j ≤ B then decide (e j ≤ z) else false) (B + 1)) := by
        intro hh; exact absurd (s2.mpr hh) (not_le.mpr h2)
      omega
  · simp only [if_true]
    have hc := countP_congr (fun j => decide (e j < z))
      (fun j => if j ≤ B then decide (e j < z) else false) (B + 1)
      (fun j hj => by simp [show j ≤ B by omega])
    rw [hc]
    have spec := countP_spec _ (lt_antitone e B he z) (B + 1)
    have s1 := spec b (by omega)
    have s2 := spec (b + 1) (by omega)
    simp only [show b ≤ B by omega, show b + 1 ≤ B by omega, if_true, decide_eq_true_eq] at s1 s2
    simp only [Bool.and_eq_true, decide_eq_true_eq]
    constructor
    · intro h
      refine ⟨s1.mpr (by omega), ?_⟩
      by_contra hcon
      have := s2.mp (not_le.mp hcon)
      omega
    · intro ⟨h1, h2⟩
      have a1 := s1.mp h1
      have a2 : ¬ (b + 1 < countP (fun j => if j ≤ B then decide (e j < z) else false) (B + 1)) := by
        intro hh; exact absurd (s2.mpr hh) (not_lt.mpr h2)
      omega

/-- for `e 0 ≤ z < e B` the left-closed digitize index lies in `1 … B` -/
private theorem digitize_bounds (e : Nat → Rat) (B : Nat) (he : StrictEdges e B) (z : Rat)
    (h0 : e 0 ≤ z) (hB : z < e B) :
    0 < digitize false e (B + 1) z ∧ digitize false e (B + 1) z ≤ B := by
  unfold digitize
  simp only [Bool.false_eq_true, if_false]
  have hc := countP_congr (fun j => decide (e j ≤ z))
    (fun j => if j ≤ B then decide (e j ≤ z) else false) (B + 1)
    (fun j hj => by simp [show j ≤ B by omega])
  rw [hc]
  have spec := countP_spec _ (le_antitone e B he z) (B + 1)
  have hle' := countP_le (fun j => if j ≤ B then decide (e j ≤ z) else false) (B + 1)
  have s0 := spec 0 (by omega)
  have sB := spec B (by omega)
  simp only [Nat.zero_le, le_refl, if_true, decide_eq_true_eq] at s0 sB
  refine ⟨s0.mp h0, ?_⟩
  by_contra hcon
  have := sB.mpr (by omega)
  linarith

/-- TREES: an object lands in the tree of bin `b` exactly when its redshift is in that bin's
    interval under the configured closed side; otherwise it is in no tree -/
theorem binIndex_spec (closedRight : Bool) (e : Nat → Rat) (B : Nat) (he : StrictEdges e B)
    (z : Rat) (b : Nat) :
    binIndex closedRight e B z = some b ↔ b < B ∧ member closedRight e b z = true := by
  unfold binIndex Gen.keepRange Gen.treeOffset Gen.digitizeRight
  simp only [Bool.and_eq_true, decide_eq_true_eq, Nat.cast_lt, Nat.cast_le, Nat.cast_pos]
  constructor
  · intro h
    split at h
    · rename_i hk
      simp only [Option.some.injEq] at h
      have hb : b < B := by omega
      refine ⟨hb, (digitize_spec closedRight e B he z b hb).mp (by omega)⟩
    · simp at h
  · intro ⟨hb, hm⟩
    have := (digitize_spec closedRight e B he z b hb).mpr hm
    rw [this]
    have h1 : (0 : Rat) < ((b + 1 : Nat) : Rat) := by exact_mod_cast Nat.succ_pos b
    simp only [show (0 : Nat) < b + 1 by omega, show b + 1 ≤ B by omega, and_self, if_true]
    simp

/-- objects outside the binning contribute to no bin -/
theorem binIndex_none (closedRight : Bool) (e : Nat → Rat) (B : Nat) (he : StrictEdges e B) (z : Rat) :
    binIndex closedRight e B z = none ↔ ∀ b, b < B → member closedRight e b z = false := by
  constructor
  · intro h b hb
    by_contra hcon
    have hm : member closedRight e b z = true := by simpa using hcon
    have := (binIndex_spec closedRight e B he z b).mpr ⟨hb, hm⟩
    rw [h] at this; simp at this
  · intro h
    cases hx : binIndex closedRight e B z with
    | none => rfl
    | some b =>
      have := (binIndex_spec closedRight e B he z b).mp hx
      rw [h b this.1] at this; simp at this

/-- HISTOGRAM: an object is counted in histogram bin `b` exactly when its redshift is in that
    bin under the configured closed side (false before the `fix:` of F10 for closed = right) -/
theorem hist_rule (closedRight : Bool) (e : Nat → Rat) (B : Nat) (he : StrictEdges e B)
    (z : Rat) (b : Nat) :
    histBin closedRight e B z = some b ↔ b < B ∧ member closedRight e b z = true := by
  cases closedRight
  · -- closed left: plain numpy histogram with the mask z < e B
    unfold histBin Gen.histMask Gen.histNegZ Gen.histMirror Gen.histRev npHistIndex
    simp only [Bool.false_eq_true, if_false, decide_eq_true_eq]
    by_cases hz : z < e B
    · simp only [hz, if_true]
      have hne : z ≠ e B := ne_of_lt hz
      have hnot : ¬ e B < z := not_lt.mpr (le_of_lt hz)
      by_cases hz0 : z < e 0
      · simp only [hz0, true_or, if_true]
        constructor
        · intro h; simp at h
        · intro ⟨hb, hm⟩
          unfold member at hm
          simp only [Bool.false_eq_true, if_false, Bool.and_eq_true, decide_eq_true_eq] at hm
          have : e 0 ≤ e b := by
            rcases Nat.eq_zero_or_pos b with h0 | h0
            · subst h0; exact le_refl _
            · exact le_of_lt (he 0 b h0 (by omega))
          linarith [hm.1]
      · simp only [hz0, hnot, or_self, if_false, hne]
        simp only [Option.some.injEq]
        constructor
        · intro h
          -- digitize - 1 = b with z ≥ e 0 means digitize = b + 1
          obtain ⟨hpos, hle⟩ := digitize_bounds e B he z (not_lt.mp hz0) hz
          have hb : b < B := by omega
          exact ⟨hb, (digitize_spec false e B he z b hb).mp (by omega)⟩
        · intro ⟨hb, hm⟩
          have := (digitize_spec false e B he z b hb).mpr hm
          omega
    · simp only [hz, if_false]
      constructor
      · intro h; simp at h
      · intro ⟨hb, hm⟩
        unfold member at hm
        simp only [Bool.false_eq_true, if_false, Bool.and_eq_true, decide_eq_true_eq] at hm
        have : e (b + 1) ≤ e B := by
          rcases Nat.lt_or_ge (b + 1) B with h | h
          · exact le_of_lt (he (b + 1) B h (le_refl _))
          · have : b + 1 = B := by omega
            rw [this]
        exact absurd (lt_of_lt_of_le hm.2 this) hz
  · -- closed right: mirrored histogram
    unfold histBin Gen.histMask Gen.histNegZ Gen.histMirror Gen.histRev npHistIndex
    simp only [if_true, decide_eq_true_eq]
    -- mirrored edges are strictly increasing
    have he' : StrictEdges (fun j => -e (B - j)) B := by
      intro i j hij hj
      have := he (B - j) (B - i) (by omega) (by omega)
      simp only
      linarith
    by_cases hz : e 0 < z
    · simp only [hz, if_true, Nat.sub_zero, Nat.sub_self]
      have hA : ¬ (-z < -e B ∨ -e 0 < -z) ↔ z ≤ e B := by
        constructor
        · intro h; by_contra hc; exact h (Or.inl (by linarith [not_le.mp hc]))
        · intro h hc
          rcases hc with hc | hc <;> linarith
      by_cases hzB : z ≤ e B
      · have hcond : ¬ (-z < -e B ∨ -e 0 < -z) := hA.mpr hzB
        have hne : ¬ (-z = -e 0) := by intro h; linarith
        simp only [hcond, if_false, hne]
        simp only [Option.some.injEq]
        -- b' := digitize' - 1 ; result B - 1 - b'
        constructor
        · intro h
          obtain ⟨hpos, hle⟩ := digitize_bounds (fun j => -e (B - j)) B he' (-z)
            (by simp only [Nat.sub_zero]; linarith) (by simp only [Nat.sub_self]; linarith)
          have hb : b < B := by omega
          refine ⟨hb, ?_⟩
          have hb' : B - 1 - b < B := by omega
          have hd : digitize false (fun j => -e (B - j)) (B + 1) (-z) = (B - 1 - b) + 1 := by omega
          have hm := (digitize_spec false _ B he' (-z) (B - 1 - b) hb').mp hd
          unfold member at hm ⊢
          simp only [Bool.false_eq_true, if_false, if_true, Bool.and_eq_true, decide_eq_true_eq] at hm ⊢
          have e1 : B - (B - 1 - b) = b + 1 := by omega
          have e2 : B - (B - 1 - b + 1) = b := by omega
          rw [e1, e2] at hm
          constructor <;> linarith [hm.1, hm.2]
        · intro ⟨hb, hm⟩
          have hb' : B - 1 - b < B := by omega
          have hm' : member false (fun j => -e (B - j)) (B - 1 - b) (-z) = true := by
            unfold member at hm ⊢
            simp only [Bool.false_eq_true, if_false, if_true, Bool.and_eq_true, decide_eq_true_eq] at hm ⊢
            have e1 : B - (B - 1 - b) = b + 1 := by omega
            have e2 : B - (B - 1 - b + 1) = b := by omega
            rw [e1, e2]
            constructor <;> linarith [hm.1, hm.2]
          have := (digitize_spec false _ B he' (-z) (B - 1 - b) hb').mpr hm'
          omega
      · have hcond : (-z < -e B ∨ -e 0 < -z) := Or.inl (by linarith [not_le.mp hzB])
        simp only [hcond, if_true]
        constructor
        · intro h; simp at h
        · intro ⟨hb, hm⟩
          unfold member at hm
          simp only [if_true, Bool.and_eq_true, decide_eq_true_eq] at hm
          have : e (b + 1) ≤ e B := by
            rcases Nat.lt_or_ge (b + 1) B with h | h
            · exact le_of_lt (he (b + 1) B h (le_refl _))
            · have : b + 1 = B := by omega
              rw [this]
          exact absurd (le_trans hm.2 this) hzB
    · simp only [hz, if_false]
      constructor
      · intro h; simp at h
      · intro ⟨hb, hm⟩
        unfold member at hm
        simp only [if_true, Bool.and_eq_true, decide_eq_true_eq] at hm
        have : e 0 ≤ e b := by
          rcases Nat.eq_zero_or_pos b with h0 | h0
          · subst h0; exact le_refl _
          · exact le_of_lt (he 0 b h0 (by omega))
        exact absurd (lt_of_le_of_lt this hm.1) hz

/-- trees and histograms apply one and the same rule to every redshift, also on bin edges -/
theorem consumers_agree (closedRight : Bool) (e : Nat → Rat) (B : Nat) (he : StrictEdges e B) (z : Rat) :
    binIndex closedRight e B z = histBin closedRight e B z :=
  option_ext fun b => by rw [binIndex_spec closedRight e B he z b, hist_rule closedRight e B he z b]

/-- every object belongs to at most one bin -/
theorem member_unique (closedRight : Bool) (e : Nat → Rat) (B : Nat) (he : StrictEdges e B) (z : Rat)
    (b c : Nat) (hb : b < B) (hc : c < B)
    (h1 : member closedRight e b z = true) (h2 : member closedRight e c z = true) : b = c := by
  have x := (binIndex_spec closedRight e B he z b).mpr ⟨hb, h1⟩
  have y := (binIndex_spec closedRight e B he z c).mpr ⟨hc, h2⟩
  rw [x] at y
  exact Option.some.inj y

/-! non-vacuity: an object exactly on an inner edge -/
example : binIndex true (fun j => (j : Rat) / 10) 3 (1 / 10) = some 0 := by decide +kernel
example : histBin true (fun j => (j : Rat) / 10) 3 (1 / 10) = some 0 := by decide +kernel
example : binIndex false (fun j => (j : Rat) / 10) 3 (1 / 10) = some 1 := by decide +kernel
example : histBin false (fun j => (j : Rat) / 10) 3 (3 / 10) = none := by decide +kernel

end Yaw.C10
