/-
  C16 — the footprint of `BoxRandoms`: the generated cylinder map, its inverse, the window limits stored by
  the constructor and the two uniform draws of `_draw_coords`, over ℝ.  Everything below is a statement about the
  formulas as they stand in /repo/src (regenerated on every run into `Generated/RandomsReal.lean`).
-/
import YawVerif.Generated.RandomsReal
import Mathlib.Analysis.SpecialFunctions.Integrals.Basic

namespace Yaw.C16Box
open Yaw.GenR Real

/-- the inverse map undoes the cylinder map for every declination of the sphere (poles included) -/
theorem cyl_roundtrip (ra dec : ℝ) (h0 : -(π / 2) ≤ dec) (h1 : dec ≤ π / 2) :
    cylToSkyRa (skyToCylX ra dec) (skyToCylY ra dec) = ra ∧
    cylToSkyDec (skyToCylX ra dec) (skyToCylY ra dec) = dec := by
  unfold cylToSkyRa cylToSkyDec skyToCylX skyToCylY
  exact ⟨rfl, arcsin_sin h0 h1⟩

/-- a uniform variate of `Generator.uniform(low, high)` — `low + u·(high − low)` with `u ∈ [0, 1]` — lies between its limits -/
theorem affine_mem {lo hi u : ℝ} (h : lo ≤ hi) (hu0 : 0 ≤ u) (hu1 : u ≤ 1) :
    lo ≤ lo + u * (hi - lo) ∧ lo + u * (hi - lo) ≤ hi := by
  have hd : 0 ≤ hi - lo := sub_nonneg.mpr h
  constructor
  · nlinarith [mul_nonneg hu0 hd]
  · nlinarith [mul_nonneg (sub_nonneg.mpr hu1) hd]

/-- **window** — every point drawn lies inside the requested window, for EVERY window on the sphere (limits given in
degrees as to the constructor; declination limits may be the poles, the window may be a thin strip or the full sphere)
and every pair of uniform variates.  The right ascension / declination are those handed to the catalog (radian). -/
theorem box_window (raMin raMax decMin decMax u v : ℝ) (hra : raMin ≤ raMax) (hd0 : -90 ≤ decMin) (hd : decMin ≤ decMax)
    (hd1 : decMax ≤ 90) (hu0 : 0 ≤ u) (hu1 : u ≤ 1) (hv0 : 0 ≤ v) (hv1 : v ≤ 1) :
    let xm := boxXMin raMin raMax decMin decMax
    let xM := boxXMax raMin raMax decMin decMax
    let ym := boxYMin raMin raMax decMin decMax
    let yM := boxYMax raMin raMax decMin decMax
    raMin * degToRad ≤ drawRa xm xM ym yM u v ∧ drawRa xm xM ym yM u v ≤ raMax * degToRad ∧
    decMin * degToRad ≤ drawDec xm xM ym yM u v ∧ drawDec xm xM ym yM u v ≤ decMax * degToRad := by
  intro xm xM ym yM
  have hpos : 0 < degToRad := by unfold degToRad; positivity
  have e90 : (90 : ℝ) * degToRad = π / 2 := by unfold degToRad; ring
  have a0 : -(π / 2) ≤ decMin * degToRad := by
    have := mul_le_mul_of_nonneg_right hd0 hpos.le; linarith
  have a1 : decMax * degToRad ≤ π / 2 := by
    have := mul_le_mul_of_nonneg_right hd1 hpos.le; linarith
  have amid : decMin * degToRad ≤ decMax * degToRad := mul_le_mul_of_nonneg_right hd hpos.le
  have hx := affine_mem (mul_le_mul_of_nonneg_right hra hpos.le) hu0 hu1
  have hsin : sin (decMin * degToRad) ≤ sin (decMax * degToRad) :=
    sin_le_sin_of_le_of_le_pi_div_two a0 a1 amid
  have hy := affine_mem hsin hv0 hv1
  refine ⟨hx.1, hx.2, ?_, ?_⟩
  · have := arcsin_le_arcsin hy.1
    rwa [arcsin_sin a0 (amid.trans a1)] at this
  · have := arcsin_le_arcsin hy.2
    rwa [arcsin_sin (a0.trans amid) a1] at this

/-- **footprint of a sub-box in the cylinder** — a point of the cylinder (|y| ≤ 1) is mapped into the sky box
[a, b] × [c, d] exactly when it lies in the rectangle [a, b] × [sin c, sin d] -/
theorem preimage_box (a b c d x y : ℝ) (hy : y ∈ Set.Icc (-1 : ℝ) 1) (hc : c ∈ Set.Icc (-(π / 2)) (π / 2))
    (hd : d ∈ Set.Icc (-(π / 2)) (π / 2)) :
    (a ≤ cylToSkyRa x y ∧ cylToSkyRa x y ≤ b ∧ c ≤ cylToSkyDec x y ∧ cylToSkyDec x y ≤ d) ↔
    (a ≤ x ∧ x ≤ b ∧ skyToCylY a c ≤ y ∧ y ≤ skyToCylY b d) := by
  unfold cylToSkyRa cylToSkyDec skyToCylY
  rw [le_arcsin_iff_sin_le hc hy, arcsin_le_iff_le_sin hy hd]

/-- **equal area** — the area of that rectangle is the area of the box on the unit sphere (surface element
cos(dec) d dec d ra): uniform variates in the cylinder are uniform in area on the sky -/
theorem equal_area (a b c d : ℝ) :
    (skyToCylX b d - skyToCylX a c) * (skyToCylY b d - skyToCylY a c) = ∫ _ra in a..b, ∫ dec in c..d, cos dec := by
  unfold skyToCylX skyToCylY
  simp only [integral_cos, intervalIntegral.integral_const, smul_eq_mul]

/-! non-vacuity: a polar cap window and the full sphere satisfy the hypotheses of `box_window` -/
example : (350 : ℝ) ≤ 360 ∧ (-90 : ℝ) ≤ 80 ∧ (80 : ℝ) ≤ 90 ∧ (90 : ℝ) ≤ 90 := by norm_num
example : (0 : ℝ) ≤ 360 ∧ (-90 : ℝ) ≤ -90 ∧ (-90 : ℝ) ≤ 90 := by norm_num

end Yaw.C16Box
