/-
C06 — collectives: every function of the library that enters a collective on the world communicator enters the SAME
sequence of collectives on the root and on a worker rank (generated table `Gen.collFns`, re-derived from the source on
every run by `translator/collective.py`), and ranks that enter the same sequence can never be left waiting.
Only property theorems and non-vacuity examples in this file.
-/
import YawVerif.Model.Collective
import YawVerif.Generated.Collective

namespace Yaw.C06C
open Yaw.Coll

theorem step_uniform (n : Nat) (hn : 0 < n) (op : Op) (t : List Op) (regs : List Int) :
    step (uniform n (op :: t) regs) = some (uniform n t (effect op regs)) := by
  obtain ⟨k, rfl⟩ : ∃ k, n = k + 1 := ⟨n - 1, by omega⟩
  simp [step, uniform, List.replicate_succ, List.map_replicate]

/-- progress and termination: `n ≥ 1` ranks entering the same sequence of collectives complete all of them — no
intermediate state is stuck, and after `t.length` steps every rank is through. -/
theorem matched_completes (n : Nat) (hn : 0 < n) (t : List Op) (regs : List Int) :
    done (run t.length (uniform n t regs)) = true ∧
    ∀ k, k < t.length → (step (run k (uniform n t regs))).isSome = true := by
  induction t generalizing regs with
  | nil => simp [run, done, uniform]
  | cons op t ih =>
    constructor
    · simp only [List.length_cons, run, step_uniform n hn]
      exact (ih _).1
    · intro k hk
      cases k with
      | zero => simp [run, step_uniform n hn]
      | succ k =>
        simp only [run, step_uniform n hn]
        exact (ih _).2 k (by simpa using hk)

/-- the converse, which is why the table below matters: if two ranks have different operations at the head of their
programs (or one is through while another still waits), nothing can ever complete — a deadlock. -/
theorem mismatch_stuck (w : World) (p q : List Op) (hp : p ∈ w.progs) (hq : q ∈ w.progs)
    (hne : p.head? ≠ q.head?) : deadlocked w = true := by
  unfold deadlocked
  have hnd : done w = false := by
    unfold done
    rw [Bool.eq_false_iff]
    intro h
    rw [List.all_eq_true] at h
    have h1 := h p hp
    have h2 := h q hq
    simp only [List.isEmpty_iff] at h1 h2
    subst h1 h2
    exact hne rfl
  have hst : step w = none := by
    unfold step
    split
    · rfl
    · rename_i p0 rest hw
      split
      · rfl
      · rename_i op hop
        split
        · rename_i hall
          rw [List.all_eq_true] at hall
          have h1 := hall p (hw ▸ hp)
          have h2 := hall q (hw ▸ hq)
          simp only [beq_iff_eq] at h1 h2
          exact absurd (h1.trans h2.symm) hne
        · rfl
  simp [hnd, hst]

/-- a completed broadcast leaves every rank with the value the root held -/
theorem bcast_agree (op : Op) (hb : isBcast op = true) (regs : List Int) :
    ∀ v ∈ effect op regs, v = regs.getD op.root 0 := by
  intro v hv
  simp only [effect, hb, if_true, List.mem_map] at hv
  obtain ⟨_, _, rfl⟩ := hv
  rfl

/-- THE CODE: for every function that calls a collective, the body specialised to the root rank and the body
specialised to a worker rank contain the same collective call sites in the same control structure. -/
theorem code_traces_match : ∀ f ∈ Gen.collFns, f.2.1 = f.2.2 := by decide

/-- the table is not empty and names the functions the property is anchored in -/
theorem code_table_covers :
    (["catalog/catalog.py:load_patches", "catalog/catalog.py:create_patch_centers",
      "correlation/corrfunc.py:CorrFunc.from_file", "correlation/corrfunc.py:CorrFunc.to_file",
      "correlation/corrdata.py:CorrData.from_files", "correlation/corrdata.py:CorrData.to_files",
      "redshifts.py:HistData.from_catalog", "utils/parallel.py:bcast_instance", "utils/parallel.py:bcast_array",
      "utils/parallel.py:_mpi_iter_unordered", "catalog/readers.py:DataReader.get_probe"]).all
      (fun n => Gen.collFns.any (fun f => f.1 == n)) = true := by decide

/-- Consequence: whatever rank-independent data decide loop counts and (non-role) conditions — `sem` turns a trace into
the executed operations and is the same function on every rank — a world in which rank 0 runs the root specialisation
and all others the worker specialisation of a function of the table completes all its collectives. -/
theorem code_collectives_complete (sem : List String → List Op) (n : Nat) (hn : 0 < n) (regs : List Int)
    (f : String × List String × List String) (hf : f ∈ Gen.collFns) :
    let w : World := ⟨sem f.2.1 :: List.replicate (n - 1) (sem f.2.2), regs⟩
    done (run (sem f.2.1).length w) = true := by
  intro w
  have h := code_traces_match f hf
  have hw : w = uniform n (sem f.2.1) regs := by
    obtain ⟨k, rfl⟩ : ∃ k, n = k + 1 := ⟨n - 1, by omega⟩
    simp [w, uniform, List.replicate_succ, h]
  rw [hw]
  exact (matched_completes n hn _ regs).1

/-- non-vacuity: three ranks, broadcast from rank 0 then a barrier — completes, everybody holds 7;
and a rank that skips the broadcast deadlocks the others -/
example : let w := run 2 (uniform 3 [⟨"bcast", 0⟩, ⟨"barrier", 0⟩] [7, 1, 2]); (done w, w.regs) = (true, [7, 7, 7]) := by decide
example : deadlocked ⟨[[⟨"bcast", 0⟩, ⟨"barrier", 0⟩], [⟨"barrier", 0⟩]], [7, 1]⟩ = true := by decide

end Yaw.C06C
