/-
  C08 — a crash never leaves a cache that is silently wrong.

  Main statement `crash_safe` / `crash_classified`: for EVERY workload (list of file-system
  operations of any length, any number of patches, any number of write calls per file) that obeys
  the write discipline `allowed` from a consistent disk, the disk after EVERY prefix is `Safe`:
  each use (open, read records, measure with any binning, read result files) either raises or
  returns exactly the content of ONE version — the one the id list names — and that version is
  the old one or the one the workload writes.

  The discipline is what ties this to the code: the C08 check replays the real system-call traces
  through `run` (the same executable definition) and compares every prefix with the real loaders.
-/
import YawVerif.Model.Crash

namespace Yaw.C08
open Yaw.Crash

/-! ### invariant -/

structure PInv (f : PF) : Prop where
  marker_np : f.marker ≠ .part
  marker_trees : ∀ b, f.marker = .full b → f.trees = .absent ∨ ∃ v, f.trees = .full v b
  trees_data : ∀ v b, f.trees = .full v b → f.data = .full v ∨ f.data = .absent
  meta_data : ∀ v, f.mta = .full v → f.data = .full v ∨ f.data = .absent

structure Inv (d : Disk) : Prop where
  ids_np : d.ids ≠ .part
  patch : ∀ p, PInv (d.pf p)
  sealed : ∀ v ps, d.ids = .full v ps → ∀ p ∈ ps,
      ((d.pf p).data = .full v ∨ (d.pf p).data = .absent) ∧
      (∀ v' b, (d.pf p).trees = .full v' b → v' = v) ∧
      (∀ v', (d.pf p).mta = .full v' → v' = v)
  text : ∀ v, d.smp = .full v → d.dat = .full v

/-- a use is safe for version `v` and binning `b`: it raises, or returns exactly that -/
def SafeR (v : Ver) (b : Bin) (r : R) : Prop := r = .err ∨ r = .ok v b

structure Safe (d : Disk) : Prop where
  ids : d.ids ≠ .part
  open_ : ∀ v ps, d.ids = .full v ps → ∀ p ∈ ps, SafeR v 0 (openPatch (d.pf p))
  records : ∀ v ps, d.ids = .full v ps → ∀ p ∈ ps, SafeR v 0 (readData (d.pf p))
  measure : ∀ b v ps, d.ids = .full v ps → ∀ p ∈ ps, SafeR v b (measurePatch (d.pf p) b)
  text : viewText d = .err ∨ ∃ v, viewText d = .ok v 0 ∧ d.dat = .full v ∧ d.smp = .full v

theorem empty_inv : Inv {} := by
  refine ⟨by simp, fun p => ⟨by simp, by simp, by simp, by simp⟩, by simp, by simp⟩

/-! ### the invariant implies safety -/

theorem safe_of_inv {d : Disk} (h : Inv d) : Safe d := by
  refine ⟨h.ids_np, ?_, ?_, ?_, ?_⟩
  · intro v ps hi p hp
    obtain ⟨hd, _, hm⟩ := h.sealed v ps hi p hp
    unfold SafeR openPatch
    cases hmeta : (d.pf p).mta with
    | full v' => simp [hm v' hmeta]
    | part => simp
    | absent => rcases hd with hd | hd <;> simp [hd]
  · intro v ps hi p hp
    obtain ⟨hd, _, _⟩ := h.sealed v ps hi p hp
    unfold SafeR readData
    rcases hd with hd | hd <;> simp [hd]
  · intro b v ps hi p hp
    obtain ⟨hd, ht, _⟩ := h.sealed v ps hi p hp
    have hp' := h.patch p
    unfold SafeR measurePatch
    cases hmk : (d.pf p).marker with
    | part => exact absurd hmk hp'.marker_np
    | absent => rcases hd with hd | hd <;> simp [hd]
    | full b' =>
      by_cases hb : b' = b
      · subst hb
        rcases hp'.marker_trees b' hmk with htr | ⟨v', htr⟩
        · simp [htr]
        · simp [htr, ht v' b' htr]
      · rcases hd with hd | hd <;> simp [hb, hd]
  · unfold viewText
    cases hdat : d.dat with
    | absent => simp
    | part => simp
    | full v =>
      cases hsmp : d.smp with
      | absent => simp
      | part => simp
      | full v' =>
        have := h.text v' hsmp
        rw [hdat] at this
        cases this
        simp

/-! ### every allowed operation preserves the invariant -/

theorem pf_setPF (d : Disk) (p q : Nat) (f : PF → PF) :
    (setPF d p f).pf q = if q = p then f (d.pf q) else d.pf q := rfl

private theorem dataVer_some {f : PF} {v : Ver} (h : dataVer f = some v) : f.data = .full v := by
  unfold dataVer at h
  cases hd : f.data <;> simp_all

private theorem isSome_dataVer {f : PF} (h : (dataVer f).isSome = true) : ∃ v, f.data = .full v := by
  cases hv : dataVer f with
  | none => simp [hv] at h
  | some v => exact ⟨v, dataVer_some hv⟩

/-- helper: an operation that only changes the files of patch `p`, keeping `ids`, `dat`, `smp` -/
private theorem inv_setPF {d : Disk} (h : Inv d) (p : Nat) (g : PF → PF)
    (hp : PInv (g (d.pf p)))
    (hs : ∀ v ps, d.ids = .full v ps → p ∈ ps →
      ((g (d.pf p)).data = .full v ∨ (g (d.pf p)).data = .absent) ∧
      (∀ v' b, (g (d.pf p)).trees = .full v' b → v' = v) ∧
      (∀ v', (g (d.pf p)).mta = .full v' → v' = v)) :
    Inv (setPF d p g) := by
  refine ⟨h.ids_np, ?_, ?_, h.text⟩
  · intro q
    rw [pf_setPF]
    split
    · next hq => subst hq; exact hp
    · exact h.patch q
  · intro v ps hi q hq
    rw [pf_setPF]
    split
    · next hqp => subst hqp; exact hs v ps hi hq
    · exact h.sealed v ps hi q hq

theorem step_inv {d : Disk} (h : Inv d) (op : Op) (ha : allowed d op = true) : Inv (apply d op) := by
  have hP := h.patch
  cases op with
  | unlinkIds => exact ⟨by simp [apply], h.patch, by simp [apply], h.text⟩
  | unlinkItmp => exact ⟨h.ids_np, h.patch, h.sealed, h.text⟩
  | creatItmp => exact ⟨h.ids_np, h.patch, h.sealed, h.text⟩
  | writeItmp v ps last => exact ⟨h.ids_np, h.patch, h.sealed, h.text⟩
  | creatIds => simp [allowed] at ha
  | writeIds v ps last => simp [allowed] at ha
  | creatMarker p => simp [allowed] at ha
  | writeMarker p b last => simp [allowed] at ha
  | mkPatch p => exact h
  | rmPatch p => exact h
  | otherResult => exact h
  | renameIds =>
    simp only [allowed] at ha
    cases hit : d.itmp with
    | absent => simp [hit] at ha
    | part => simp [hit] at ha
    | full v ps =>
      simp only [hit, List.all_eq_true, beq_iff_eq] at ha
      refine ⟨by simp [apply, hit], h.patch, ?_, h.text⟩
      intro v' ps' hi p hp
      simp only [apply, hit, IC.full.injEq] at hi
      obtain ⟨rfl, rfl⟩ := hi
      have hd := ha p hp
      refine ⟨Or.inl hd, ?_, ?_⟩
      · intro v' b htr
        rcases (hP p).trees_data v' b htr with h1 | h1 <;> rw [hd] at h1 <;> simp_all
      · intro v' hm
        rcases (hP p).meta_data v' hm with h1 | h1 <;> rw [hd] at h1 <;> simp_all
  | creatData p =>
    simp only [allowed, Bool.and_eq_true, beq_iff_eq] at ha
    obtain ⟨⟨⟨hi, hm⟩, ht⟩, hk⟩ := ha
    refine inv_setPF h p (fun f => { f with data := .part }) ⟨by simp [hk], by simp [hk], by simp [ht], by simp [hm]⟩ ?_
    intro v ps hids; rw [hi] at hids; cases hids
  | writeData p v last =>
    simp only [allowed, Bool.and_eq_true, beq_iff_eq] at ha
    obtain ⟨⟨⟨⟨hi, _⟩, hm⟩, ht⟩, hk⟩ := ha
    refine inv_setPF h p (fun f => { f with data := if last then .full v else .part }) ⟨by simp [hk], by simp [hk], by simp [ht], by simp [hm]⟩ ?_
    intro v ps hids; rw [hi] at hids; cases hids
  | unlinkData p =>
    refine inv_setPF h p (fun f => { f with data := .absent }) ⟨(hP p).marker_np, (hP p).marker_trees, by simp, by simp⟩ ?_
    intro v ps hi hp
    obtain ⟨_, h2, h3⟩ := h.sealed v ps hi p hp
    exact ⟨Or.inr rfl, h2, h3⟩
  | unlinkMeta p =>
    refine inv_setPF h p (fun f => { f with mta := .absent }) ⟨(hP p).marker_np, (hP p).marker_trees, (hP p).trees_data, by simp⟩ ?_
    intro v ps hi hp
    obtain ⟨h1, h2, _⟩ := h.sealed v ps hi p hp
    exact ⟨h1, h2, by simp⟩
  | creatMeta p =>
    refine inv_setPF h p (fun f => { f with mta := .part }) ⟨(hP p).marker_np, (hP p).marker_trees, (hP p).trees_data, by simp⟩ ?_
    intro v ps hi hp
    obtain ⟨h1, h2, _⟩ := h.sealed v ps hi p hp
    exact ⟨h1, h2, by simp⟩
  | writeMeta p last =>
    simp only [allowed, Bool.and_eq_true, beq_iff_eq] at ha
    obtain ⟨v, hv⟩ := isSome_dataVer ha.1
    have hdv : dataVer (d.pf p) = some v := by simp [dataVer, hv]
    refine inv_setPF h p (fun f => { f with mta := match dataVer f with
                       | some v => if last then .full v else .part
                       | none => .part }) ⟨(hP p).marker_np, (hP p).marker_trees, (hP p).trees_data, ?_⟩ ?_
    · intro v'
      simp only [hdv]
      split <;> simp_all
    · intro v' ps hi hp
      obtain ⟨h1, h2, _⟩ := h.sealed v' ps hi p hp
      refine ⟨h1, h2, ?_⟩
      intro w
      simp only [hdv]
      rcases h1 with h1 | h1 <;> rw [hv] at h1
      · cases h1; split <;> simp_all
      · cases h1
  | unlinkMarker p =>
    refine inv_setPF h p (fun f => { f with marker := .absent }) ⟨by simp, by simp, (hP p).trees_data, (hP p).meta_data⟩ ?_
    intro v ps hi hp; exact h.sealed v ps hi p hp
  | unlinkMtmp p =>
    refine inv_setPF h p (fun f => { f with mtmp := .absent }) ⟨(hP p).marker_np, (hP p).marker_trees, (hP p).trees_data, (hP p).meta_data⟩ ?_
    intro v ps hi hp; exact h.sealed v ps hi p hp
  | creatMtmp p =>
    refine inv_setPF h p (fun f => { f with mtmp := .part }) ⟨(hP p).marker_np, (hP p).marker_trees, (hP p).trees_data, (hP p).meta_data⟩ ?_
    intro v ps hi hp; exact h.sealed v ps hi p hp
  | writeMtmp p b last =>
    refine inv_setPF h p (fun f => { f with mtmp := if last then .full b else .part }) ⟨(hP p).marker_np, (hP p).marker_trees, (hP p).trees_data, (hP p).meta_data⟩ ?_
    intro v ps hi hp; exact h.sealed v ps hi p hp
  | unlinkTrees p =>
    refine inv_setPF h p (fun f => { f with trees := .absent }) ⟨(hP p).marker_np, by simp, by simp, (hP p).meta_data⟩ ?_
    intro v ps hi hp
    obtain ⟨h1, _, h3⟩ := h.sealed v ps hi p hp
    exact ⟨h1, by simp, h3⟩
  | creatTrees p =>
    simp only [allowed, beq_iff_eq] at ha
    refine inv_setPF h p (fun f => { f with trees := .part }) ⟨(hP p).marker_np, by simp [ha], by simp, (hP p).meta_data⟩ ?_
    intro v ps hi hp
    obtain ⟨h1, _, h3⟩ := h.sealed v ps hi p hp
    exact ⟨h1, by simp, h3⟩
  | writeTrees p b last =>
    simp only [allowed, Bool.and_eq_true, beq_iff_eq] at ha
    obtain ⟨⟨hk, _⟩, hsome⟩ := ha
    obtain ⟨v, hv⟩ := isSome_dataVer hsome
    have hdv : dataVer (d.pf p) = some v := by simp [dataVer, hv]
    refine inv_setPF h p (fun f => { f with trees := match dataVer f with
                        | some v => if last then .full v b else .part
                        | none => .part }) ⟨(hP p).marker_np, by simp [hk], ?_, (hP p).meta_data⟩ ?_
    · intro v' b'
      simp only [hdv]
      split <;> simp_all
    · intro v' ps hi hp
      obtain ⟨h1, _, h3⟩ := h.sealed v' ps hi p hp
      refine ⟨h1, ?_, h3⟩
      intro w b'
      simp only [hdv]
      rcases h1 with h1 | h1 <;> rw [hv] at h1
      · cases h1; split <;> simp_all
      · cases h1
  | renameMarker p =>
    simp only [allowed] at ha
    cases hmt : (d.pf p).mtmp with
    | absent => simp [hmt] at ha
    | part => simp [hmt] at ha
    | full b =>
      simp only [hmt, treesMatch] at ha
      cases htr : (d.pf p).trees with
      | absent => simp [htr] at ha
      | part => simp [htr] at ha
      | full v b' =>
        simp only [htr, beq_iff_eq] at ha
        subst ha
        refine inv_setPF h p (fun f => { f with marker := f.mtmp, mtmp := .absent }) ⟨by simp [hmt], ?_, (hP p).trees_data, (hP p).meta_data⟩ ?_
        · intro b hb
          simp only [hmt, MC.full.injEq] at hb
          subst hb
          exact Or.inr ⟨v, htr⟩
        · intro v ps hi hp; exact h.sealed v ps hi p hp
  | unlinkSmp => exact ⟨h.ids_np, h.patch, h.sealed, by simp [apply]⟩
  | unlinkDat =>
    simp only [allowed, beq_iff_eq] at ha
    exact ⟨h.ids_np, h.patch, h.sealed, by simp [apply, ha]⟩
  | creatDat =>
    simp only [allowed, beq_iff_eq] at ha
    exact ⟨h.ids_np, h.patch, h.sealed, by simp [apply, ha]⟩
  | writeDat v last =>
    simp only [allowed, Bool.and_eq_true, beq_iff_eq] at ha
    exact ⟨h.ids_np, h.patch, h.sealed, by simp [apply, ha.1]⟩
  | creatSmp => exact ⟨h.ids_np, h.patch, h.sealed, by simp [apply]⟩
  | writeSmp last =>
    refine ⟨h.ids_np, h.patch, h.sealed, ?_⟩
    intro v
    simp only [apply]
    cases hd : d.dat with
    | absent => simp
    | part => simp
    | full w => cases last <;> simp
  | creatHdf => exact ⟨h.ids_np, h.patch, h.sealed, h.text⟩
  | writeHdf v last => exact ⟨h.ids_np, h.patch, h.sealed, h.text⟩

/-! ### main theorems -/

/-- MAIN: whatever prefix of a disciplined workload was executed when the process died, the disk
    is safe. -/
theorem crash_safe (ops : List Op) : ∀ (d0 dN : Disk), Inv d0 → run d0 ops = some dN →
    ∀ s ∈ prefixStates d0 ops, Safe s := by
  induction ops with
  | nil =>
    intro d0 dN h0 _ s hs
    simp only [prefixStates, List.mem_singleton] at hs
    subst hs
    exact safe_of_inv h0
  | cons op ops ih =>
    intro d0 dN h0 hrun s hs
    simp only [prefixStates, List.mem_cons] at hs
    simp only [run] at hrun
    split at hrun
    · next ha =>
      rcases hs with rfl | hs
      · exact safe_of_inv h0
      · exact ih (apply d0 op) dN (step_inv h0 op ha) hrun s hs
    · cases hrun

/-- the completed workload leaves a consistent disk again (workloads compose) -/
theorem run_inv (ops : List Op) : ∀ (d0 dN : Disk), Inv d0 → run d0 ops = some dN → Inv dN := by
  induction ops with
  | nil => intro d0 dN h0 hr; simp only [run, Option.some.injEq] at hr; subst hr; exact h0
  | cons op ops ih =>
    intro d0 dN h0 hrun
    simp only [run] at hrun
    split at hrun
    · next ha => exact ih _ _ (step_inv h0 op ha) hrun
    · cases hrun

/-! ### the combined views: error, or exactly the version of the id list -/

theorem combine_safe (v : Ver) (b : Bin) (rs : List R) (h : ∀ r ∈ rs, SafeR v b r) :
    combine v b rs = .err ∨ combine v b rs = .ok v b := by
  unfold combine
  have hno : rs.any (isBad v b) = false := by
    rw [List.any_eq_false]
    intro r hr
    rcases h r hr with rfl | rfl <;> simp [isBad]
  rw [hno]
  simp only [Bool.false_eq_true, ↓reduceIte]
  split <;> simp

theorem view_safe {d : Disk} (h : Safe d) (b : Bin) :
    (viewOpen d = .err ∨ ∃ v ps, d.ids = .full v ps ∧ viewOpen d = .ok v 0) ∧
    (viewRecords d = .err ∨ ∃ v ps, d.ids = .full v ps ∧ viewRecords d = .ok v 0) ∧
    (viewMeasure d b = .err ∨ ∃ v ps, d.ids = .full v ps ∧ viewMeasure d b = .ok v b) := by
  unfold viewOpen viewRecords viewMeasure viewCatalog
  cases hi : d.ids with
  | absent => simp
  | part => exact absurd hi h.ids
  | full v ps =>
    refine ⟨?_, ?_, ?_⟩
    · rcases combine_safe v 0 (ps.map fun p => openPatch (d.pf p)) (by
        intro r hr; simp only [List.mem_map] at hr; obtain ⟨p, hp, rfl⟩ := hr
        exact h.open_ v ps hi p hp) with h1 | h1
      · exact Or.inl h1
      · exact Or.inr ⟨v, ps, rfl, h1⟩
    · rcases combine_safe v 0 (ps.map fun p => readData (d.pf p)) (by
        intro r hr; simp only [List.mem_map] at hr; obtain ⟨p, hp, rfl⟩ := hr
        exact h.records v ps hi p hp) with h1 | h1
      · exact Or.inl h1
      · exact Or.inr ⟨v, ps, rfl, h1⟩
    · rcases combine_safe v b (ps.map fun p => measurePatch (d.pf p) b) (by
        intro r hr; simp only [List.mem_map] at hr; obtain ⟨p, hp, rfl⟩ := hr
        exact h.measure b v ps hi p hp) with h1 | h1
      · exact Or.inl h1
      · exact Or.inr ⟨v, ps, rfl, h1⟩

/-! ### old or new: which versions can be seen -/

/-- the versions a workload writes -/
def opVer (v1 : Ver) : Op → Bool
  | .writeItmp v _ _ | .writeIds v _ _ | .writeData _ v _ | .writeDat v _ | .writeHdf v _ => v == v1
  | _ => true

structure VerInv (v0 v1 : Ver) (d : Disk) : Prop where
  ids : ∀ v ps, d.ids = .full v ps → v = v0 ∨ v = v1
  itmp : ∀ v ps, d.itmp = .full v ps → v = v0 ∨ v = v1
  dat : ∀ v, d.dat = .full v → v = v0 ∨ v = v1
  hdf : ∀ v, d.hdf = .full v → v = v0 ∨ v = v1

theorem step_ver {v0 v1 : Ver} {d : Disk} (h : VerInv v0 v1 d) (op : Op) (hv : opVer v1 op = true) :
    VerInv v0 v1 (apply d op) := by
  cases op with
  | unlinkIds => exact ⟨by simp [apply], h.itmp, h.dat, h.hdf⟩
  | unlinkItmp => exact ⟨h.ids, by simp [apply], h.dat, h.hdf⟩
  | creatItmp => exact ⟨h.ids, by simp [apply], h.dat, h.hdf⟩
  | writeItmp v ps last =>
    simp only [opVer, beq_iff_eq] at hv
    refine ⟨h.ids, ?_, h.dat, h.hdf⟩
    intro v' ps' hx
    simp only [apply] at hx
    split at hx <;> simp_all
  | renameIds => exact ⟨fun v ps hx => h.itmp v ps hx, by simp [apply], h.dat, h.hdf⟩
  | creatIds => exact ⟨by simp [apply], h.itmp, h.dat, h.hdf⟩
  | writeIds v ps last =>
    simp only [opVer, beq_iff_eq] at hv
    refine ⟨?_, h.itmp, h.dat, h.hdf⟩
    intro v' ps' hx
    simp only [apply] at hx
    split at hx <;> simp_all
  | unlinkDat => exact ⟨h.ids, h.itmp, by simp [apply], h.hdf⟩
  | creatDat => exact ⟨h.ids, h.itmp, by simp [apply], h.hdf⟩
  | writeDat v last =>
    simp only [opVer, beq_iff_eq] at hv
    refine ⟨h.ids, h.itmp, ?_, h.hdf⟩
    intro v' hx
    simp only [apply] at hx
    split at hx <;> simp_all
  | creatHdf => exact ⟨h.ids, h.itmp, h.dat, by simp [apply]⟩
  | writeHdf v last =>
    simp only [opVer, beq_iff_eq] at hv
    refine ⟨h.ids, h.itmp, h.dat, ?_⟩
    intro v' hx
    simp only [apply] at hx
    split at hx <;> simp_all
  | _ => exact ⟨h.ids, h.itmp, h.dat, h.hdf⟩

theorem prefix_ver (v0 v1 : Ver) (ops : List Op) (hops : ∀ op ∈ ops, opVer v1 op = true) :
    ∀ d0, VerInv v0 v1 d0 → ∀ s ∈ prefixStates d0 ops, VerInv v0 v1 s := by
  induction ops with
  | nil => intro d0 h0 s hs; simp only [prefixStates, List.mem_singleton] at hs; subst hs; exact h0
  | cons op ops ih =>
    intro d0 h0 s hs
    simp only [prefixStates, List.mem_cons] at hs
    rcases hs with rfl | hs
    · exact h0
    · exact ih (fun o ho => hops o (List.mem_cons_of_mem _ ho)) _
        (step_ver h0 op (hops op List.mem_cons_self)) s hs

/-- MAIN (classified): after any prefix of a disciplined workload that writes version `v1` onto a
    consistent disk of version `v0`, every use raises or returns exactly the old or exactly the new
    content, and all uses agree on which. -/
theorem crash_classified (v0 v1 : Ver) (ops : List Op) (d0 dN : Disk) (h0 : Inv d0) (hv0 : VerInv v0 v1 d0)
    (hrun : run d0 ops = some dN) (hops : ∀ op ∈ ops, opVer v1 op = true) :
    ∀ s ∈ prefixStates d0 ops, ∀ b,
      (∃ v, (v = v0 ∨ v = v1) ∧
        (viewOpen s = .err ∨ viewOpen s = .ok v 0) ∧
        (viewRecords s = .err ∨ viewRecords s = .ok v 0) ∧
        (viewMeasure s b = .err ∨ viewMeasure s b = .ok v b)) ∧
      (viewText s = .err ∨ viewText s = .ok v0 0 ∨ viewText s = .ok v1 0) ∧
      (viewHdf s = .err ∨ viewHdf s = .ok v0 0 ∨ viewHdf s = .ok v1 0) := by
  intro s hs b
  have hsafe := crash_safe ops d0 dN h0 hrun s hs
  have hver := prefix_ver v0 v1 ops hops d0 hv0 s hs
  obtain ⟨ho, hr, hm⟩ := view_safe hsafe b
  refine ⟨?_, ?_, ?_⟩
  · cases hi : s.ids with
    | absent =>
      refine ⟨v0, Or.inl rfl, ?_, ?_, ?_⟩ <;> simp [viewOpen, viewRecords, viewMeasure, viewCatalog, hi]
    | part => exact absurd hi hsafe.ids
    | full v ps =>
      refine ⟨v, hver.ids v ps hi, ?_, ?_, ?_⟩
      · rcases ho with h | ⟨v', ps', hi', h⟩
        · exact Or.inl h
        · rw [hi] at hi'; cases hi'; exact Or.inr h
      · rcases hr with h | ⟨v', ps', hi', h⟩
        · exact Or.inl h
        · rw [hi] at hi'; cases hi'; exact Or.inr h
      · rcases hm with h | ⟨v', ps', hi', h⟩
        · exact Or.inl h
        · rw [hi] at hi'; cases hi'; exact Or.inr h
  · rcases hsafe.text with h | ⟨v, h, hd, _⟩
    · exact Or.inl h
    · rcases hver.dat v hd with rfl | rfl
      · exact Or.inr (Or.inl h)
      · exact Or.inr (Or.inr h)
  · unfold viewHdf
    cases hh : s.hdf with
    | absent => simp
    | part => simp
    | full v => rcases hver.hdf v hh with rfl | rfl <;> simp

/-! ### the generated write order obeys the discipline (instances), the unrepaired order does not -/

theorem flags : Gen.idsAtomic = true ∧ Gen.markerInvalidatedFirst = true ∧ Gen.markerAtomic = true ∧
    Gen.smpInvalidatedFirst = true := by decide

/-- a complete catalog of version 0 with patches 0,1 holding trees for binning 1 -/
def oldDisk : Disk :=
  { ids := .full 0 [0, 1],
    pf := fun p => if p < 2 then { data := .full 0, mta := .full 0, trees := .full 0 1, marker := .full 1 } else {},
    dat := .full 0, smp := .full 0, hdf := .full 0 }

theorem oldDisk_inv : Inv oldDisk := by
  refine ⟨by simp [oldDisk], ?_, ?_, by simp [oldDisk]⟩
  · intro p
    by_cases hp : p < 2 <;> refine ⟨?_, ?_, ?_, ?_⟩ <;> simp [oldDisk, hp]
  · intro v ps hi p hp
    simp only [oldDisk, IC.full.injEq] at hi
    obtain ⟨rfl, rfl⟩ := hi
    have : p < 2 := by simp at hp; omega
    simp [oldDisk, this]

/-- overwrite of the catalog (remove everything, create two patches, install the id list) -/
def overwriteOps : List Op :=
  [.unlinkMeta 0, .unlinkData 0, .unlinkTrees 0, .unlinkMarker 0, .rmPatch 0,
   .unlinkMeta 1, .unlinkData 1, .unlinkTrees 1, .unlinkMarker 1, .rmPatch 1, .unlinkIds,
   .mkPatch 0, .creatData 0, .writeData 0 1 false, .mkPatch 1, .creatData 1, .writeData 1 1 false,
   .writeData 0 1 true, .writeData 1 1 true]
  ++ finalizeOps Gen.idsAtomic 1 [0, 1] 1
  ++ [.creatMeta 0, .writeMeta 0 true, .creatMeta 1, .writeMeta 1 true]

/-- non-vacuity: the hypotheses of `crash_classified` are met by a non-trivial workload -/
example : (run oldDisk overwriteOps).isSome = true := by decide
example : ∀ op ∈ overwriteOps, opVer 1 op = true := by decide
example : (run oldDisk (buildOps Gen.markerInvalidatedFirst Gen.markerAtomic true 0 2 3 2)).isSome = true := by decide
example : (run oldDisk (toFilesOps Gen.smpInvalidatedFirst true 1 2 2)).isSome = true := by decide

/-- the write order before the repairs is rejected by the discipline … -/
example : (run oldDisk (buildOps false false true 0 2 1 2)).isSome = false := by decide
example : (run {} (finalizeOps false 1 [] 1)).isSome = false := by decide
example : (run oldDisk (toFilesOps false true 1 1 1)).isSome = false := by decide

/-- … and really is unsafe: witnesses of silently wrong states among its crash points -/
theorem rebuild_without_invalidation_unsafe :
    ∃ s ∈ prefixStates oldDisk (buildOps false false true 0 2 1 2), viewMeasure s 1 = .garbage := by
  exact ⟨(prefixStates oldDisk (buildOps false false true 0 2 1 2))[2]'(by decide), List.getElem_mem _, by decide⟩

theorem inplace_ids_unsafe :
    ∃ s ∈ prefixStates ({} : Disk) (finalizeOps false 1 [0] 1), viewOpen s = .garbage := by
  exact ⟨(prefixStates ({} : Disk) (finalizeOps false 1 [0] 1))[1]'(by decide), List.getElem_mem _, by decide⟩

theorem stale_samples_unsafe :
    ∃ s ∈ prefixStates oldDisk (toFilesOps false true 1 1 1), viewText s = .garbage := by
  exact ⟨(prefixStates oldDisk (toFilesOps false true 1 1 1))[2]'(by decide), List.getElem_mem _, by decide⟩

/-! ### the write orders the translator reads off the code are accepted for ALL sizes -/

theorem run_append (a b : List Op) : ∀ d, run d (a ++ b) = (run d a).bind fun d' => run d' b := by
  induction a with
  | nil => intro d; rfl
  | cons op a ih =>
    intro d
    simp only [List.cons_append, run]
    split
    · exact ih _
    · rfl

theorem run_cons_allowed {d : Disk} {op : Op} {ops : List Op} (h : allowed d op = true) :
    run d (op :: ops) = run (apply d op) ops := by simp [run, h]

private theorem run_writeTrees (p : Nat) (b : Bin) (v : Ver) : ∀ (n : Nat) (d : Disk),
    (d.pf p).marker = .absent → (d.pf p).trees = .part → (d.pf p).data = .full v →
    ∃ d', run d (writes (n + 1) (Op.writeTrees p b)) = some d' ∧ (d'.pf p).trees = .full v b ∧
      (d'.pf p).marker = .absent ∧ (d'.pf p).data = .full v := by
  intro n
  induction n with
  | zero =>
    intro d hm ht hd
    refine ⟨apply d (.writeTrees p b true), ?_, ?_, ?_, ?_⟩
    · simp [writes, run, allowed, hm, ht, dataVer, hd]
    · simp [apply, setPF, dataVer, hd]
    · simp [apply, setPF, hm]
    · simp [apply, setPF, hd]
  | succ n ih =>
    intro d hm ht hd
    have hal : allowed d (.writeTrees p b false) = true := by simp [allowed, hm, ht, dataVer, hd]
    obtain ⟨d', hr, h1, h2, h3⟩ := ih (apply d (.writeTrees p b false))
      (by simp [apply, setPF, hm]) (by simp [apply, setPF, dataVer, hd]) (by simp [apply, setPF, hd])
    exact ⟨d', by simp only [writes, run, hal, ↓reduceIte]; exact hr, h1, h2, h3⟩

private theorem run_writeMtmp (p : Nat) (b : Bin) : ∀ (n : Nat) (d : Disk),
    ∃ d', run d (writes (n + 1) (Op.writeMtmp p b)) = some d' ∧ (d'.pf p).mtmp = .full b ∧
      (d'.pf p).trees = (d.pf p).trees := by
  intro n
  induction n with
  | zero =>
    intro d
    exact ⟨apply d (.writeMtmp p b true), by simp [writes, run, allowed], by simp [apply, setPF], by simp [apply, setPF]⟩
  | succ n ih =>
    intro d
    obtain ⟨d', hr, h1, h2⟩ := ih (apply d (.writeMtmp p b false))
    refine ⟨d', by simp only [writes, run, allowed, ↓reduceIte]; exact hr, h1, ?_⟩
    rw [h2]; simp [apply, setPF]

/-- `BinnedTrees.build` as generated (marker removed first, installed by rename): accepted by the
    discipline for every number of write calls, whatever trees were cached before -/
theorem build_accepted (d : Disk) (p : Nat) (b : Bin) (v : Ver) (nt nm : Nat) (hadMarker : Bool)
    (hd : (d.pf p).data = .full v) (hm : hadMarker = false → (d.pf p).marker = .absent) :
    (run d (buildOps Gen.markerInvalidatedFirst Gen.markerAtomic hadMarker p b (nt + 1) (nm + 1))).isSome = true := by
  have hflags : Gen.markerInvalidatedFirst = true ∧ Gen.markerAtomic = true := ⟨rfl, rfl⟩
  simp only [buildOps, hflags.1, hflags.2, Bool.true_and, ↓reduceIte]
  -- state after the optional unlink: the marker is absent
  obtain ⟨d1, hr1, hm1, hd1⟩ : ∃ d1, run d (if hadMarker = true then [Op.unlinkMarker p] else []) = some d1 ∧
      (d1.pf p).marker = .absent ∧ (d1.pf p).data = .full v := by
    cases hadMarker with
    | true => exact ⟨apply d (.unlinkMarker p), by simp [run, allowed], by simp [apply, setPF], by simp [apply, setPF, hd]⟩
    | false => exact ⟨d, by simp [run], hm rfl, hd⟩
  have hal2 : allowed d1 (.creatTrees p) = true := by simp [allowed, hm1]
  let d2 := apply d1 (.creatTrees p)
  obtain ⟨d3, hr3, ht3, hm3, _⟩ := run_writeTrees p b v nt d2
    (by simp [d2, apply, setPF, hm1]) (by simp [d2, apply, setPF]) (by simp [d2, apply, setPF, hd1])
  let d4 := apply d3 (.creatMtmp p)
  obtain ⟨d5, hr5, hmt5, htr5⟩ := run_writeMtmp p b nm d4
  have htr5' : (d5.pf p).trees = .full v b := by rw [htr5]; simp [d4, apply, setPF, ht3]
  have hal6 : allowed d5 (.renameMarker p) = true := by simp [allowed, hmt5, treesMatch, htr5']
  have hlist : (if hadMarker = true then [Op.unlinkMarker p] else []) ++ [Op.creatTrees p] ++
      writes (nt + 1) (Op.writeTrees p b) ++ ([Op.creatMtmp p] ++ writes (nm + 1) (Op.writeMtmp p b) ++ [Op.renameMarker p])
      = (if hadMarker = true then [Op.unlinkMarker p] else []) ++ (Op.creatTrees p ::
        (writes (nt + 1) (Op.writeTrees p b) ++ (Op.creatMtmp p :: (writes (nm + 1) (Op.writeMtmp p b) ++ [Op.renameMarker p])))) := by
    simp [List.append_assoc]
  rw [hlist]
  have e1 := run_append (if hadMarker = true then [Op.unlinkMarker p] else []) (Op.creatTrees p ::
        (writes (nt + 1) (Op.writeTrees p b) ++ (Op.creatMtmp p :: (writes (nm + 1) (Op.writeMtmp p b) ++ [Op.renameMarker p])))) d
  rw [e1, hr1, Option.bind_some, run_cons_allowed hal2]
  have e3 := run_append (writes (nt + 1) (Op.writeTrees p b))
    (Op.creatMtmp p :: (writes (nm + 1) (Op.writeMtmp p b) ++ [Op.renameMarker p])) d2
  rw [e3, hr3, Option.bind_some, run_cons_allowed (show allowed d3 (.creatMtmp p) = true by simp [allowed])]
  have e5 := run_append (writes (nm + 1) (Op.writeMtmp p b)) [Op.renameMarker p] d4
  rw [e5, hr5, Option.bind_some, run_cons_allowed hal6]
  simp [run]

/-- … hence every crash point of a (re)build, for any binning history, is safe -/
theorem build_crash_safe (d : Disk) (hinv : Inv d) (p : Nat) (b : Bin) (v : Ver) (nt nm : Nat) (hadMarker : Bool)
    (hd : (d.pf p).data = .full v) (hm : hadMarker = false → (d.pf p).marker = .absent) :
    ∀ s ∈ prefixStates d (buildOps Gen.markerInvalidatedFirst Gen.markerAtomic hadMarker p b (nt + 1) (nm + 1)), Safe s := by
  have hacc := build_accepted d p b v nt nm hadMarker hd hm
  obtain ⟨dN, hN⟩ := Option.isSome_iff_exists.mp hacc
  exact crash_safe _ d dN hinv hN

private theorem run_writeItmp (v : Ver) (ps : List Nat) : ∀ (n : Nat) (d : Disk),
    ∃ d', run d (writes (n + 1) (Op.writeItmp v ps)) = some d' ∧ d'.itmp = .full v ps ∧ d'.pf = d.pf := by
  intro n
  induction n with
  | zero => intro d; exact ⟨apply d (.writeItmp v ps true), by simp [writes, run, allowed], by simp [apply], rfl⟩
  | succ n ih =>
    intro d
    obtain ⟨d', hr, h1, h2⟩ := ih (apply d (.writeItmp v ps false))
    exact ⟨d', by simp only [writes, run, allowed, ↓reduceIte]; exact hr, h1, by rw [h2]; rfl⟩

/-- `CatalogWriter.finalize` as generated (id list written to a temporary file, then renamed): accepted
    whenever the data files of the listed patches are complete -/
theorem finalize_accepted (d : Disk) (v : Ver) (ps : List Nat) (n : Nat) (h : ∀ p ∈ ps, (d.pf p).data = .full v) :
    (run d (finalizeOps Gen.idsAtomic v ps (n + 1))).isSome = true := by
  have hflag : Gen.idsAtomic = true := rfl
  simp only [finalizeOps, hflag, ↓reduceIte]
  have hlist : [Op.creatItmp] ++ writes (n + 1) (Op.writeItmp v ps) ++ [Op.renameIds]
      = Op.creatItmp :: (writes (n + 1) (Op.writeItmp v ps) ++ [Op.renameIds]) := by simp
  rw [hlist, run_cons_allowed (show allowed d .creatItmp = true by simp [allowed])]
  obtain ⟨d2, hr2, hi2, hpf2⟩ := run_writeItmp v ps n (apply d .creatItmp)
  have hal : allowed d2 .renameIds = true := by
    simp only [allowed, hi2, List.all_eq_true, beq_iff_eq]
    intro p hp
    rw [hpf2]
    exact h p hp
  rw [run_append, hr2, Option.bind_some, run_cons_allowed hal]
  simp [run]

theorem finalize_crash_safe (d : Disk) (hinv : Inv d) (v : Ver) (ps : List Nat) (n : Nat)
    (h : ∀ p ∈ ps, (d.pf p).data = .full v) :
    ∀ s ∈ prefixStates d (finalizeOps Gen.idsAtomic v ps (n + 1)), Safe s := by
  obtain ⟨dN, hN⟩ := Option.isSome_iff_exists.mp (finalize_accepted d v ps n h)
  exact crash_safe _ d dN hinv hN

private theorem run_writeDat (v : Ver) : ∀ (n : Nat) (d : Disk), d.smp = .absent → d.dat = .part →
    ∃ d', run d (writes (n + 1) (Op.writeDat v)) = some d' ∧ d'.dat = .full v ∧ d'.smp = .absent := by
  intro n
  induction n with
  | zero =>
    intro d hs hd
    exact ⟨apply d (.writeDat v true), by simp [writes, run, allowed, hs, hd], by simp [apply], by simp [apply, hs]⟩
  | succ n ih =>
    intro d hs hd
    have hal : allowed d (.writeDat v false) = true := by simp [allowed, hs, hd]
    obtain ⟨d', hr, h1, h2⟩ := ih (apply d (.writeDat v false)) (by simp [apply, hs]) (by simp [apply])
    exact ⟨d', by simp only [writes, run, hal, ↓reduceIte]; exact hr, h1, h2⟩

private theorem run_writeSmp (v : Ver) : ∀ (n : Nat) (d : Disk), d.dat = .full v → d.smp = .part →
    ∃ d', run d (writes (n + 1) Op.writeSmp) = some d' := by
  intro n
  induction n with
  | zero =>
    intro d hd hs
    exact ⟨apply d (.writeSmp true), by simp [writes, run, allowed, hs, hd]⟩
  | succ n ih =>
    intro d hd hs
    have hal : allowed d (.writeSmp false) = true := by simp [allowed, hs, hd]
    obtain ⟨d', hr⟩ := ih (apply d (.writeSmp false)) (by simp [apply, hd]) (by simp [apply, hd])
    exact ⟨d', by simp only [writes, run, hal, ↓reduceIte]; exact hr⟩

/-- `to_files` as generated (older samples removed first): accepted over any earlier result -/
theorem toFiles_accepted (d : Disk) (v : Ver) (nd ns : Nat) (hadSmp : Bool) (h : hadSmp = false → d.smp = .absent) :
    (run d (toFilesOps Gen.smpInvalidatedFirst hadSmp v (nd + 1) (ns + 1))).isSome = true := by
  have hflag : Gen.smpInvalidatedFirst = true := rfl
  simp only [toFilesOps, hflag, Bool.true_and]
  obtain ⟨d1, hr1, hs1⟩ : ∃ d1, run d (if hadSmp = true then [Op.unlinkSmp] else []) = some d1 ∧ d1.smp = .absent := by
    cases hadSmp with
    | true => exact ⟨apply d .unlinkSmp, by simp [run, allowed], by simp [apply]⟩
    | false => exact ⟨d, by simp [run], h rfl⟩
  have hlist : (if hadSmp = true then [Op.unlinkSmp] else []) ++ [Op.creatDat] ++ writes (nd + 1) (Op.writeDat v) ++
      [Op.creatSmp] ++ writes (ns + 1) Op.writeSmp
      = (if hadSmp = true then [Op.unlinkSmp] else []) ++ (Op.creatDat :: (writes (nd + 1) (Op.writeDat v) ++
        (Op.creatSmp :: writes (ns + 1) Op.writeSmp))) := by simp [List.append_assoc]
  rw [hlist, run_append, hr1, Option.bind_some,
    run_cons_allowed (show allowed d1 .creatDat = true by simp [allowed, hs1])]
  obtain ⟨d3, hr3, hd3, hs3⟩ := run_writeDat v nd (apply d1 .creatDat) (by simp [apply, hs1]) (by simp [apply])
  rw [run_append, hr3, Option.bind_some,
    run_cons_allowed (show allowed d3 .creatSmp = true by simp [allowed, hd3])]
  obtain ⟨d5, hr5⟩ := run_writeSmp v ns (apply d3 .creatSmp) (by simp [apply, hd3]) (by simp [apply])
  rw [hr5]; rfl

theorem toFiles_crash_safe (d : Disk) (hinv : Inv d) (v : Ver) (nd ns : Nat) (hadSmp : Bool)
    (h : hadSmp = false → d.smp = .absent) :
    ∀ s ∈ prefixStates d (toFilesOps Gen.smpInvalidatedFirst hadSmp v (nd + 1) (ns + 1)), Safe s := by
  obtain ⟨dN, hN⟩ := Option.isSome_iff_exists.mp (toFiles_accepted d v nd ns hadSmp h)
  exact crash_safe _ d dN hinv hN

/-- the model's abstraction of file-system glue is tied to the source by fingerprints -/
theorem glue_pinned :
    Gen.pinFinalizeCr = "cb7ae89b7341577a" ∧ Gen.pinReadPatchIdsCr = "4b1dd1914028537d" ∧
    Gen.pinTreesBuild2Cr = "fed03c5ad7ad2348" ∧ Gen.pinToFilesCr = "37b953e1dfad0fca" ∧
    Gen.pinTextWritersCr = "4d12b7841833206b" ∧ Gen.pinPatchInitCr = "578d83fa2df925ec" ∧
    Gen.pinPatchWriterCr = "3721da36afff03c9" := by decide

end Yaw.C08
