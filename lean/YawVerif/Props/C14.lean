/-
  C14 — spherical geometry primitives, over ℝ, on the formulas GENERATED from coordinates.py.
-/
import YawVerif.Generated.SphereReal
import Mathlib.Analysis.SpecialFunctions.Trigonometric.Inverse
import Mathlib.Analysis.InnerProductSpace.PiL2
import Mathlib.Geometry.Euclidean.Angle.Unoriented.TriangleInequality
import Mathlib.Tactic.Linarith
import Mathlib.Tactic.Ring
import Mathlib.Tactic.Positivity

namespace Yaw.C14
open Yaw Yaw.GenR Real

/-- the vector of a sky position lies on the unit sphere -/
theorem toVec_unit (ra dec : ℝ) : toVecX ra dec ^ 2 + toVecY ra dec ^ 2 + toVecZ ra dec ^ 2 = 1 := by
  unfold toVecX toVecY toVecZ
  have h1 := Real.cos_sq_add_sin_sq ra
  have h2 := Real.cos_sq_add_sin_sq dec
  nlinarith [sq_nonneg (cos dec), sq_nonneg (sin dec)]

/-- angle → chord → angle is the identity on [0, π] -/
theorem angle_chord_inverse (t : ℝ) (h0 : 0 ≤ t) (h1 : t ≤ π) : angleOfChord (chordOfAngle t) = t := by
  unfold angleOfChord chordOfAngle
  have : (2 : ℝ) * sin (t / 2) / 2 = sin (t / 2) := by ring
  rw [this, Real.arcsin_sin (by linarith [pi_pos]) (by linarith)]
  ring

/-- chord → angle → chord is the identity on [0, 2] -/
theorem chord_angle_inverse (d : ℝ) (h0 : 0 ≤ d) (h1 : d ≤ 2) : chordOfAngle (angleOfChord d) = d := by
  unfold angleOfChord chordOfAngle
  have : (2 : ℝ) * arcsin (d / 2) / 2 = arcsin (d / 2) := by ring
  rw [this, Real.sin_arcsin (by linarith) (by linarith)]
  ring

/-- the angle → chord map is strictly increasing on [0, π] (order preserving) … -/
theorem chord_strictMono : StrictMonoOn chordOfAngle (Set.Icc 0 π) := by
  intro a ha b hb hab
  unfold chordOfAngle
  have : sin (a / 2) < sin (b / 2) := by
    apply Real.strictMonoOn_sin
    · constructor <;> linarith [ha.1, ha.2, pi_pos]
    · constructor <;> linarith [hb.1, hb.2, pi_pos]
    · linarith
  linarith

/-- … and so is the chord → angle map on [0, 2] -/
theorem angle_strictMono : StrictMonoOn angleOfChord (Set.Icc 0 2) := by
  intro a ha b hb hab
  unfold angleOfChord
  have : arcsin (a / 2) < arcsin (b / 2) := by
    apply Real.strictMonoOn_arcsin
    · constructor <;> linarith [ha.1, ha.2]
    · constructor <;> linarith [hb.1, hb.2]
    · linarith
  linarith

/-- right ascension is returned in [0, 2π) -/
theorem ra_range (x y z : ℝ) : 0 ≤ fromVecRa x y z ∧ fromVecRa x y z < 2 * π := by
  unfold fromVecRa pmod
  have hp : (0 : ℝ) < 2 * π := by positivity
  set a := arccos (if 0 < √(x * x + y * y) then x / √(x * x + y * y) else 1) * sgn y
  have h1 : (⌊a / (2 * π)⌋ : ℝ) ≤ a / (2 * π) := Int.floor_le _
  have h2 : a / (2 * π) < ⌊a / (2 * π)⌋ + 1 := Int.lt_floor_add_one _
  have e : a = 2 * π * (a / (2 * π)) := by field_simp
  constructor
  · have := mul_le_mul_of_nonneg_left h1 hp.le
    linarith
  · have := mul_lt_mul_of_pos_left h2 hp
    linarith

theorem pmod_of_mem (x p : ℝ) (hp : 0 < p) (h0 : 0 ≤ x) (h1 : x < p) : pmod x p = x := by
  unfold pmod
  have : ⌊x / p⌋ = 0 := by
    rw [Int.floor_eq_iff]
    constructor
    · simp; positivity
    · simp; rw [div_lt_one hp]; exact h1
  simp [this]

theorem pmod_of_neg (x p : ℝ) (hp : 0 < p) (h0 : -p ≤ x) (h1 : x < 0) : pmod x p = x + p := by
  unfold pmod
  have : ⌊x / p⌋ = -1 := by
    rw [Int.floor_eq_iff]
    constructor
    · simp; rw [le_div_iff₀ hp]; linarith
    · simp; exact div_neg_of_neg_of_pos h1 hp
  simp [this]

/-- sky → vector → sky is the identity for 0 ≤ ra < 2π, |dec| < π/2 -/
theorem fromVec_toVec (ra dec : ℝ) (hr0 : 0 ≤ ra) (hr1 : ra < 2 * π) (hd0 : -(π / 2) < dec) (hd1 : dec < π / 2) :
    fromVecRa (toVecX ra dec) (toVecY ra dec) (toVecZ ra dec) = ra ∧
    fromVecDec (toVecX ra dec) (toVecY ra dec) (toVecZ ra dec) = dec := by
  have hc : 0 < cos dec := Real.cos_pos_of_mem_Ioo ⟨hd0, hd1⟩
  have hr2 : toVecX ra dec * toVecX ra dec + toVecY ra dec * toVecY ra dec = cos dec ^ 2 := by
    unfold toVecX toVecY
    have h1 := Real.cos_sq_add_sin_sq ra
    nlinarith [sq_nonneg (cos dec)]
  have hsq2 : √(toVecX ra dec * toVecX ra dec + toVecY ra dec * toVecY ra dec) = cos dec := by
    rw [hr2, Real.sqrt_sq hc.le]
  have hr3 : toVecX ra dec * toVecX ra dec + toVecY ra dec * toVecY ra dec + toVecZ ra dec * toVecZ ra dec = 1 := by
    have := toVec_unit ra dec
    nlinarith
  constructor
  · unfold fromVecRa
    rw [hsq2]
    simp only [hc, if_true]
    have hx : toVecX ra dec / cos dec = cos ra := by
      unfold toVecX; field_simp
    rw [hx]
    have hp : (0 : ℝ) < 2 * π := by positivity
    by_cases hra : ra ≤ π
    · -- sin ra ≥ 0: sign +1
      have hs : 0 ≤ sin ra := Real.sin_nonneg_of_nonneg_of_le_pi hr0 hra
      have hy : 0 ≤ toVecY ra dec := by unfold toVecY; exact mul_nonneg hs hc.le
      have hsgn : sgn (toVecY ra dec) = 1 := by
        unfold sgn
        rcases hy.lt_or_eq with h | h
        · simp [h, ne_of_gt h]
        · simp [← h]
      rw [hsgn, Real.arccos_cos hr0 hra, mul_one]
      exact pmod_of_mem ra (2 * π) hp hr0 hr1
    · have hra' : π < ra := not_le.mp hra
      have hs : sin ra < 0 := by
        have := Real.sin_neg_of_neg_of_neg_pi_lt (x := ra - 2 * π) (by linarith) (by linarith)
        rwa [Real.sin_sub_two_pi] at this
      have hy : toVecY ra dec < 0 := by unfold toVecY; exact mul_neg_of_neg_of_pos hs hc
      have hsgn : sgn (toVecY ra dec) = -1 := by
        unfold sgn
        simp [ne_of_lt hy, not_lt.mpr hy.le]
      have hcos : cos ra = cos (2 * π - ra) := by
        rw [Real.cos_sub, Real.cos_two_pi, Real.sin_two_pi]; ring
      rw [hsgn, hcos, Real.arccos_cos (by linarith) (by linarith)]
      have : (2 * π - ra) * -1 = ra - 2 * π := by ring
      rw [this, pmod_of_neg _ _ hp (by linarith) (by linarith)]
      ring
  · unfold fromVecDec
    rw [hr3, Real.sqrt_one, div_one]
    unfold toVecZ
    exact Real.arcsin_sin hd0.le hd1.le

/-- at the poles the declination is recovered and the right ascension is set to 0 -/
theorem fromVec_pole (ra : ℝ) :
    fromVecRa (toVecX ra (π / 2)) (toVecY ra (π / 2)) (toVecZ ra (π / 2)) = 0 ∧
    fromVecDec (toVecX ra (π / 2)) (toVecY ra (π / 2)) (toVecZ ra (π / 2)) = π / 2 := by
  have hx : toVecX ra (π / 2) = 0 := by unfold toVecX; simp
  have hy : toVecY ra (π / 2) = 0 := by unfold toVecY; simp
  have hz : toVecZ ra (π / 2) = 1 := by unfold toVecZ; simp
  constructor
  · unfold fromVecRa
    rw [hx, hy]
    have hp : (0 : ℝ) < 2 * π := by positivity
    simp [sgn, pmod]
  · unfold fromVecDec
    rw [hx, hy, hz]
    simp

/-- the separation computed from the chord of two unit vectors is the angle between them -/
theorem distance_eq_angle (u v : EuclideanSpace ℝ (Fin 3)) (hu : ‖u‖ = 1) (hv : ‖v‖ = 1) :
    angleOfChord ‖u - v‖ = InnerProductGeometry.angle u v := by
  set θ := InnerProductGeometry.angle u v with hθ
  have hθ0 : 0 ≤ θ := InnerProductGeometry.angle_nonneg u v
  have hθ1 : θ ≤ π := InnerProductGeometry.angle_le_pi u v
  have hcos : cos θ = inner ℝ u v := by
    rw [hθ, InnerProductGeometry.cos_angle, hu, hv]; simp
  have hsq : ‖u - v‖ ^ 2 = (2 * sin (θ / 2)) ^ 2 := by
    rw [norm_sub_sq_real, hu, hv, ← hcos]
    have := Real.cos_sq_add_sin_sq (θ / 2)
    have h2 : cos θ = 1 - 2 * sin (θ / 2) ^ 2 := by
      have := Real.cos_two_mul (θ / 2)
      have e : 2 * (θ / 2) = θ := by ring
      rw [e] at this
      nlinarith [Real.cos_sq_add_sin_sq (θ / 2)]
    nlinarith
  have hs : 0 ≤ sin (θ / 2) := Real.sin_nonneg_of_nonneg_of_le_pi (by linarith) (by linarith)
  have hchord : ‖u - v‖ = 2 * sin (θ / 2) := by
    have h1 : 0 ≤ ‖u - v‖ := norm_nonneg _
    have h2 : (0 : ℝ) ≤ 2 * sin (θ / 2) := by positivity
    exact (sq_eq_sq₀ h1 h2).mp hsq
  have : ‖u - v‖ = chordOfAngle θ := by rw [hchord]; rfl
  rw [this, angle_chord_inverse θ hθ0 hθ1]

/-- the separation is symmetric and obeys the triangle inequality (it is a metric on the sphere) -/
theorem distance_symm (u v : EuclideanSpace ℝ (Fin 3)) : ‖u - v‖ = ‖v - u‖ := norm_sub_rev u v

theorem distance_triangle (u v w : EuclideanSpace ℝ (Fin 3)) (hu : ‖u‖ = 1) (hv : ‖v‖ = 1) (hw : ‖w‖ = 1) :
    angleOfChord ‖u - w‖ ≤ angleOfChord ‖u - v‖ + angleOfChord ‖v - w‖ := by
  rw [distance_eq_angle u w hu hw, distance_eq_angle u v hu hv, distance_eq_angle v w hv hw]
  exact InnerProductGeometry.angle_le_angle_add_angle u v w

/-- chords of unit vectors never exceed the diameter, so clipping at 2 changes nothing in exact
    arithmetic (it only removes rounding excess; repair of F20) -/
theorem chord_le_two (u v : EuclideanSpace ℝ (Fin 3)) (hu : ‖u‖ = 1) (hv : ‖v‖ = 1) : ‖u - v‖ ≤ 2 := by
  calc ‖u - v‖ ≤ ‖u‖ + ‖v‖ := norm_sub_le u v
    _ = 2 := by rw [hu, hv]; norm_num

theorem distance_clipped : distanceClipped = true := rfl

theorem sgn_scale (c y : ℝ) (hc : 0 < c) : sgn (c * y) = sgn y := by
  unfold sgn
  have h0 : c * y = 0 ↔ y = 0 := by
    constructor
    · intro h; rcases mul_eq_zero.mp h with h | h
      · exact absurd h hc.ne'
      · exact h
    · intro h; simp [h]
  have hp : 0 < c * y ↔ 0 < y := by
    constructor
    · intro h; by_contra hy; push_neg at hy; nlinarith
    · intro h; exact mul_pos hc h
  by_cases hy : y = 0
  · simp [hy]
  · have : ¬ c * y = 0 := fun h => hy (h0.mp h)
    simp only [this, hy, if_false]
    by_cases hpos : 0 < y
    · simp [hpos, hp.mpr hpos]
    · have : ¬ 0 < c * y := fun h => hpos (hp.mp h)
      simp [hpos, this]

/-- `from_3d` only looks at the DIRECTION of a vector: scaling by a positive factor changes neither the right
ascension nor the declination. -/
theorem fromVec_scale (c x y z : ℝ) (hc : 0 < c) :
    fromVecRa (c * x) (c * y) (c * z) = fromVecRa x y z ∧ fromVecDec (c * x) (c * y) (c * z) = fromVecDec x y z := by
  have h2 : √(c * x * (c * x) + c * y * (c * y)) = c * √(x * x + y * y) := by
    rw [show c * x * (c * x) + c * y * (c * y) = c ^ 2 * (x * x + y * y) by ring,
      Real.sqrt_mul (sq_nonneg c), Real.sqrt_sq hc.le]
  have h3 : √(c * x * (c * x) + c * y * (c * y) + c * z * (c * z)) = c * √(x * x + y * y + z * z) := by
    rw [show c * x * (c * x) + c * y * (c * y) + c * z * (c * z) = c ^ 2 * (x * x + y * y + z * z) by ring,
      Real.sqrt_mul (sq_nonneg c), Real.sqrt_sq hc.le]
  constructor
  · unfold fromVecRa
    rw [h2, sgn_scale c y hc]
    have hpos : 0 < c * √(x * x + y * y) ↔ 0 < √(x * x + y * y) := by
      constructor
      · intro h; by_contra hn; push_neg at hn
        have := Real.sqrt_nonneg (x * x + y * y)
        nlinarith
      · intro h; exact mul_pos hc h
    by_cases hr : 0 < √(x * x + y * y)
    · simp only [hr, hpos.mpr hr, if_true, mul_div_mul_left _ _ hc.ne']
    · have : ¬ 0 < c * √(x * x + y * y) := fun h => hr (hpos.mp h)
      simp only [hr, this, if_false]
  · unfold fromVecDec
    rw [h3, mul_div_mul_left _ _ hc.ne']

/-- Spherical mean (`AngularCoordinates.mean`: `from_3d(np.average(to_3d(), weights))`): the average vector is the
weighted vector sum `(sx, sy, sz)` divided by the total weight `W > 0`, so the mean is the sky position of the DIRECTION
of the vector sum — independent of the normalisation of the weights. -/
theorem mean_direction (sx sy sz W : ℝ) (hW : 0 < W) :
    fromVecRa (sx / W) (sy / W) (sz / W) = fromVecRa sx sy sz ∧
    fromVecDec (sx / W) (sy / W) (sz / W) = fromVecDec sx sy sz := by
  have h := fromVec_scale (1 / W) sx sy sz (by positivity)
  simpa [div_eq_inv_mul] using h

/-- … and a single point is its own mean (with `fromVec_toVec`): the mean of one coordinate in the canonical range is
that coordinate, for any positive weight. -/
theorem mean_single (ra dec w : ℝ) (hw : 0 < w) (hr0 : 0 ≤ ra) (hr1 : ra < 2 * π) (hd0 : -(π / 2) < dec) (hd1 : dec < π / 2) :
    fromVecRa (w * toVecX ra dec / w) (w * toVecY ra dec / w) (w * toVecZ ra dec / w) = ra ∧
    fromVecDec (w * toVecX ra dec / w) (w * toVecY ra dec / w) (w * toVecZ ra dec / w) = dec := by
  have h1 : w * toVecX ra dec / w = toVecX ra dec := by field_simp
  have h2 : w * toVecY ra dec / w = toVecY ra dec := by field_simp
  have h3 : w * toVecZ ra dec / w = toVecZ ra dec := by field_simp
  rw [h1, h2, h3]
  exact fromVec_toVec ra dec hr0 hr1 hd0 hd1

theorem mean_pinned : pinMean = "bfefa4b96cbd79b9" := by decide

end Yaw.C14
