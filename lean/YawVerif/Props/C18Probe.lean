/-
  C18 — the probe pass: gathering a sparse, regular subset chunk by chunk returns exactly the rows at the requested
  indices, for EVERY way the input is cut into chunks (any chunk size, row groups of any sizes, empty chunks) and for
  probes sparser or denser than the chunks.
-/
import YawVerif.Model.Probe
import YawVerif.Generated.Probe
import Mathlib.Data.List.Basic

namespace Yaw.C18Probe
open Yaw.Probe

theorem split_sorted (l : List Int) (c : Int) (h : l.Pairwise (· ≤ ·)) :
    l = l.filter (fun i => decide (i < c)) ++ l.filter (fun i => decide (c ≤ i)) := by
  induction l with
  | nil => simp
  | cons a t ih =>
    have ht := (List.pairwise_cons.mp h).2
    have ha := (List.pairwise_cons.mp h).1
    by_cases hac : a < c
    · have : ¬ c ≤ a := by omega
      simp only [List.filter_cons, hac, this, decide_true, decide_false, if_true, List.cons_append]
      simp only [Bool.false_eq_true, if_false]
      exact congrArg _ (ih ht)
    · have hca : c ≤ a := by omega
      have e1 : t.filter (fun i => decide (i < c)) = [] := by
        rw [List.filter_eq_nil_iff]; intro x hx; have := ha x hx; simp; omega
      have e2 : t.filter (fun i => decide (c ≤ i)) = t := by
        rw [List.filter_eq_self]; intro x hx; have := ha x hx; simp; omega
      simp [List.filter_cons, hac, hca, e1, e2]

/-- **the probe holds the rows at the requested indices** (negative indices — none in practice — are ignored, indices past
the end select nothing), in order, whatever the chunking -/
theorem probe_spec {α : Type} (chunks : List (List α)) (idx : List Int) (h : idx.Pairwise (· ≤ ·)) :
    probeLoop chunks idx =
      (idx.filter (fun i => decide (0 ≤ i))).filterMap (fun i => chunks.flatten[i.toNat]?) := by
  induction chunks generalizing idx with
  | nil => simp [probeLoop]
  | cons ch rest ih =>
    simp only [probeLoop, List.flatten_cons]
    generalize hidx1 : idx.filter (fun i => decide (0 ≤ i)) = idx1
    have h1 : idx1.Pairwise (· ≤ ·) := by rw [← hidx1]; exact h.filter _
    have hnn : ∀ i ∈ idx1, 0 ≤ i := by
      intro i hi; rw [← hidx1] at hi; simpa using (List.mem_filter.mp hi).2
    have hmap : (idx1.map (fun i => i - (ch.length : Int))).Pairwise (· ≤ ·) := by
      rw [List.pairwise_map]
      exact h1.imp (by intro a b hab; omega)
    rw [ih _ hmap]
    conv_rhs => rw [split_sorted idx1 ch.length h1]
    rw [List.filterMap_append]
    congr 1
    · apply List.filterMap_congr
      intro i hi
      have hi' := List.mem_filter.mp hi
      have h0 := hnn i hi'.1
      have hlt : i < ch.length := by simpa using hi'.2
      rw [List.getElem?_append_left (by omega)]
    · rw [List.filter_map, List.filterMap_map]
      have : (fun i : Int => decide (0 ≤ i)) ∘ (fun i : Int => i - (ch.length : Int)) = fun i => decide ((ch.length : Int) ≤ i) := by
        funext i; simp
      rw [this]
      apply List.filterMap_congr
      intro i hi
      have hi' := List.mem_filter.mp hi
      have hge : (ch.length : Int) ≤ i := by simpa using hi'.2
      simp only [Function.comp]
      rw [List.getElem?_append_right (by omega)]
      congr 1
      omega

/-- probes without negative indices (what `linspace(0, n-1, p)` yields): literally the rows at the indices -/
theorem probe_rows {α : Type} (chunks : List (List α)) (idx : List Int) (h : idx.Pairwise (· ≤ ·)) (h0 : ∀ i ∈ idx, 0 ≤ i) :
    probeLoop chunks idx = idx.filterMap (fun i => chunks.flatten[i.toNat]?) := by
  rw [probe_spec chunks idx h, List.filter_eq_self.mpr (by intro i hi; simpa using h0 i hi)]

/-- the chunking does not matter: two ways of cutting the same rows give the same probe -/
theorem probe_chunking_free {α : Type} (c1 c2 : List (List α)) (idx : List Int) (h : idx.Pairwise (· ≤ ·))
    (hrows : c1.flatten = c2.flatten) : probeLoop c1 idx = probeLoop c2 idx := by
  rw [probe_spec c1 idx h, probe_spec c2 idx h, hrows]

/-- the code's loop is the modelled one (read off the source on every run) -/
theorem probe_flags : Yaw.Gen.probeIdxLinspace = true ∧ Yaw.Gen.probeLoopAsModelled = true := by decide

/-! non-vacuity: 11 rows in chunks of 3, a probe of 2 (sparser than the chunks) and of 5 -/
example : probeLoop [[0, 1, 2], [3, 4, 5], [6, 7, 8], [9, 10]] (linspaceIdx 11 2) = [0, 10] := by decide
example : probeLoop [[0, 1, 2], [3, 4, 5], [6, 7, 8], [9, 10]] (linspaceIdx 11 5) = [0, 2, 5, 7, 10] := by decide
example : probeLoop [[0, 1], [], [2, 3, 4, 5, 6, 7, 8, 9, 10]] (linspaceIdx 11 5) = [0, 2, 5, 7, 10] := by decide
example : (linspaceIdx 11 5).Pairwise (· ≤ ·) := by decide

end Yaw.C18Probe
