/-
  C02 (support): `groupby` loses nothing and groups exactly by key — for every key list, also with
  gaps between the keys, keys that occur once, and any admissible (unstable) sorting permutation.
-/
import YawVerif.Model.Groupby
import Mathlib.Data.List.Perm.Basic
import Mathlib.Data.List.Sort

namespace Yaw.C02.Grp
open Yaw.Groupby

/-- nothing is lost, duplicated or reordered by the splitting step -/
theorem runs_flatten {ν : Type} (s : List (Nat × ν)) : ((runs s).map (·.2)).flatten = s.map (·.2) := by
  induction s with
  | nil => rfl
  | cons x rest ih =>
    obtain ⟨k, v⟩ := x
    unfold runs
    cases h : runs rest with
    | nil => rw [h] at ih; simp at ih ⊢; exact ih
    | cons g gs =>
      obtain ⟨k', vs⟩ := g
      rw [h] at ih
      simp only
      split <;> simpa using ih

/-- the keys of the groups are the keys of the data -/
theorem runs_key_mem {ν : Type} (s : List (Nat × ν)) : ∀ g ∈ runs s, ∃ x ∈ s, x.1 = g.1 ∧ x.2 ∈ g.2 := by
  induction s with
  | nil => intro g hg; simp [runs] at hg
  | cons x rest ih =>
    obtain ⟨k, v⟩ := x
    intro g hg
    unfold runs at hg
    cases h : runs rest with
    | nil =>
      rw [h] at hg
      simp only [List.mem_singleton] at hg
      subst hg
      exact ⟨(k, v), by simp, rfl, by simp⟩
    | cons g0 gs =>
      obtain ⟨k', vs⟩ := g0
      rw [h] at hg ih
      simp only at hg
      split at hg
      · next hk =>
        simp only [List.mem_cons] at hg
        rcases hg with rfl | hg
        · exact ⟨(k, v), by simp, rfl, by simp⟩
        · obtain ⟨x, hx, h1, h2⟩ := ih g (by simp [hg])
          exact ⟨x, by simp [hx], h1, h2⟩
      · simp only [List.mem_cons] at hg
        rcases hg with rfl | rfl | hg
        · exact ⟨(k, v), by simp, rfl, by simp⟩
        · obtain ⟨x, hx, h1, h2⟩ := ih (k', vs) (by simp)
          exact ⟨x, by simp [hx], h1, h2⟩
        · obtain ⟨x, hx, h1, h2⟩ := ih g (by simp [hg])
          exact ⟨x, by simp [hx], h1, h2⟩

/-- sortedness by key -/
def Sorted {ν : Type} (s : List (Nat × ν)) : Prop := s.Pairwise fun a b => a.1 ≤ b.1

/-- head key of the runs = head key of the data -/
theorem runs_head {ν : Type} (k : Nat) (v : ν) (rest : List (Nat × ν)) :
    ∃ vs gs, runs ((k, v) :: rest) = (k, vs) :: gs := by
  unfold runs
  cases h : runs rest with
  | nil => exact ⟨[v], [], rfl⟩
  | cons g gs =>
    obtain ⟨k', vs⟩ := g
    simp only
    split
    · exact ⟨v :: vs, gs, rfl⟩
    · exact ⟨[v], (k', vs) :: gs, rfl⟩

/-- MAIN (grouping): on data sorted by key every group holds exactly the values of its key, in order,
    and the group keys are strictly increasing (hence distinct) -/
theorem runs_spec {ν : Type} (s : List (Nat × ν)) (hs : Sorted s) :
    (∀ g ∈ runs s, g.2 = (s.filter (·.1 = g.1)).map (·.2)) ∧ (runs s).Pairwise (fun a b => a.1 < b.1) := by
  induction s with
  | nil => simp [runs]
  | cons x rest ih =>
    obtain ⟨k, v⟩ := x
    have hrest : Sorted rest := (List.pairwise_cons.mp hs).2
    have hle : ∀ y ∈ rest, k ≤ y.1 := (List.pairwise_cons.mp hs).1
    obtain ⟨ih1, ih2⟩ := ih hrest
    unfold runs
    cases h : runs rest with
    | nil =>
      rw [h] at ih1
      -- no runs ⇒ no data
      have hnil : rest = [] := by
        cases rest with
        | nil => rfl
        | cons y ys =>
          obtain ⟨ky, vy⟩ := y
          obtain ⟨vs, gs, hh⟩ := runs_head ky vy ys
          rw [hh] at h; cases h
      subst hnil
      simp
    | cons g0 gs =>
      obtain ⟨k', vs⟩ := g0
      rw [h] at ih1 ih2
      have hk'mem : ∃ x ∈ rest, x.1 = k' := by
        obtain ⟨x, hx, h1, _⟩ := runs_key_mem rest (k', vs) (by rw [h]; simp)
        exact ⟨x, hx, h1⟩
      obtain ⟨x0, hx0, hx0k⟩ := hk'mem
      have hkk' : k ≤ k' := by rw [← hx0k]; exact hle x0 hx0
      have hgs_gt : ∀ g ∈ gs, k' < g.1 := (List.pairwise_cons.mp ih2).1
      simp only
      split
      · next heq =>
        subst heq
        refine ⟨?_, ?_⟩
        · intro g hg
          simp only [List.mem_cons] at hg
          rcases hg with rfl | hg
          · have := ih1 (k, vs) (by simp)
            simp only at this ⊢
            simp [List.filter_cons, this]
          · have := ih1 g (by simp [hg])
            have hne : k ≠ g.1 := by have := hgs_gt g hg; omega
            simp [List.filter_cons, hne, this]
        · exact List.pairwise_cons.mpr ⟨hgs_gt, (List.pairwise_cons.mp ih2).2⟩
      · next hne =>
        have hlt : k < k' := by omega
        refine ⟨?_, ?_⟩
        · intro g hg
          simp only [List.mem_cons] at hg
          rcases hg with rfl | rfl | hg
          · -- the new singleton group: no other record has key k
            simp only
            have hnone : rest.filter (fun y => decide (y.1 = k)) = [] := by
              rw [List.filter_eq_nil_iff]
              intro y hy
              simp only [decide_eq_true_eq]
              -- every key in rest belongs to some run with key ≥ k' > k
              intro hyk
              have hyle := hle y hy
              -- y.1 = k < k' ≤ all run keys, but y's key is a run key
              have : ∃ g ∈ runs rest, g.1 = y.1 := by
                clear ih1 ih2 hgs_gt hx0 hx0k
                exact key_has_run rest y hy
              obtain ⟨g, hg, hgk⟩ := this
              rw [h] at hg
              simp only [List.mem_cons] at hg
              rcases hg with rfl | hg
              · simp at hgk; omega
              · have := hgs_gt g hg; omega
            simp [List.filter_cons, hnone]
          · have := ih1 (k', vs) (by simp)
            have hne' : k ≠ k' := hne
            simp only at this ⊢
            simp [List.filter_cons, hne', this]
          · have := ih1 g (by simp [hg])
            have hne' : k ≠ g.1 := by have := hgs_gt g hg; omega
            simp [List.filter_cons, hne', this]
        · refine List.pairwise_cons.mpr ⟨?_, ih2⟩
          intro g hg
          simp only [List.mem_cons] at hg
          rcases hg with rfl | hg
          · exact hlt
          · have := hgs_gt g hg; omega
where
  key_has_run {ν : Type} (rest : List (Nat × ν)) (y : Nat × ν) (hy : y ∈ rest) : ∃ g ∈ runs rest, g.1 = y.1 := by
    induction rest with
    | nil => simp at hy
    | cons x xs ih =>
      obtain ⟨kx, vx⟩ := x
      simp only [List.mem_cons] at hy
      unfold runs
      cases hr : runs xs with
      | nil =>
        rcases hy with rfl | hy
        · exact ⟨(kx, [vx]), by simp, rfl⟩
        · obtain ⟨g, hg, _⟩ := ih hy
          rw [hr] at hg; simp at hg
      | cons g0 gs =>
        obtain ⟨k0, vs0⟩ := g0
        simp only
        rcases hy with rfl | hy
        · split
          · exact ⟨(kx, vx :: vs0), by simp, rfl⟩
          · exact ⟨(kx, [vx]), by simp, rfl⟩
        · obtain ⟨g, hg, hgk⟩ := ih hy
          rw [hr] at hg
          simp only [List.mem_cons] at hg
          split
          · next heq =>
            rcases hg with rfl | hg
            · exact ⟨(kx, vx :: vs0), by simp, by simp at hgk ⊢; omega⟩
            · exact ⟨g, by simp [hg], hgk⟩
          · rcases hg with rfl | hg
            · exact ⟨(k0, vs0), by simp, hgk⟩
            · exact ⟨g, by simp [hg], hgk⟩

/-- sorting is a permutation and sorts -/
theorem insert_perm {ν : Type} (x : Nat × ν) (l : List (Nat × ν)) : (insertByKey x l).Perm (x :: l) := by
  induction l with
  | nil => simp [insertByKey]
  | cons y ys ih =>
    unfold insertByKey
    split
    · exact List.Perm.refl _
    · exact (List.Perm.cons y ih).trans (List.Perm.swap x y ys)

theorem sort_perm {ν : Type} (l : List (Nat × ν)) : (sortByKey l).Perm l := by
  induction l with
  | nil => exact List.Perm.refl _
  | cons x xs ih => exact (insert_perm x _).trans (List.Perm.cons x ih)

theorem insert_sorted {ν : Type} (x : Nat × ν) (l : List (Nat × ν)) (h : Sorted l) : Sorted (insertByKey x l) := by
  induction l with
  | nil => simp [insertByKey, Sorted]
  | cons y ys ih =>
    unfold insertByKey
    have hy := List.pairwise_cons.mp h
    split
    · next hle =>
      refine List.pairwise_cons.mpr ⟨?_, h⟩
      intro z hz
      simp only [List.mem_cons] at hz
      rcases hz with rfl | hz
      · exact hle
      · have := hy.1 z hz; omega
    · next hgt =>
      refine List.pairwise_cons.mpr ⟨?_, ih hy.2⟩
      intro z hz
      have := (insert_perm x ys).mem_iff.mp hz
      simp only [List.mem_cons] at this
      rcases this with rfl | hz'
      · omega
      · exact hy.1 z hz'

theorem sort_sorted {ν : Type} (l : List (Nat × ν)) : Sorted (sortByKey l) := by
  induction l with
  | nil => simp [sortByKey, Sorted]
  | cons x xs ih => exact insert_sorted x _ ih

/-- MAIN (groupby): for ANY input — keys with gaps, single occurrences, any order — every group is,
    up to the order inside the group, exactly the values with that key; the keys are distinct and
    ascending; nothing is lost or duplicated.  (`s` is any sorted permutation of the input: numpy's
    argsort is not stable, the theorem holds for whichever one it returns.) -/
theorem groupby_spec {ν : Type} (l s : List (Nat × ν)) (hp : s.Perm l) (hs : Sorted s) :
    (∀ g ∈ runs s, g.2.Perm ((l.filter (·.1 = g.1)).map (·.2))) ∧
    (runs s).Pairwise (fun a b => a.1 < b.1) ∧
    (((runs s).map (·.2)).flatten).Perm (l.map (·.2)) := by
  obtain ⟨h1, h2⟩ := runs_spec s hs
  refine ⟨?_, h2, ?_⟩
  · intro g hg
    rw [h1 g hg]
    exact (hp.filter _).map _
  · rw [runs_flatten]
    exact hp.map _

theorem groupby_model_spec {ν : Type} (l : List (Nat × ν)) :
    (∀ g ∈ groupby l, g.2.Perm ((l.filter (·.1 = g.1)).map (·.2))) ∧
    (groupby l).Pairwise (fun a b => a.1 < b.1) ∧
    (((groupby l).map (·.2)).flatten).Perm (l.map (·.2)) :=
  groupby_spec l (sortByKey l) (sort_perm l) (sort_sorted l)

theorem groupby_pinned : Gen.pinGroupby = "26ee2f474530068a" := by decide

/-- non-vacuity: keys with a gap (no 1) and a key that occurs once -/
example : groupby [(2, "a"), (0, "b"), (2, "c"), (5, "d")] = [(0, ["b"]), (2, ["a", "c"]), (5, ["d"])] := by decide

end Yaw.C02.Grp
