/-
  Small glue with a meaning, regenerated on every run: the number of workers (C05, C06), the route from pair counts to a
  redshift estimate (C04), normalised arrays and `sum()` support (C17).
-/
import YawVerif.Generated.Glue

namespace Yaw.Glue
open Yaw.Gen

/-- **worker count** — with at least one rank / core available the number of workers is between 1 and that size for every
worker limit that is absent, zero (both mean: no limit) or positive, and it is the limit whenever the limit is smaller -/
theorem get_size_spec (mw : Option Int) (size : Int) (hs : 1 ≤ size) (hm : ∀ m, mw = some m → 0 ≤ m) :
    1 ≤ getSize mw size ∧ getSize mw size ≤ size ∧
    (∀ m, mw = some m → 1 ≤ m → getSize mw size = min m size) ∧
    ((mw = none ∨ mw = some 0) → getSize mw size = size) := by
  unfold getSize
  cases mw with
  | none => simp; omega
  | some m =>
    have h0 := hm m rfl
    by_cases hz : m = 0
    · subst hz; simp; omega
    · simp only [hz, if_false, Option.some.injEq, forall_eq', reduceCtorEq, false_or]
      refine ⟨by omega, by omega, fun _ => trivial, fun h => ?_⟩
      simp_all

/-- the environment can only lower the number of processes below the number of cores -/
theorem num_processes_spec (env : Option Int) (cores : Int) :
    numProcesses env cores ≤ cores ∧ (env = none → numProcesses env cores = cores) ∧
    (∀ t, env = some t → t ≤ cores → numProcesses env cores = t) := by
  unfold numProcesses
  cases env with
  | none => simp
  | some t => simp only [reduceCtorEq, false_implies, Option.some.injEq, forall_eq', true_and]; omega

theorem glue_flags : fromCorrfuncsAsModelled = true ∧ normalisedArrayAsModelled = true ∧ raddAsModelled = true := by decide

/-- file formats: FITS, HDF5 and Parquet files are recognised by their usual extensions (case-insensitively) and served by their own
reader; any other extension is refused -/
theorem reader_ext_table : readerExtensions =
    [(".fits", "FitsReader"), (".cat", "FitsReader"), (".hdf5", "HDFReader"), (".hdf", "HDFReader"), (".h5", "HDFReader"),
     (".pq", "ParquetReader"), (".pqt", "ParquetReader"), (".parq", "ParquetReader"), (".parquet", "ParquetReader")] := by decide

theorem fits_flags : fitsByteorderValuePreserving = true := by decide

/-! non-vacuity -/
example : getSize (some 3) 8 = 3 ∧ getSize (some 12) 8 = 8 ∧ getSize none 8 = 8 ∧ getSize (some 0) 8 = 8 := by decide
example : numProcesses (some 2) 16 = 2 ∧ numProcesses (some 64) 16 = 16 ∧ numProcesses none 16 = 16 := by decide

end Yaw.Glue
