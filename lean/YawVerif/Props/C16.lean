/-
  C16 — random catalogs: exact size (truncated last chunk); window; joint attributes; re-seeding.
-/
import YawVerif.Lemmas.Reader
import YawVerif.Generated.Randoms
import YawVerif.Generated.DataSize

namespace Yaw.C16
open Yaw Yaw.Rd

/-- a random catalog contains exactly the requested number of points: the chunk sizes of a pass add
    up to `n`; every chunk holds between 1 and `c` points — for all n ≥ 0 and all chunk sizes ≥ 1 -/
theorem random_sizes (n c : Nat) (hc : 1 ≤ c) :
    (randomSizes n c (n + 1) 0).sum = n ∧ ∀ x ∈ randomSizes n c (n + 1) 0, 1 ≤ x ∧ x ≤ (c : Int) := by
  have h := random_from (n : Int) (c : Int) (by exact_mod_cast hc) (n + 1) 0 (le_refl _) (by simp)
  exact ⟨by simpa using h.1 (by omega), h.2⟩

/-- all chunks but the last are full -/
theorem random_full_chunks (n c : Int) (hc : 0 ≤ c) (fuel : Nat) (s : Int) (h : s + c < n) :
    ∀ f, fuel = f + 1 → (randomSizes n c fuel s).head? = some c := by
  intro f hf
  subst hf
  unfold randomSizes Gen.readerStop Gen.readerAdvance Gen.randomChunkSize
  have h1 : ¬ s ≥ n := by omega
  have h2 : ¬ s + c ≥ n := by omega
  simp [h1, h2]

/-- re-seeding at the start of every pass and of every probe: the draws of a pass are a function of
    the seed and of the sizes requested in that pass only (history free).  State machine: a
    generator state is (seed, position); `reseed` resets the position. -/
structure GenState where
  seed : Nat
  pos : Nat
deriving DecidableEq

def reseed (g : GenState) : GenState := { g with pos := 0 }
def draw (g : GenState) (k : Nat) : GenState × (Nat × Nat × Nat) := ({ g with pos := g.pos + k }, (g.seed, g.pos, k))
def pass (g : GenState) (sizes : List Nat) : GenState × List (Nat × Nat × Nat) :=
  sizes.foldl (fun acc k => let r := draw acc.1 k; (r.1, acc.2 ++ [r.2])) (reseed g, [])

theorem reseed_history_free (g h : GenState) (hs : g.seed = h.seed) (sizes : List Nat) :
    (pass g sizes).2 = (pass h sizes).2 := by
  unfold pass
  have : reseed g = reseed h := by
    cases g; cases h; simp_all [reseed]
  rw [this]

/-- the stream of a seed cut into requests of the given sizes: request j starts where request j − 1 ended -/
def streamFrom (seed pos : Nat) : List Nat → List (Nat × Nat × Nat)
  | [] => []
  | k :: ks => (seed, pos, k) :: streamFrom seed (pos + k) ks

theorem pass_stream_aux (sizes : List Nat) (st : GenState) (out : List (Nat × Nat × Nat)) :
    (sizes.foldl (fun acc k => let r := draw acc.1 k; (r.1, acc.2 ++ [r.2])) (st, out)).2
      = out ++ streamFrom st.seed st.pos sizes := by
  induction sizes generalizing st out with
  | nil => simp [streamFrom]
  | cons k ks ih =>
    simp only [List.foldl_cons, streamFrom]
    rw [ih]
    simp [draw]

/-- **a pass is the generator's stream**: the chunks of a pass continue one another — chunk j draws the positions right after
chunk j − 1 of the stream of the seed, never the same positions again (a reader that re-seeded per chunk would hand out copies) -/
theorem pass_stream (g : GenState) (sizes : List Nat) : (pass g sizes).2 = streamFrom g.seed 0 sizes := by
  unfold pass
  rw [pass_stream_aux]
  simp [reseed]

/-- what a generator can have been used for before: full or partial passes of a reader, probes (centre generation) -/
inductive Use
  | pass (sizes : List Nat)
  | probe (k : Nat)

def use (g : GenState) : Use → GenState
  | .pass sizes => (pass g sizes).1
  | .probe k => (draw (reseed g) k).1

theorem pass_seed (g : GenState) (sizes : List Nat) : (pass g sizes).1.seed = g.seed := by
  unfold pass
  suffices h : ∀ (acc : GenState × List (Nat × Nat × Nat)),
      (sizes.foldl (fun acc k => let r := draw acc.1 k; (r.1, acc.2 ++ [r.2])) acc).1.seed = acc.1.seed by
    simpa [reseed] using h (reseed g, [])
  induction sizes with
  | nil => intro acc; rfl
  | cons k ks ih => intro acc; simp only [List.foldl_cons]; rw [ih]; rfl

/-- no use changes the stored seed … -/
theorem seed_invariant (g : GenState) (h : List Use) : (h.foldl use g).seed = g.seed := by
  induction h generalizing g with
  | nil => rfl
  | cons u us ih =>
    simp only [List.foldl_cons]
    rw [ih]
    cases u with
    | pass sizes => exact pass_seed g sizes
    | probe k => rfl

/-- … hence a generator reproduces the points of its seed NO MATTER HOW OFTEN AND FOR WHAT it was used before
(any sequence of passes, interrupted passes and probes): the property as stated. -/
theorem reproducible_after_any_use (g : GenState) (h : List Use) (sizes : List Nat) :
    (pass (h.foldl use g) sizes).2 = (pass g sizes).2 :=
  reseed_history_free _ _ (seed_invariant g h) sizes

/-- `reseed(s)` with an explicit seed (any natural number, 0 included): the stored seed becomes `s` -/
def reseedTo (_g : GenState) (s : Nat) : GenState := { seed := s, pos := 0 }

/-- one generator object run through several seeds: after `reseed(s)` — and whatever it is used for afterwards — a pass yields
the points of a FRESH generator constructed with seed `s`; nothing of the earlier seed survives -/
theorem reseedTo_fresh (g : GenState) (s : Nat) (h : List Use) (sizes : List Nat) :
    (pass (h.foldl use (reseedTo g s)) sizes).2 = (pass ⟨s, 0⟩ sizes).2 := by
  rw [reproducible_after_any_use]
  exact reseed_history_free _ _ rfl sizes

/-- the shape of the code this state machine abstracts, read off the source on every run: `reseed` rebuilds the
generator from the stored seed alone and stores a seed only when one is passed; the constructor is the only other
place a seed is stored; every pass and every probe of the reader starts with an argument-less `reseed()`; the attribute
draw uses one index array for weights and redshifts (`joint_attributes`). -/
theorem flags : Gen.reseedFromSeedOnly = true ∧ Gen.passReseedsWithoutArgument = true ∧ Gen.seedAssignments = 1 ∧
    Gen.attrsOneIndexDraw = true := by decide

/-- the window: y ∈ [sin d₀, sin d₁] is mapped by arcsin into [d₀, d₁] — monotonicity of arcsin is a
    Mathlib fact; here the order-theoretic core: a monotone inverse maps the interval into the interval -/
theorem window_of_monotone {f g : ℚ → ℚ} (hg : ∀ a b, a ≤ b → g a ≤ g b) (hinv : ∀ d, g (f d) = d)
    (d0 d1 y : ℚ) (h0 : f d0 ≤ y) (h1 : y ≤ f d1) : d0 ≤ g y ∧ g y ≤ d1 := by
  constructor
  · have := hg _ _ h0; rwa [hinv] at this
  · have := hg _ _ h1; rwa [hinv] at this

/-- weights and redshifts are drawn jointly: one index array selects both -/
theorem joint_attributes (ws zs : List ℚ) (idx : List Nat) (h : ws.length = zs.length)
    (k : Nat) (hk : k < idx.length) (hidx : ∀ i ∈ idx, i < ws.length) :
    ∃ row, row < ws.length ∧ (idx.map fun i => ws.getD i 0)[k]? = some (ws.getD row 0) ∧
      (idx.map fun i => zs.getD i 0)[k]? = some (zs.getD row 0) := by
  refine ⟨idx[k], hidx _ (List.getElem_mem hk), ?_, ?_⟩ <;> simp [hk]

/-- **size of the attribute samples** (`get_data_size`, regenerated): −1 without samples, the length of the one that is given,
and with both given their common length — samples of different lengths are refused (at construction) -/
theorem data_size_spec (nw nz : Option Int) :
    (nw = none → nz = none → Gen.dataSize nw nz = .size (-1)) ∧
    (∀ a, nw = some a → nz = none → Gen.dataSize nw nz = .size a) ∧
    (∀ b, nw = none → nz = some b → Gen.dataSize nw nz = .size b) ∧
    (∀ a b, nw = some a → nz = some b →
      (a = b → Gen.dataSize nw nz = .size a) ∧ (a ≠ b → Gen.dataSize nw nz = .raises "ValueError")) := by
  unfold Gen.dataSize
  refine ⟨?_, ?_, ?_, ?_⟩
  · rintro rfl rfl; simp
  · rintro a rfl rfl; simp
  · rintro b rfl rfl; simp
  · rintro a b rfl rfl
    constructor
    · rintro rfl; simp
    · intro h; simp [h]

/-- hence the ONE index array drawn from `[0, data_size)` is in range for both samples: the hypotheses of `joint_attributes`
are met whenever a generator with both samples exists -/
theorem joint_draw_in_range (a b n : Int) (h : Gen.dataSize (some a) (some b) = .size n) (i : Int) (h0 : 0 ≤ i) (hi : i < n) :
    i < a ∧ i < b := by
  by_cases hab : a = b
  · subst hab
    have := ((data_size_spec (some a) (some a)).2.2.2 a a rfl rfl).1 rfl
    rw [this] at h
    injection h with h'
    omega
  · have := ((data_size_spec (some a) (some b)).2.2.2 a b rfl rfl).2 hab
    rw [this] at h
    cases h

theorem data_size_at_init : Gen.dataSizeAtInit = true := by decide

theorem glue_pinned : Gen.pinRandomProbe = "0163df6a58e1fbdd" ∧ Gen.pinRandomIter = "68b6757a4ca11947" ∧
    Gen.pinRandomsCall = "04c8f3f1c767f937" ∧ Gen.pinRandomsInit = "493145670e09d4b4" := by decide

/-! non-vacuity -/
example : randomSizes 10 4 11 0 = [4, 4, 2] := by decide
example : randomSizes 8 4 9 0 = [4, 4] := by decide
example : (pass ⟨7, 99⟩ [10, 10, 9]).2 = [(7, 0, 10), (7, 10, 10), (7, 20, 9)] := by decide
example : (pass (reseedTo ⟨4242, 9⟩ 0) [2, 1]).2 = [(0, 0, 2), (0, 2, 1)] := by decide
example : (pass ([Use.probe 5, Use.pass [3, 3]].foldl use ⟨42, 0⟩) [4, 2]).2 = [(42, 0, 4), (42, 4, 2)] := by decide

end Yaw.C16
