/-
C02 / C09 / C18 — the three catalog constructors (`Catalog.from_dataframe`, `from_file`, `from_random`) as data,
regenerated from the source on every run (`k_createplan`): which steps run in which order, how often the input is
passed over, and that every parameter reaches the reader / writer / loader under its own name.
Only property theorems and non-vacuity examples in this file; the quantifiers are finite tables (`decide`).
-/
import YawVerif.Generated.CreatePlan

namespace Yaw.C18P
open Yaw.Gen

/-- the named (keyword) arguments of a call -/
def named (l : List (String × String)) : List (String × String) :=
  l.filter fun kv => !(["#0", "#1", "#2", "#3", "#4", "**"].contains kv.1)

/-- every keyword argument passes on the caller's parameter of the same name (allowed constants listed explicitly) -/
def forwards (l : List (String × String)) (consts : List (String × String)) : Bool :=
  (named l).all fun kv => kv.1 == kv.2 || consts.contains kv

def hasAll (l : List (String × String)) (keys : List String) : Bool :=
  keys.all fun k => (named l).any fun kv => kv.1 == k

def columnKeys : List String :=
  ["ra_name", "dec_name", "weight_name", "redshift_name", "patch_name", "chunksize", "degrees"]

/-- passes over the input made by a constructor with the given steps, in create mode (centres generated) or not -/
def passesOf (steps : List String) (create : Bool) : Nat :=
  (if create then (steps.filter (· == "probe-if-create")).length else 0) + (steps.filter (· == "write")).length

/-- all three constructors run the same eight steps in the same order: build the reader, determine the patch mode,
probe the input ONLY in create mode, write the patches, load them. -/
theorem steps_spec :
    steps_from_dataframe = ["reader", "mode", "probe-if-create", "write", "new", "dir", "load", "return"] ∧
    steps_from_file = steps_from_dataframe ∧ steps_from_random = steps_from_dataframe := by decide

/-- C18 "each record once per pass, one extra pass only when patch centres are generated": one pass when centres or a
patch column are given, two in create mode — for every constructor; the probe and the write each iterate the reader in
exactly one place. -/
theorem passes_spec (create : Bool) :
    (∀ st ∈ [steps_from_dataframe, steps_from_file, steps_from_random], passesOf st create = if create then 2 else 1) ∧
    centersFromOneProbe = true ∧ writeMakesOnePass = true := by
  cases create <;> decide

/-- every column name, the chunk size and the unit flag reach the reader under their own names — through the
constructor, through the file-reader factory, and through every reader class to the base class that stores them. -/
theorem reader_forwarding :
    (∀ l ∈ [readerArgs_from_dataframe, readerArgs_from_file, factoryArgs, superArgs_DataFrameReader, superArgs_FitsReader,
            superArgs_HDFReader, superArgs_ParquetReader], forwards l [] = true ∧ hasAll l columnKeys = true) ∧
    readerArgs_from_random = [("#0", "generator"), ("#1", "num_randoms"), ("#2", "chunksize")] ∧
    baseSetsChunksize = true := by decide

/-- the patch mode is determined from (centres, column, number) in the documented precedence order; random catalogs
have no patch column -/
theorem mode_args :
    modeArgs_from_dataframe = ["patch_centers", "patch_name", "patch_num"] ∧ modeArgs_from_file = modeArgs_from_dataframe ∧
    modeArgs_from_random = ["patch_centers", "None", "patch_num"] := by decide

/-- overwrite permission, progress flag and worker limit reach `write_patches` and `load_patches` unchanged; the
(possibly generated) centres go to both -/
theorem writer_forwarding :
    (∀ l ∈ [writeArgs_from_dataframe, writeArgs_from_file, writeArgs_from_random],
        forwards l [("buffersize", "-1")] = true ∧ hasAll l ["overwrite", "progress", "max_workers"] = true ∧
        l.take 1 = [("#0", "cache_directory")] ∧ (l.drop 2).take 1 = [("#2", "patch_centers")]) ∧
    (∀ l ∈ [loadArgs_from_dataframe, loadArgs_from_file, loadArgs_from_random],
        forwards l [] = true ∧ hasAll l ["patch_centers", "progress", "max_workers"] = true) := by decide

theorem glue_pinned : pinNewFilereader = "064956e970818c75" ∧ pinCreateCenters = "2779837d1dafff6f" := by decide

/-- non-vacuity: a dropped keyword or a renamed one is seen -/
example : hasAll [("ra_name", "ra_name")] columnKeys = false := by decide
example : forwards [("chunksize", "None")] [] = false := by decide
example : passesOf steps_from_file true = 2 := by decide

end Yaw.C18P
