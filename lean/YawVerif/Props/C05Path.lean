/-
  C05 — "patch dictionary keyed by the id parsed from the path": the id of a patch survives the trip through its directory name,
  for every id, so results that arrive in any order are filed under the patch they belong to.
-/
import Std.Data.String.ToNat
import YawVerif.Model.PathCodec
import YawVerif.Generated.Glue

namespace Yaw.C05Path
open Yaw.PathCodec

theorem split_pathName (k : Nat) : (pathName k).splitOn '_' = ["patch".toList, Nat.toDigits 10 k] := by
  unfold pathName
  rw [List.splitOn_append_cons_self_of_not_mem (by decide), List.splitOn_eq_singleton Nat.underscore_not_in_toDigits]

/-- **round trip** — the id parsed from the directory name of patch k is k, for every k -/
theorem id_of_path (k : Nat) : idOfName (pathName k) = some k := by
  unfold idOfName
  rw [split_pathName]
  simp only
  have : String.ofList (Nat.toDigits 10 k) = Nat.repr k := rfl
  rw [this, Nat.toNat?_repr]

/-- different patches have different directories -/
theorem pathName_injective (a b : Nat) (h : pathName a = pathName b) : a = b := by
  have := congrArg idOfName h
  rw [id_of_path, id_of_path] at this
  exact Option.some.inj this

/-- the code is the modelled pair of functions (template and parser read off the source on every run) -/
theorem path_flags : Yaw.Gen.patchNameTemplate = "patch_{:d}" ∧ Yaw.Gen.idFromPathAsModelled = true := by decide

/-! non-vacuity -/
example : String.ofList (pathName 32767) = "patch_32767" := by decide
example : idOfName "patch_1_0".toList = none ∧ idOfName "patch".toList = none := by decide

end Yaw.C05Path
