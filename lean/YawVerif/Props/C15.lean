/-
  C15 — configurations mean what their parameters say; modify equals create.
-/
import Mathlib.Algebra.Order.Field.Rat
import Mathlib.Tactic.Linarith
import Mathlib.Tactic.FieldSimp
import Mathlib.Tactic.Ring
import YawVerif.Model.Config

namespace Yaw.C15
open Yaw Yaw.Cfg

/-- linear binning: n+1 edges, first = zmin, last = zmax exactly, strictly increasing -/
theorem linear_edges (lo hi : Rat) (n : Nat) (hn : 1 ≤ n) (h : lo < hi) :
    linspace lo hi n 0 = lo ∧ linspace lo hi n n = hi ∧
    ∀ k, k < n → linspace lo hi n k < linspace lo hi n (k + 1) := by
  have hn0 : (0 : Rat) < n := by exact_mod_cast hn
  have hstep : 0 < (hi - lo) / n := div_pos (by linarith) hn0
  refine ⟨?_, ?_, ?_⟩
  · unfold linspace
    have : (0 : Nat) ≠ n := by omega
    simp [this]
  · unfold linspace; simp
  · intro k hk
    unfold linspace
    have h1 : k ≠ n := by omega
    simp only [h1, if_false]
    by_cases h2 : k + 1 = n
    · simp only [h2, if_true]
      -- lo + k·step < hi  since  k < n
      have : (k : Rat) * ((hi - lo) / n) < (n : Rat) * ((hi - lo) / n) := by
        apply mul_lt_mul_of_pos_right _ hstep
        exact_mod_cast hk
      have e : (n : Rat) * ((hi - lo) / n) = hi - lo := by field_simp
      linarith
    · simp only [h2, if_false]
      push_cast
      linarith

/-- every interior linspace point lies strictly between the end points -/
theorem linspace_interior (lo hi : Rat) (n k : Nat) (h : lo < hi) (h0 : 0 < k) (hk : k < n) :
    lo < linspace lo hi n k ∧ linspace lo hi n k < hi := by
  have hn0 : (0 : Rat) < n := by exact_mod_cast (by omega : 0 < n)
  have hstep : 0 < (hi - lo) / n := div_pos (by linarith) hn0
  unfold linspace
  have h1 : k ≠ n := by omega
  simp only [h1, if_false]
  have hk0 : (0 : Rat) < k := by exact_mod_cast h0
  have e : (n : Rat) * ((hi - lo) / n) = hi - lo := by field_simp
  have : (k : Rat) * ((hi - lo) / n) < (n : Rat) * ((hi - lo) / n) :=
    mul_lt_mul_of_pos_right (by exact_mod_cast hk) hstep
  constructor
  · have := mul_pos hk0 hstep; linarith
  · linarith

/-- binnings linear in a strictly increasing quantity g (comoving distance, log(1+z)) with inverse h:
    n+1 edges spanning exactly [zmin, zmax], strictly increasing -/
theorem mapped_edges (g h : Rat → Rat) (hg : ∀ a b, a < b → g a < g b) (hh : ∀ a b, a < b → h a < h b)
    (hinv : ∀ z, h (g z) = z) (zmin zmax : Rat) (n : Nat) (hn : 1 ≤ n) (hz : zmin < zmax) :
    mappedEdges g h zmin zmax n 0 = zmin ∧ mappedEdges g h zmin zmax n n = zmax ∧
    ∀ k, k < n → mappedEdges g h zmin zmax n k < mappedEdges g h zmin zmax n (k + 1) := by
  have hgz := hg _ _ hz
  refine ⟨by simp [mappedEdges], ?_, ?_⟩
  · unfold mappedEdges
    have : n ≠ 0 := by omega
    simp [this]
  · intro k hk
    unfold mappedEdges
    have hk1 : k + 1 ≠ 0 := by omega
    simp only [hk1, if_false]
    by_cases h0 : k = 0
    · subst h0
      simp only [if_true, Nat.zero_add]
      by_cases h1 : 1 = n
      · simp [h1, hz]
      · simp only [h1, if_false]
        have := (linspace_interior (g zmin) (g zmax) n 1 hgz (by omega) (by omega)).1
        have := hh _ _ this
        rwa [hinv] at this
    · have hkn : k ≠ n := by omega
      simp only [h0, hkn, if_false]
      by_cases h1 : k + 1 = n
      · simp only [h1, if_true]
        have := (linspace_interior (g zmin) (g zmax) n k hgz (by omega) hk).2
        have := hh _ _ this
        rwa [hinv] at this
      · simp only [h1, if_false]
        exact hh _ _ ((linear_edges (g zmin) (g zmax) n hn hgz).2.2 k hk)

/-- scale limits are converted to angles as r · (unit factor) / D(z) with the unit's distance measure -/
theorem angle_formula (u : Cfg.Unit) (r dA dC k : Rat) : angleImpl u r dA dC k = angleSpec u r dA dC k := by
  cases u <;> simp [angleImpl, angleSpec, unitFactor, unitDistance, Gen.angle_rad, Gen.angle_deg,
    Gen.angle_arcmin, Gen.angle_arcsec, Gen.angle_kpc, Gen.angle_Mpc, Gen.angle_kpc_h, Gen.angle_Mpc_h] <;> ring

/-- rmin ≥ rmax in ANY scale is rejected -/
theorem scales_rejected (pairs : List (Rat × Rat)) :
    Gen.scalesInvalid pairs = true ↔ ∃ p ∈ pairs, p.2 ≤ p.1 := by
  unfold Gen.scalesInvalid Gen.scaleBad
  -- (both spellings of the test, `any (hi - lo ≤ 0)` and the NaN-proof `not all (hi - lo > 0)`, normalise to `hi ≤ lo`)
  simp only [List.any_eq_true, decide_eq_true_eq, Bool.not_eq_eq_eq_not, Bool.not_true, decide_eq_false_iff_not, gt_iff_lt,
    not_lt, sub_pos, sub_nonpos]

/-- non-increasing (or too few) edges are rejected -/
theorem edges_rejected (e : List Rat) :
    Gen.edgesInvalid e = true ↔ e.length < 2 ∨ ∃ p ∈ e.zip e.tail, p.2 ≤ p.1 := by
  unfold Gen.edgesInvalid
  simp only [Bool.or_eq_true, decide_eq_true_eq, List.any_eq_true, Bool.not_eq_eq_eq_not, Bool.not_true, decide_eq_false_iff_not,
    gt_iff_lt, not_lt, sub_pos, sub_nonpos]

/-- neither edges nor both of zmin / zmax: rejected -/
theorem create_requires_limits (p : BinParams) (h : p.edges = none) (hz : p.zmin = none ∨ p.zmax = none) :
    createBinning p = .error := by
  unfold createBinning
  simp only [h]
  rcases hz with hz | hz <;> cases h1 : p.zmin <;> cases h2 : p.zmax <;> simp_all

/-- a configuration determines its parameters: creating from them reproduces it -/
theorem params_of_create (b : Binning) (p : BinParams) (h : paramsOf b = some p)
    (hvalid : ∀ e c, b = .custom e c → Gen.edgesInvalid e = false)
    (hm : ∀ m a z n c, b = .generated m a z n c → m ≠ .custom) :
    createBinning p = b := by
  cases b with
  | error => simp [paramsOf] at h
  | custom e c =>
    simp only [paramsOf, Option.some.injEq] at h
    subst h
    simp [createBinning, hvalid e c rfl]
  | generated m a z n c =>
    simp only [paramsOf, Option.some.injEq] at h
    subst h
    simp [createBinning, hm m a z n c rfl]

/-- MAIN: modifying a (well-formed) configuration equals creating one from the merged parameters -/
theorem modify_eq_create (b : Binning) (p : BinParams) (d : Delta) (h : paramsOf b = some p)
    (hwf : ∀ m a z n c, b = .generated m a z n c → m ≠ .custom) :
    modifyBinning b d = createBinning (merge p d) := by
  obtain ⟨dz1, dz2, dn, dm, de, dc⟩ := d
  cases b with
  | error => simp [paramsOf] at h
  | custom e c =>
    simp only [paramsOf, Option.some.injEq] at h
    subst h
    cases dz1 <;> cases dz2 <;> cases dn <;> cases dm <;> cases de <;>
      simp [modifyBinning, paramsOf, merge, createBinning, Option.orElse] <;>
      (try (rename_i m; cases m <;> simp)) <;>
      (try (cases e.head? <;> cases e.getLast? <;> simp))
  | generated m a z n c =>
    have hm := hwf m a z n c rfl
    simp only [paramsOf, Option.some.injEq] at h
    subst h
    cases m <;> (try exact absurd rfl hm) <;>
      cases dz1 <;> cases dz2 <;> cases dn <;> cases dm <;> cases de <;>
      simp [modifyBinning, paramsOf, merge, createBinning, Option.orElse] <;>
      (try (rename_i m'; cases m' <;> simp))

/-- modify never touches the original (the model is a pure function) and equal parameters give equal
    configurations -/
theorem eq_of_params (p q : BinParams) (h : p = q) : createBinning p = createBinning q := by rw [h]

theorem glue_pinned :
    Gen.pinGetAngle = "f7c46fa18764c192" ∧ Gen.pinFactoryComoving = "2ebf8b08da596f44" ∧
    Gen.pinFactoryLogspace = "0e7c643de7262af7" ∧ Gen.pinBinningCreate = "73757d11dfdc4686" ∧
    Gen.pinBinningModify = "95396d1672b7153a" ∧ Gen.pinBinningDict = "d28101ba89ea7608" ∧
    Gen.pinConfigCreate = "ed546d3c07fa57fd" ∧ Gen.pinConfigModify = "fb3efc3d54fdcde3" ∧
    Gen.pinConfigDict = "47129a77a0bcb5eb" ∧ Gen.pinConfigEq = "812df7eaeda733e5" := by decide

/-! non-vacuity -/
example : (List.range 4).map (linspace 1 2 3) = [1, 4 / 3, 5 / 3, 2] := by decide +kernel
example : createBinning ⟨some 1, some 2, 3, .linear, none, false⟩ = .generated .linear 1 2 3 false := by decide +kernel

end Yaw.C15
