/-
C01 / C04 / C10 — the measurement functions do with their catalogs what the properties presuppose.

`Gen.crossPlan` / `Gen.autoPlan` are regenerated from `autocorrelate` / `crosscorrelate` on every run
(abstract interpretation per presence pattern of the optional arguments, `translator/plan.py`).  The quantifier of
these theorems is the finite table of presence patterns, so `decide` over the WHOLE table is a proof.
Only property theorems and non-vacuity examples in this file.
-/
import YawVerif.Generated.Plan

namespace Yaw.C01P
open Yaw.Gen Yaw.PlanM

/-- the documented members of the result of `crosscorrelate`, per presence of the two random catalogs -/
def crossSlotsSpec (rr ur : Bool) : List (Option Count) :=
  [ some ⟨.reference, some .unknown⟩,
    if ur then some ⟨.reference, some .unkRand⟩ else none,
    if rr then some ⟨.refRand, some .unknown⟩ else none,
    if rr && ur then some ⟨.refRand, some .unkRand⟩ else none ]

/-- the documented members of the result of `autocorrelate` -/
def autoSlotsSpec (countRR : Bool) : List (Option Count) :=
  [ some ⟨.data, none⟩, some ⟨.data, some .random⟩, none, if countRR then some ⟨.random, none⟩ else none ]

/-- `crosscorrelate` raises exactly when neither random catalog is given; otherwise DD, DR, RD, RR are counted between
exactly the documented catalogs (DR iff unknown randoms, RD iff reference randoms, RR iff both) and land in the
corresponding positional member of `CorrFunc(dd, dr, rd, rr)`. -/
theorem cross_slots (rr ur : Bool) :
    match crossPlan rr ur with
    | none => rr = false ∧ ur = false
    | some p => (rr = true ∨ ur = true) ∧ p.slots = crossSlotsSpec rr ur := by
  cases rr <;> cases ur <;> simp only [crossPlan] <;> decide

/-- Roles (C10): whenever a pair is counted, the FIRST catalog's trees were last built with the configured bin edges
and the configured closed side, and the SECOND catalog's trees were last built unbinned — for the data catalogs and
for every random catalog alike; all builds forward the worker limit. -/
theorem cross_roles (rr ur : Bool) :
    match crossPlan rr ur with
    | none => True
    | some p => ∀ s ∈ p.slots, ∀ c, s = some c →
        builtBinned p c.first = true ∧ ∃ d, c.second = some d ∧ builtUnbinned p d = true := by
  cases rr <;> cases ur <;> simp [crossPlan, builtBinned, builtUnbinned, roleOf]

/-- Linkage (C01): the patch linkage that prunes patch pairs is computed from exactly the catalogs that are counted —
every counted catalog constrains the patch radii, and no catalog is counted that the linkage has not seen. -/
theorem cross_linkage (rr ur : Bool) :
    match crossPlan rr ur with
    | none => True
    | some p => (∀ c ∈ counted p, c ∈ p.linkage) ∧ (∀ c ∈ p.linkage, c ∈ counted p) := by
  cases rr <;> cases ur <;> simp only [crossPlan] <;> decide

/-- `autocorrelate` never refuses; DD is the autocorrelation of the data, DR data × random, RD absent, RR the
autocorrelation of the randoms exactly when `count_rr`. -/
theorem auto_slots (countRR : Bool) :
    ∃ p, autoPlan countRR = some p ∧ p.slots = autoSlotsSpec countRR := by
  cases countRR <;> exact ⟨_, rfl, by decide⟩

/-- both catalogs of an autocorrelation are built with the configured edges and closed side (bin i of the data is
paired with bin i of the randoms), and both enter the linkage. -/
theorem auto_roles (countRR : Bool) :
    ∃ p, autoPlan countRR = some p ∧ (∀ c ∈ counted p, builtBinned p c = true ∧ c ∈ p.linkage) := by
  cases countRR <;> exact ⟨_, rfl, by decide⟩

/-- non-vacuity: with both randoms four counts are made and four catalogs are built -/
example : (crossPlan true true).map (fun p => (p.builds.length, (counted p).length)) = some (4, 8) := by decide

end Yaw.C01P
