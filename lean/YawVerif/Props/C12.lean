/-
  C12 — patch metadata describe the patch; patch i belongs to centre i; guards of a measurement.
-/
import Mathlib.Algebra.Order.Field.Rat
import Mathlib.Tactic.Linarith
import Mathlib.Tactic.FieldSimp
import YawVerif.Model.PatchMeta

namespace Yaw.C12
open Yaw Yaw.Meta

/-- stored number of records and sum of weights are those of the records -/
theorem meta_counts (dists : List Rat) (w : List Rat) :
    (compute dists (some w)).numRecords = dists.length ∧ (compute dists (some w)).sumWeights = lsum w ∧
    (compute dists none).sumWeights = dists.length := ⟨rfl, rfl, rfl⟩

/-- every record lies within the stored radius of the stored centre (computed or given centre alike:
    the radius is measured around whichever centre is stored) -/
theorem radius_contains (dists : List Rat) : ∀ d ∈ dists, d ≤ (compute dists none).radius := by
  unfold compute
  simp only
  induction dists with
  | nil => intro d hd; simp at hd
  | cons x xs ih =>
    intro d hd
    unfold maxList
    rcases List.mem_cons.mp hd with h | h
    · subst h
      split
      · exact le_refl _
      · rename_i hlt; exact not_lt.mp hlt
    · have := ih d h
      split
      · rename_i hlt; exact le_trans this (le_of_lt hlt)
      · exact this

/-- the radius is attained (it is the distance of some record), so it is not larger than needed -/
theorem radius_tight (dists : List Rat) (h : dists ≠ []) (hpos : ∀ d ∈ dists, 0 ≤ d) :
    (compute dists none).radius ∈ dists := by
  unfold compute
  simp only
  induction dists with
  | nil => exact absurd rfl h
  | cons x xs ih =>
    unfold maxList
    split
    · simp
    · rename_i hlt
      by_cases hxs : xs = []
      · subst hxs
        simp only [maxList] at hlt ⊢
        have := hpos x (by simp)
        have : x = 0 := le_antisymm (not_lt.mp hlt) this
        simp [this]
      · exact List.mem_cons_of_mem _ (ih hxs fun d hd => hpos d (List.mem_cons_of_mem _ hd))

/-- a catalog created from N given centres has patches 0 … N-1 and patch i is paired with centre i -/
theorem centres_aligned {α : Type} (ids : List Nat) (centres : List α) (l : List (Nat × α))
    (h : pairCentres ids centres = some l) :
    ids = List.range centres.length ∧ l.length = centres.length ∧
    ∀ i (hi : i < centres.length), l[i]? = some (i, centres[i]) := by
  unfold pairCentres at h
  split at h
  · rename_i hids
    simp only [Option.some.injEq] at h
    subst h
    refine ⟨hids, by simp [hids], ?_⟩
    intro i hi
    subst hids
    simp [List.getElem?_zip_eq_some, hi]
  · simp at h

/-- a centre that attracts no object makes creation fail instead of shifting the later centres -/
theorem missing_centre_rejected {α : Type} (ids : List Nat) (centres : List α)
    (h : ids ≠ List.range centres.length) : pairCentres ids centres = none := by
  unfold pairCentres; simp [h]

/-- the defect repaired by the `fix:` of F8, on the smallest witness: ids [0, 2], centres c0 c1 c2 —
    positional pairing gives patch 2 the centre c1 -/
theorem unchecked_pairing_misaligns :
    pairCentresUnchecked [0, 2] ["c0", "c1", "c2"] = [(0, "c0"), (2, "c1")] := by decide

/-- measurements refuse catalogs whose corresponding centres lie farther apart than the patch
    radius (the code is stricter: half the radius) -/
theorem guard_rejects (d r : Rat) (hr : 0 < r) (hd : r < d) : guardOne d r = true := by
  unfold guardOne Gen.centreGuard Gen.rtol
  have hr0 : r ≠ 0 := ne_of_gt hr
  simp only [hr0, if_false, decide_eq_true_eq, gt_iff_lt]
  rw [lt_div_iff₀ hr]
  linarith

/-- … also for a single-object patch (radius 0) whose centre moved -/
theorem guard_rejects_zero_radius (d : Rat) (hd : 0 < d) : guardOne d 0 = true := by
  unfold guardOne; simp [hd]

theorem guard_any (ds rs : List Rat) (k : Nat) (hk : k < ds.length) (hk' : k < rs.length)
    (h : guardOne ds[k] rs[k] = true) : centresInconsistent ds rs = true := by
  unfold centresInconsistent
  rw [List.any_eq_true]
  refine ⟨(ds[k], rs[k]), ?_, h⟩
  rw [List.mem_iff_getElem]
  exact ⟨k, by simp [hk, hk'], by simp⟩

/-- … and catalogs whose patch index sets differ -/
theorem ids_guard (ids o : List Nat) (others : List (List Nat)) (ho : o ∈ others)
    (x : Nat) (hx : (x ∈ ids ∧ x ∉ o) ∨ (x ∈ o ∧ x ∉ ids)) : idsInconsistent ids others = true := by
  unfold idsInconsistent
  rw [List.any_eq_true]
  refine ⟨o, ho, ?_⟩
  simp only [Bool.not_eq_true', Bool.and_eq_false_iff, List.all_eq_false, List.contains_iff_mem]
  rcases hx with ⟨h1, h2⟩ | ⟨h1, h2⟩
  · right; exact ⟨x, h1, by simpa using h2⟩
  · left; exact ⟨x, h1, by simpa using h2⟩

theorem glue_pinned :
    Gen.pinLoadPatches = "0d2a240a5dce65ab" ∧ Gen.pinMetadataCompute = "5146426264d913fa" ∧
    Gen.pinPatchInit = "578d83fa2df925ec" ∧ Gen.pinGetCenters = "4ff78133909fad43" := by decide

/-! non-vacuity -/
example : (compute [1 / 2, 3 / 4, 1 / 4] none).radius = 3 / 4 := by decide +kernel
example : pairCentres [0, 1, 2] ["a", "b", "c"] = some [(0, "a"), (1, "b"), (2, "c")] := by decide

/-- given centres decide the patch of a record whether or not the input has an index column (documented
    precedence `patch_centers > patch_name`); only without centres the column is used; neither → error -/
theorem centres_take_precedence :
    (∀ col, Gen.patchSource true col = 0) ∧ Gen.patchSource false true = 1 ∧ Gen.patchSource false false = 2 := by
  refine ⟨fun col => by cases col <;> rfl, rfl, rfl⟩

end Yaw.C12
