/-
  C04 — estimators and the n(z) formula are applied as documented.
-/
import YawVerif.Lemmas.Sums
import Mathlib.Algebra.Order.BigOperators.Group.Finset
import Mathlib.Tactic.NormNum
import YawVerif.Model.CorrFuncGlue
import YawVerif.Generated.Nz
import YawVerif.Generated.NzReal

namespace Yaw.C04
open Yaw Yaw.Spec Yaw.Impl

/-- Landy–Szalay with all four terms -/
theorem ls_eq (dd dr rd rr : Rat) : Gen.ls dd dr rr (some rd) = some (Spec.ls dd dr rd rr) := by
  unfold Gen.ls Spec.ls
  simp only [Option.some.injEq]
  ring

/-- a missing RD is replaced by DR -/
theorem ls_missing_rd (dd dr rr : Rat) : Gen.ls dd dr rr none = some (Spec.ls dd dr dr rr) := by
  unfold Gen.ls Spec.ls
  simp only [Option.some.injEq]
  ring

/-- Davis–Peebles DD/DR - 1 (DR only), for a non-zero denominator (numpy yields nan/inf otherwise) -/
theorem dp_dr (dd dr : Rat) (h : dr ≠ 0) : Gen.dp dd (some dr) none = some (Spec.dp dd dr) := by
  unfold Gen.dp Spec.dp
  simp only [Option.some.injEq]
  field_simp

/-- Davis–Peebles DD/RD - 1 whenever RD is present (with or without DR) -/
theorem dp_rd (dd rd : Rat) (dr : Option Rat) (h : rd ≠ 0) :
    Gen.dp dd dr (some rd) = some (Spec.dp dd rd) := by
  unfold Gen.dp Spec.dp
  cases dr <;> simp only [Option.some.injEq] <;> field_simp

/-- with neither DR nor RD the estimator raises -/
theorem dp_none (dd : Rat) : Gen.dp dd none none = none := rfl

/-- decision table of `CorrFunc.sample`: RR present → LS (needs DR), else DP -/
theorem choose_table (dd : Rat) (dr rd rr : Option Rat) :
    Impl.estimate dd dr rd rr =
      match rr, dr with
      | some rr, some dr => some (Spec.ls dd dr (rd.getD dr) rr)
      | some _, none => none
      | none, _ => Gen.dp dd dr rd := by
  unfold Impl.estimate Gen.useLS
  cases rr <;> cases dr <;> cases rd <;> simp [ls_eq, ls_missing_rd]

/-- cross-correlation normalisation: Σ_ij w1_i w2_j = (Σ w1)(Σ w2) -/
theorem norm_cross (N : Nat) (w1 w2 : Nat → Rat) :
    total N (Gen.weightArr false w1 w2) = normCross N w1 w2 := by
  unfold total Gen.weightArr normCross
  simp only [sumTo_eq, Bool.false_eq_true, if_false]
  rw [Finset.sum_mul_sum]

/-- autocorrelation normalisation: upper triangle with halved diagonal = ½ (Σ w)² -/
theorem norm_auto (N : Nat) (w : Nat → Rat) :
    total N (Gen.weightArr true w w) = normAuto N w := by
  have hsym : ∀ i j, Gen.weightArr true w w i j + Gen.weightArr true w w j i = w i * w j := by
    intro i j
    unfold Gen.weightArr
    simp only [if_true]
    rcases Nat.lt_trichotomy i j with h | h | h
    · have h1 : i ≠ j := by omega
      have h2 : j ≠ i := by omega
      have h3 : i ≤ j := by omega
      have h4 : ¬ j ≤ i := by omega
      simp [h1, h2, h3, h4]
    · subst h
      simp
      ring
    · have h1 : i ≠ j := by omega
      have h2 : j ≠ i := by omega
      have h3 : ¬ i ≤ j := by omega
      have h4 : j ≤ i := by omega
      simp [h1, h2, h3, h4]
      ring
  have h2 : total N (Gen.weightArr true w w) + total N (Gen.weightArr true w w)
      = sumTo N w * sumTo N w := by
    unfold total
    conv_lhs => rhs; rw [sumTo_comm]
    rw [← sumTo_add]
    simp only [← sumTo_add, hsym]
    simp only [sumTo_eq]
    rw [Finset.sum_mul_sum]
  unfold normAuto
  linarith

/-- each term of the estimator = total pair count / product of total weights (cross) -/
theorem term_normalisation_cross (N : Nat) (a : Nat → Nat → Rat) (w1 w2 : Nat → Rat) :
    (NC.mk a w1 w2 false).data N = total N a / normCross N w1 w2 := by
  unfold NC.data NC.normArr Gen.normData
  simp only [C04.norm_cross, show ∀ b, Gen.jkData N b = total N b from fun _ => rfl]

/-- … and half the squared total weight for an autocorrelation -/
theorem term_normalisation_auto (N : Nat) (a : Nat → Nat → Rat) (w : Nat → Rat) :
    (NC.mk a w w true).data N = total N a / normAuto N w := by
  unfold NC.data NC.normArr Gen.normData
  simp only [C04.norm_auto, show ∀ b, Gen.jkData N b = total N b from fun _ => rfl]

/-- n(z) = w_sp / sqrt(dz² · w_ss · w_pp), over the reals (generated from `from_corrdata`) -/
theorem nz_formula (wsp dz wss wpp : ℝ) :
    GenR.nzData wsp (dz ^ 2) wss wpp = wsp / Real.sqrt (dz ^ 2 * wss * wpp) := by
  unfold GenR.nzData
  rfl

/-- the value and every jackknife sample use the same function -/
theorem nz_same_for_samples : GenR.nzSamples = GenR.nzData := rfl

/-- absent autocorrelations are taken as 1 -/
theorem nz_absent_is_one : GenR.nzAbsent = 1 ∧ Gen.nzAbsent = 1 := ⟨rfl, rfl⟩

/-- without autocorrelations n(z) = w_sp / |dz| -/
theorem nz_no_autocorr (wsp dz : ℝ) :
    GenR.nzData wsp (dz ^ 2) GenR.nzAbsent GenR.nzAbsent = wsp / |dz| := by
  unfold GenR.nzData GenR.nzAbsent
  simp [Real.sqrt_sq_eq_abs]

/-- the Rat-side pieces used by the driver are the same numerator / radicand -/
theorem nz_rat_pieces (wsp dz2 wss wpp : Rat) :
    Gen.nzNumData wsp = wsp ∧ Gen.nzRadicandData dz2 wss wpp = dz2 * wss * wpp ∧
    Gen.nzNumSamples wsp = wsp ∧ Gen.nzRadicandSamples dz2 wss wpp = dz2 * wss * wpp :=
  ⟨rfl, rfl, rfl, rfl⟩

/-- glue (None handling of the autocorrelations) that the hand model mirrors is unchanged -/
theorem nz_glue_pinned : Gen.pinFromCorrdataGlue = "1fd75634c0721378" := by decide

/-- normalising a histogram makes its integral over the binning 1 (norm = nansum of the
    generated argument, all entries finite) -/
theorem hist_normalised_integral (B : Nat) (emin emax : Rat) (dz d : Nat → Rat)
    (hnorm : sumTo B (Gen.histNormArg B emin emax dz d) ≠ 0) :
    integral B dz (Gen.histNormData B emin emax (sumTo B (Gen.histNormArg B emin emax dz d)) dz d)
      = 1 := by
  unfold integral Gen.histNormData
  have : ∀ i, dz i * (d i * ((emin - emax) / ((B : Rat) * dz i)) /
        sumTo B (Gen.histNormArg B emin emax dz d))
      = Gen.histNormArg B emin emax dz d i * (1 / sumTo B (Gen.histNormArg B emin emax dz d)) := by
    intro i
    unfold Gen.histNormArg
    ring
  simp only [this, sumTo_mul_right]
  field_simp

/-- normalising a redshift estimate makes its integral 1 -/
theorem nz_normalised_integral (B : Nat) (dz y : Nat → Rat) (hnorm : integral B dz y ≠ 0) :
    integral B dz (fun i => y i / integral B dz y) = 1 := by
  have : ∀ i, dz i * (y i / integral B dz y) = (dz i * y i) * (1 / integral B dz y) := by
    intro i; ring
  unfold integral at *
  simp only [this, sumTo_mul_right]
  field_simp

/-! non-vacuity -/
example : Gen.ls 10 4 2 (some 3) = some ((10 - 4 - 3 + 2) / 2) := by norm_num [Gen.ls]
example : Impl.estimate 10 (some 4) none none = some (3 / 2) := by norm_num [Impl.estimate, Gen.useLS, Gen.dp]
example : sumTo 2 (Gen.histNormArg 2 0 1 (fun _ => 1 / 2) (fun i => (i : Rat) + 1)) ≠ 0 := by
  norm_num [sumTo, Gen.histNormArg]

end Yaw.C04
