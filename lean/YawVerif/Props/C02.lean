/-
  C02 — catalog creation stores every input record exactly once, unchanged.
-/
import YawVerif.Lemmas.Reader

namespace Yaw.C02
open Yaw Yaw.Rd Yaw.Pipe

/-- reading in chunks loses nothing (shared with C18) -/
theorem chunks_flatten {α : Type} (xs : List α) (c : Nat) (hc : 1 ≤ c) : (readAll xs c).flatten = xs := by
  unfold readAll
  simpa using read_from xs c hc (xs.length + 1) 0 (by omega)

/-- splitting a chunk over the workers loses nothing -/
theorem arraySplit_flatten {α : Type} (w : Nat) (hw : 1 ≤ w) (xs : List α) : (arraySplit w xs).flatten = xs :=
  Pipe.arraySplit_flatten w hw xs

/-- the writer of a patch flushes everything it received, in order, for every buffer size (also -1) -/
theorem writer_flush_complete {α : Type} (b : Int) (shards : List (List α)) :
    ((shards.foldl (Writer.process b) ⟨[], []⟩).close).file = shards.flatten := by
  simpa using Pipe.writer_flush_complete b shards ⟨[], []⟩

/-- MAIN: whatever the chunk size c ≥ 1, worker count w ≥ 1, buffer size and the order in which the
    workers of each chunk deliver their part, the data file of patch p holds exactly the input
    records of patch p (as a multiset), each once and unchanged -/
theorem pipeline_multiset {α : Type} (key : α → Nat) (p : Nat) (b : Int) (xs : List α)
    (arrivals : List (List α)) (h : arrivals.flatten.Perm xs) :
    (written key p b arrivals).Perm (xs.filter fun x => key x == p) := by
  rw [written_eq]
  exact h.filter _

/-- the arrivals of a parallel run — every chunk split over w workers and delivered in any order —
    satisfy the premise of `pipeline_multiset` -/
theorem arrivals_perm {α : Type} (xs : List α) (c w : Nat) (hc : 1 ≤ c) (hw : 1 ≤ w)
    (deliver : List (List α) → List (List α)) (hd : ∀ l, (deliver l).Perm l) :
    (((readAll xs c).map fun ch => deliver (arraySplit w ch)).flatten).flatten.Perm xs := by
  have key : ∀ chunks : List (List α),
      ((chunks.map fun ch => deliver (arraySplit w ch)).flatten).flatten.Perm chunks.flatten := by
    intro chunks
    induction chunks with
    | nil => simp
    | cons ch rest ih =>
      simp only [List.map_cons, List.flatten_cons, List.flatten_append]
      have h1 : (deliver (arraySplit w ch)).flatten.Perm ch := by
        have := (hd (arraySplit w ch)).flatten
        rwa [Pipe.arraySplit_flatten w hw ch] at this
      exact h1.append ih
  have := key (readAll xs c)
  rwa [chunks_flatten xs c hc] at this

/-- sequential mode (one worker, in-order delivery): the file is exactly the sub-sequence of the
    input, so the result does not depend on the chunk size at all -/
theorem sequential_exact {α : Type} (key : α → Nat) (p : Nat) (b : Int) (xs : List α) (c : Nat) (hc : 1 ≤ c) :
    written key p b (readAll xs c) = xs.filter fun x => key x == p := by
  rw [written_eq, chunks_flatten xs c hc]

/-- corollary: independent of chunk size, buffer size, worker count and delivery order -/
theorem pipeline_independent {α : Type} (key : α → Nat) (p : Nat) (xs : List α)
    (b1 b2 : Int) (a1 a2 : List (List α)) (h1 : a1.flatten.Perm xs) (h2 : a2.flatten.Perm xs) :
    (written key p b1 a1).Perm (written key p b2 a2) :=
  (pipeline_multiset key p b1 xs a1 h1).trans (pipeline_multiset key p b2 xs a2 h2).symm

/-- the header byte of a patch data file round-trips all optional-column flags -/
theorem header_roundtrip : ∀ f0 f1 f2 : Bool,
    (decodeHeader (encodeHeader fun k => match k with | 0 => f0 | 1 => f1 | _ => f2) 0 = f0) ∧
    (decodeHeader (encodeHeader fun k => match k with | 0 => f0 | 1 => f1 | _ => f2) 1 = f1) ∧
    (decodeHeader (encodeHeader fun k => match k with | 0 => f0 | 1 => f1 | _ => f2) 2 = f2) := by
  decide

theorem glue_pinned :
    Gen.pinReadPatchData = "d790de7baed0475a" ∧ Gen.pinPatchWriter = "d004ce4ac7f62d59" ∧
    Gen.pinGroupby = "26ee2f474530068a" ∧ Gen.pinSplitIntoPatches = "d3f24646fbf4ed14" ∧
    Gen.pinWriteUnthreaded = "8a5acea113c96fa9" ∧ Gen.pinFinalize = "41316e5c2cde1ada" ∧
    Gen.pinWritePatchesMP = "46c840d17381bc14" := by decide

/-! non-vacuity -/
example : arraySplit 3 [1, 2, 3, 4, 5, 6, 7] = [[1, 2, 3], [4, 5], [6, 7]] := by decide
example : written (fun x => x % 2) 1 2 [[1, 2], [3], [4, 5]] = [1, 3, 5] := by decide

end Yaw.C02
