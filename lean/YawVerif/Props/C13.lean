/-
  C13 — invariance under rotations, row order, patch labels, weight scale; additivity.
  Stated on the specification (`PC.cnt`, `Spec.total/looTotal`, normalised terms), which C01/C03/C04
  equate with the implementation.
-/
import YawVerif.Lemmas.PairCount
import YawVerif.Model.CorrFuncGlue
import Mathlib.Analysis.InnerProductSpace.PiL2
import Mathlib.Geometry.Euclidean.Angle.Unoriented.Basic
import Mathlib.Algebra.BigOperators.Fin

namespace Yaw.C13
open Yaw Yaw.PC Yaw.Spec

/-- a common rigid rotation (any linear isometry of ℝ³) preserves every chord length … -/
theorem rotation_preserves_chord (R : EuclideanSpace ℝ (Fin 3) →ₗᵢ[ℝ] EuclideanSpace ℝ (Fin 3))
    (x y : EuclideanSpace ℝ (Fin 3)) : ‖R x - R y‖ = ‖x - y‖ := by
  rw [← map_sub, LinearIsometry.norm_map]

/-- … and every angular separation, wherever the points lie (poles, RA wrap are not special) -/
theorem rotation_preserves_angle (R : EuclideanSpace ℝ (Fin 3) →ₗᵢ[ℝ] EuclideanSpace ℝ (Fin 3))
    (x y : EuclideanSpace ℝ (Fin 3)) :
    InnerProductGeometry.angle (R x) (R y) = InnerProductGeometry.angle x y :=
  LinearIsometry.angle_map R x y

/-- the count depends on the objects only through (weight product, separation): equal pair data,
    equal count — so a transformation that preserves all separations preserves all counts -/
theorem count_of_equal_pairs (P Q : Pairs) (h : P = Q) (lo hi : Rat) : cnt P lo hi = cnt Q lo hi := by
  rw [h]

theorem lsum_perm {a b : List Rat} (h : a.Perm b) : lsum a = lsum b := by
  induction h with
  | nil => rfl
  | cons x _ ih => simp [lsum, ih]
  | swap x y l => simp [lsum]; ring
  | trans _ _ ih1 ih2 => exact ih1.trans ih2

theorem lsum_append' (a b : List Rat) : lsum (a ++ b) = lsum a + lsum b := by
  induction a with
  | nil => simp [lsum]
  | cons x xs ih => simp [lsum, ih, add_assoc]

/-- reordering the input rows (any permutation of the object pairs) leaves every count unchanged -/
theorem row_perm_invariant (P Q : Pairs) (h : P.Perm Q) (lo hi : Rat) : cnt P lo hi = cnt Q lo hi := by
  unfold cnt
  exact lsum_perm ((h.filter _).map _)

/-- raw counts are additive: the pairs of a split catalog are the union of the parts' pairs -/
theorem counts_additive (P Q : Pairs) (lo hi : Rat) : cnt (P ++ Q) lo hi = cnt P lo hi + cnt Q lo hi := by
  unfold cnt
  rw [List.filter_append, List.map_append, lsum_append']

theorem sumTo_eq_fin (n : Nat) (f : Nat → Rat) : sumTo n f = ∑ i : Fin n, f i := by
  rw [sumTo_eq, Finset.sum_range]

/-- relabelling the patches by a permutation σ: an equivariant array (a' (σ i) (σ j) = a i j) has the
    same total, and jackknife sample σ k of the relabelled data is sample k of the original — samples
    permute accordingly -/
theorem label_perm_equivariant (N : Nat) (σ : Equiv.Perm (Fin N)) (a a' : Nat → Nat → Rat)
    (h : ∀ i j : Fin N, a' (σ i) (σ j) = a i j) :
    total N a' = total N a ∧ ∀ k : Fin N, looTotal N a' (σ k) = looTotal N a k := by
  constructor
  · unfold total
    simp only [sumTo_eq_fin]
    rw [← Equiv.sum_comp σ]
    apply Finset.sum_congr rfl
    intro i _
    rw [← Equiv.sum_comp σ]
    exact Finset.sum_congr rfl fun j _ => h i j
  · intro k
    unfold looTotal sumSkip
    simp only [sumTo_eq_fin]
    rw [← Equiv.sum_comp σ]
    apply Finset.sum_congr rfl
    intro i _
    have e1 : ((σ i : Nat) = (σ k : Nat)) ↔ ((i : Nat) = (k : Nat)) := by
      rw [← Fin.ext_iff, ← Fin.ext_iff]; exact σ.injective.eq_iff
    by_cases hik : (i : Nat) = (k : Nat)
    · simp [hik, e1.mpr hik]
    · have : ¬ ((σ i : Nat) = (σ k : Nat)) := fun hh => hik (e1.mp hh)
      simp only [this, hik, if_false]
      rw [← Equiv.sum_comp σ]
      apply Finset.sum_congr rfl
      intro j _
      have e2 : ((σ j : Nat) = (σ k : Nat)) ↔ ((j : Nat) = (k : Nat)) := by
        rw [← Fin.ext_iff, ← Fin.ext_iff]; exact σ.injective.eq_iff
      by_cases hjk : (j : Nat) = (k : Nat)
      · simp [hjk, e2.mpr hjk]
      · have : ¬ ((σ j : Nat) = (σ k : Nat)) := fun hh => hjk (e2.mp hh)
        simp only [this, hjk, if_false]
        exact h i j

/-- the mean over the jackknife samples does not depend on the order of the samples -/
theorem mean_perm (n : Nat) (σ : Equiv.Perm (Fin n)) (x x' : Nat → Nat → Rat)
    (h : ∀ (k : Fin n) (p : Nat), x' (σ k) p = x k p) (p : Nat) : mean n x' p = mean n x p := by
  unfold mean
  congr 1
  simp only [sumTo_eq_fin]
  rw [← Equiv.sum_comp σ]
  exact Finset.sum_congr rfl fun k _ => h k p

/-- **the jackknife covariance is invariant under relabelling the patches**: the samples of the relabelled measurement are the
original samples in permuted order (`label_perm_equivariant`), and the delete-one covariance — a symmetric function of the
samples — does not see the order.  Together: amplitudes (same total), samples (permuted) and covariance (unchanged). -/
theorem cov_perm_invariant (n : Nat) (σ : Equiv.Perm (Fin n)) (x x' : Nat → Nat → Rat)
    (h : ∀ (k : Fin n) (p : Nat), x' (σ k) p = x k p) (p q : Nat) : jkCov n x' p q = jkCov n x p q := by
  unfold jkCov
  congr 1
  simp only [sumTo_eq_fin, mean_perm n σ x x' h]
  rw [← Equiv.sum_comp σ]
  exact Finset.sum_congr rfl fun k _ => by rw [h k p, h k q]

/-- multiplying all weights of the first catalog by c ≠ 0 leaves every normalised cross term unchanged -/
theorem weight_scale_invariant_cross (N : Nat) (a : Nat → Nat → Rat) (w1 w2 : Nat → Rat) (c : Rat) (hc : c ≠ 0) :
    (NC.mk (fun i j => c * a i j) (fun i => c * w1 i) w2 false).data N = (NC.mk a w1 w2 false).data N := by
  unfold NC.data NC.normArr Gen.normData Gen.jkData Gen.weightArr
  simp only [Bool.false_eq_true, if_false]
  have h1 : (sumTo N fun ei => sumTo N fun ej => c * a ei ej) = c * sumTo N fun ei => sumTo N fun ej => a ei ej := by
    simp only [sumTo_mul_left]
  have h2 : (sumTo N fun ei => sumTo N fun ej => c * w1 ei * w2 ej)
      = c * sumTo N fun ei => sumTo N fun ej => w1 ei * w2 ej := by
    simp only [mul_assoc, sumTo_mul_left]
  rw [h1, h2]
  by_cases hz : (sumTo N fun ei => sumTo N fun ej => w1 ei * w2 ej) = 0
  · simp [hz]
  · field_simp

/-- … and of an autocorrelation term (counts scale with c², the normalisation too) -/
theorem weight_scale_invariant_auto (N : Nat) (a : Nat → Nat → Rat) (w : Nat → Rat) (c : Rat) (hc : c ≠ 0) :
    (NC.mk (fun i j => c * c * a i j) (fun i => c * w i) (fun i => c * w i) true).data N
      = (NC.mk a w w true).data N := by
  unfold NC.data NC.normArr Gen.normData Gen.jkData
  have hw : ∀ i j, Gen.weightArr true (fun i => c * w i) (fun i => c * w i) i j
      = c * c * Gen.weightArr true w w i j := by
    intro i j
    unfold Gen.weightArr
    simp only [if_true]
    split <;> split <;> ring
  simp only [hw, sumTo_mul_left]
  by_cases hz : (sumTo N fun ei => sumTo N fun ej => Gen.weightArr true w w ei ej) = 0
  · simp [hz]
  · field_simp

/-! non-vacuity -/
example : cnt ([(1, 1 / 2)] ++ [(2, 1 / 2)]) 0 1 = 3 := by decide +kernel

end Yaw.C13
