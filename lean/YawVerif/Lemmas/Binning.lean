import Mathlib.Algebra.Order.Field.Rat
import Mathlib.Tactic.Linarith
import YawVerif.Model.Binning

namespace Yaw.Bin

theorem countP_le (p : Nat → Bool) (n : Nat) : countP p n ≤ n := by
  induction n with
  | zero => simp [countP]
  | succ n ih => unfold countP; split <;> omega

/-- for a downward-closed predicate, `countP` is the length of the true prefix -/
theorem countP_spec (p : Nat → Bool) (hp : ∀ i j, i ≤ j → p j = true → p i = true) (n : Nat) :
    ∀ j, j < n → (p j = true ↔ j < countP p n) := by
  induction n with
  | zero => intro j hj; omega
  | succ n ih =>
    intro j hj
    unfold countP
    by_cases hpn : p n = true
    · -- everything up to n is true, so the count is n + 1
      have hall : ∀ k, k < n → p k = true := fun k hk => hp k n (by omega) hpn
      have hcount : countP p n = n := by
        have hle := countP_le p n
        by_contra hne
        have hlt : countP p n < n := by omega
        have := (ih (countP p n) hlt).mp (hall _ hlt)
        omega
      simp only [hpn, if_true, hcount]
      constructor
      · intro _; omega
      · intro _
        by_cases hjn : j = n
        · subst hjn; exact hpn
        · exact hall j (by omega)
    · have hpn' : p n = false := by simpa using hpn
      simp only [hpn', Bool.false_eq_true, if_false, Nat.add_zero]
      have hle := countP_le p n
      by_cases hjn : j = n
      · subst hjn
        constructor
        · intro h; exact absurd h hpn
        · intro h; omega
      · exact ih j (by omega)

/-- strictly increasing edges `e 0 < e 1 < … < e B` -/
def StrictEdges (e : Nat → Rat) (B : Nat) : Prop := ∀ i j, i < j → j ≤ B → e i < e j

theorem option_ext {x y : Option Nat} (h : ∀ b, x = some b ↔ y = some b) : x = y := by
  cases x with
  | none =>
    cases y with
    | none => rfl
    | some b => exact absurd ((h b).mpr rfl) (by simp)
  | some a => exact ((h a).mp rfl).symm ▸ rfl

end Yaw.Bin
