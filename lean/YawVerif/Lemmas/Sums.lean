import Mathlib.Algebra.BigOperators.Ring.Finset
import Mathlib.Algebra.BigOperators.Intervals
import Mathlib.Algebra.Order.Field.Rat
import Mathlib.Tactic.Ring
import Mathlib.Tactic.FieldSimp
import Mathlib.Tactic.Linarith
import YawVerif.Model.Basic

open Finset

namespace Yaw

theorem sumTo_eq (n : Nat) (f : Nat → Rat) : sumTo n f = ∑ i ∈ range n, f i := by
  induction n with
  | zero => simp [sumTo]
  | succ n ih => simp [sumTo, ih, Finset.sum_range_succ]

theorem sumTo_congr {n : Nat} {f g : Nat → Rat} (h : ∀ i, i < n → f i = g i) :
    sumTo n f = sumTo n g := by
  rw [sumTo_eq, sumTo_eq]
  exact Finset.sum_congr rfl fun i hi => h i (Finset.mem_range.mp hi)

theorem sumTo_add (n : Nat) (f g : Nat → Rat) :
    sumTo n (fun i => f i + g i) = sumTo n f + sumTo n g := by
  simp [sumTo_eq, Finset.sum_add_distrib]

theorem sumTo_sub (n : Nat) (f g : Nat → Rat) :
    sumTo n (fun i => f i - g i) = sumTo n f - sumTo n g := by
  simp [sumTo_eq, Finset.sum_sub_distrib]

theorem sumTo_mul_left (n : Nat) (c : Rat) (f : Nat → Rat) :
    sumTo n (fun i => c * f i) = c * sumTo n f := by
  simp [sumTo_eq, Finset.mul_sum]

theorem sumTo_mul_right (n : Nat) (c : Rat) (f : Nat → Rat) :
    sumTo n (fun i => f i * c) = sumTo n f * c := by
  simp [sumTo_eq, Finset.sum_mul]

theorem sumTo_zero (n : Nat) : sumTo n (fun _ => (0 : Rat)) = 0 := by
  simp [sumTo_eq]

theorem sumTo_const (n : Nat) (c : Rat) : sumTo n (fun _ => c) = n * c := by
  simp [sumTo_eq]

theorem sumTo_comm (n m : Nat) (f : Nat → Nat → Rat) :
    (sumTo n fun i => sumTo m fun j => f i j) = sumTo m fun j => sumTo n fun i => f i j := by
  simp only [sumTo_eq]
  exact Finset.sum_comm

/-- leave-one-out sum = full sum minus the left-out term -/
theorem sumSkip_eq {n k : Nat} (hk : k < n) (f : Nat → Rat) :
    sumSkip n k f = sumTo n f - f k := by
  unfold sumSkip
  rw [sumTo_eq, sumTo_eq]
  have hmem : k ∈ range n := Finset.mem_range.mpr hk
  rw [← Finset.add_sum_erase _ _ hmem, ← Finset.add_sum_erase (range n) f hmem]
  simp only [if_true]
  have : ∀ i ∈ (range n).erase k, (if i = k then (0:Rat) else f i) = f i := by
    intro i hi
    have : i ≠ k := (Finset.mem_erase.mp hi).1
    simp [this]
  rw [Finset.sum_congr rfl this]
  ring

/-- summing the array with entry `k` removed = full sum minus entry `k` -/
theorem sumTo_skipIdx {n k : Nat} (hk : k ≤ n) (f : Nat → Rat) :
    sumTo n (fun i => f (skipIdx k i)) = sumTo (n + 1) f - f k := by
  induction n with
  | zero =>
    have : k = 0 := by omega
    subst this
    simp [sumTo]
  | succ n ih =>
    by_cases hkn : k ≤ n
    · have h1 : skipIdx k n = n + 1 := by unfold skipIdx; split <;> omega
      rw [sumTo, ih hkn, h1]
      simp only [sumTo]
      ring
    · have hk' : k = n + 1 := by omega
      subst hk'
      have : sumTo (n + 1) (fun i => f (skipIdx (n + 1) i)) = sumTo (n + 1) f := by
        apply sumTo_congr
        intro i hi
        unfold skipIdx
        simp [hi]
      rw [this]
      simp only [sumTo]
      ring

end Yaw
