import Mathlib.Tactic.Linarith
import Mathlib.Tactic.Ring
import YawVerif.Model.Reader
import YawVerif.Model.Pipeline

namespace Yaw.Rd

theorem pySlice_step {α : Type} (xs : List α) (s c : Nat) :
    pySlice xs (((s : Int) + c) - c) ((s : Int) + c) = (xs.drop s).take c := by
  unfold pySlice
  have h1 : (((s : Int) + c) - c).toNat = s := by
    have : ((s : Int) + c) - c = (s : Int) := by ring
    rw [this]; exact Int.toNat_natCast s
  have h2 : ((s : Int) + c).toNat = s + c := by
    have : ((s : Int) + c) = ((s + c : Nat) : Int) := by push_cast; ring
    rw [this]; exact Int.toNat_natCast _
  rw [h1, h2]
  have : s + c - s = c := by omega
  rw [this]

/-- invariant of one pass: from counter `s` on, the chunks concatenate to the unread rest -/
theorem read_from {α : Type} (xs : List α) (c : Nat) (hc : 1 ≤ c) :
    ∀ (fuel s : Nat), xs.length - s + 1 ≤ fuel →
      ((requests xs.length c fuel s).map fun r => pySlice xs r.1 r.2).flatten = xs.drop s := by
  intro fuel
  induction fuel with
  | zero => intro s h; omega
  | succ fuel ih =>
    intro s h
    unfold requests Gen.readerStop Gen.readerAdvance Gen.dfSliceLo Gen.dfSliceHi
    by_cases hs : (s : Int) ≥ (xs.length : Int)
    · simp only [hs, decide_true, if_true, List.map_nil, List.flatten_nil]
      have : xs.length ≤ s := by exact_mod_cast hs
      exact (List.drop_eq_nil_of_le this).symm
    · simp only [hs, decide_false, Bool.false_eq_true, if_false, List.map_cons, List.flatten_cons]
      have hlt : s < xs.length := by
        have : ¬ (xs.length ≤ s) := fun hh => hs (by exact_mod_cast hh)
        omega
      rw [pySlice_step]
      have hcast : ((s : Int) + (c : Int)) = ((s + c : Nat) : Int) := by push_cast; ring
      rw [hcast, ih (s + c) (by omega)]
      rw [← List.drop_drop]
      exact List.take_append_drop c (xs.drop s)

theorem slice_len_le {α : Type} (xs : List α) (s c : Nat) : ((xs.drop s).take c).length ≤ c := by
  simp [List.length_take]

/-- every request spans exactly `c` rows and starts where the previous one ended -/
theorem requests_shape (n : Int) (c : Nat) :
    ∀ (fuel : Nat) (s : Int),
      (∀ r ∈ requests n c fuel s, r.2 = r.1 + c) ∧
      List.IsChain (fun a b : Int × Int => b.1 = a.2) (requests n c fuel s) ∧
      (∀ r, (requests n c fuel s).head? = some r → r.1 = s) := by
  intro fuel
  induction fuel with
  | zero => intro s; simp [requests]
  | succ fuel ih =>
    intro s
    unfold requests Gen.readerStop Gen.readerAdvance Gen.dfSliceLo Gen.dfSliceHi
    by_cases hs : s ≥ n
    · simp [hs]
    · simp only [hs, decide_false, Bool.false_eq_true, if_false]
      obtain ⟨h1, h2, h3⟩ := ih (s + c)
      refine ⟨?_, ?_, ?_⟩
      · intro r hr
        rcases List.mem_cons.mp hr with h | h
        · subst h; simp
        · exact h1 r h
      · cases hreq : requests n c fuel (s + c) with
        | nil => simp
        | cons r rs =>
          rw [hreq] at h2 h3
          refine List.IsChain.cons_cons ?_ h2
          have := h3 r (by simp)
          simp [this]
      · intro r hr
        simp only [List.head?_cons, Option.some.injEq] at hr
        subst hr; simp

theorem randomSizes_stop (n c : Int) (fuel : Nat) (s : Int) (h : s ≥ n) : randomSizes n c fuel s = [] := by
  cases fuel with
  | zero => rfl
  | succ f => unfold randomSizes Gen.readerStop; simp [h]

/-- random reader: the chunk sizes of one pass add up to exactly `n`, each in 1 … c -/
theorem random_from (n c : Int) (hc : 1 ≤ c) :
    ∀ (fuel : Nat) (s : Int), 0 ≤ s → (n - s).toNat + 1 ≤ fuel →
      (s ≤ n → (randomSizes n c fuel s).sum = n - s) ∧
      ∀ x ∈ randomSizes n c fuel s, 1 ≤ x ∧ x ≤ c := by
  intro fuel
  induction fuel with
  | zero => intro s _ h; omega
  | succ fuel ih =>
    intro s hs0 h
    unfold randomSizes Gen.readerStop Gen.readerAdvance Gen.randomChunkSize
    by_cases hs : s ≥ n
    · simp only [hs, decide_true, if_true, List.sum_nil, List.not_mem_nil, false_imp_iff, implies_true, and_true]
      intro hsn; omega
    · simp only [hs, decide_false, Bool.false_eq_true, if_false]
      by_cases hend : s + c ≥ n
      · have hstop := randomSizes_stop n c fuel (s + c) hend
        simp only [hend, decide_true, if_true, hstop, List.sum_cons, List.sum_nil, List.mem_cons,
          List.not_mem_nil, or_false, forall_eq]
        constructor
        · intro _; omega
        · constructor <;> omega
      · simp only [hend, decide_false, Bool.false_eq_true, if_false, List.sum_cons, List.mem_cons]
        obtain ⟨ih1, ih2⟩ := ih (s + c) (by omega) (by omega)
        constructor
        · intro _
          rw [ih1 (by omega)]
          omega
        · intro x hx
          rcases hx with h | h
          · subst h; constructor <;> omega
          · exact ih2 x h

end Yaw.Rd

namespace Yaw.Pipe

theorem arraySplitFrom_flatten {α : Type} (q : Nat) :
    ∀ (w r : Nat) (xs : List α), r ≤ w → xs.length = q * w + r →
      (arraySplitFrom q r w xs).flatten = xs := by
  intro w
  induction w with
  | zero =>
    intro r xs hr hlen
    have : xs.length = 0 := by omega
    simp [arraySplitFrom, List.length_eq_zero_iff.mp this]
  | succ w ih =>
    intro r xs hr hlen
    unfold arraySplitFrom
    simp only [List.flatten_cons]
    by_cases hr0 : r > 0
    · simp only [hr0, if_true]
      rw [ih (r - 1) (xs.drop (q + 1)) (by omega) (by rw [List.length_drop, hlen, Nat.mul_succ]; omega)]
      exact List.take_append_drop _ xs
    · simp only [hr0, if_false]
      have : r = 0 := by omega
      subst this
      rw [ih 0 (xs.drop q) (by omega) (by rw [List.length_drop, hlen, Nat.mul_succ]; omega)]
      exact List.take_append_drop _ xs

/-- `np.array_split` loses or duplicates nothing, for every worker count ≥ 1 -/
theorem arraySplit_flatten {α : Type} (w : Nat) (hw : 1 ≤ w) (xs : List α) :
    (arraySplit w xs).flatten = xs := by
  unfold arraySplit
  apply arraySplitFrom_flatten
  · exact le_of_lt (Nat.mod_lt _ (by omega))
  · rw [Nat.mul_comm]; exact (Nat.div_add_mod xs.length w).symm

theorem process_logical {α : Type} (b : Int) (w : Writer α) (shard : List α) :
    (Writer.process b w shard).file ++ (Writer.process b w shard).buffer.flatten
      = w.file ++ w.buffer.flatten ++ shard := by
  unfold Writer.process Writer.flush
  simp only
  split <;> simp

/-- every record handed to a patch writer reaches the file, in order, for every buffer size -/
theorem writer_flush_complete {α : Type} (b : Int) (shards : List (List α)) :
    ∀ w : Writer α, ((shards.foldl (Writer.process b) w).close).file
      = w.file ++ w.buffer.flatten ++ shards.flatten := by
  induction shards with
  | nil => intro w; simp [Writer.close, Writer.flush]
  | cons s ss ih =>
    intro w
    rw [List.foldl_cons, ih, process_logical]
    simp

theorem filter_flatten' {α : Type} (f : α → Bool) (l : List (List α)) :
    (l.map (List.filter f)).flatten = l.flatten.filter f := by
  induction l with
  | nil => rfl
  | cons x xs ih =>
    rw [List.map_cons, List.flatten_cons, List.flatten_cons, List.filter_append, ih]

/-- the data file of patch `p` holds exactly the records of that patch, in arrival order -/
theorem written_eq {α : Type} (key : α → Nat) (p : Nat) (b : Int) (arrivals : List (List α)) :
    written key p b arrivals = arrivals.flatten.filter fun x => key x == p := by
  unfold written
  rw [writer_flush_complete]
  simp only [List.nil_append, List.flatten_nil]
  exact filter_flatten' _ arrivals

end Yaw.Pipe
