import YawVerif.Lemmas.Sums
import YawVerif.Model.HistJk
import Mathlib.Tactic.Linarith

namespace Yaw.Impl
open Yaw

theorem npDeleteFrom_append (del : Nat → Bool) (o : Nat) (l1 l2 : List Nat) :
    npDeleteFrom del o (l1 ++ l2) = npDeleteFrom del o l1 ++ npDeleteFrom del (o + l1.length) l2 := by
  induction l1 generalizing o with
  | nil => simp [npDeleteFrom]
  | cons x xs ih =>
    simp only [List.cons_append, npDeleteFrom, List.length_cons]
    have e : o + (xs.length + 1) = o + 1 + xs.length := by omega
    split <;> simp [ih, e]

theorem npDeleteFrom_replicate (del : Nat → Bool) (o M : Nat) (r : List Nat) :
    npDeleteFrom del o (List.replicate M r).flatten
      = ((List.range M).map fun m => npDeleteFrom del (o + m * r.length) r).flatten := by
  induction M generalizing o with
  | zero => simp [npDeleteFrom]
  | succ M ih =>
    rw [List.replicate_succ, List.flatten_cons, npDeleteFrom_append, ih, List.range_succ_eq_map,
      List.map_cons, List.flatten_cons, List.map_map]
    simp only [Nat.zero_mul, Nat.add_zero]
    congr 2
    apply List.map_congr_left
    intro m _
    simp only [Function.comp]
    congr 1
    rw [Nat.succ_mul]
    omega

theorem npDeleteFrom_range' (del : Nat → Bool) (o s n : Nat) :
    npDeleteFrom del o (List.range' s n) = (List.range' s n).filter fun c => !del (o + (c - s)) := by
  induction n generalizing o s with
  | zero => simp [npDeleteFrom]
  | succ n ih =>
    rw [List.range'_succ]
    simp only [npDeleteFrom, List.filter_cons, Nat.sub_self, Nat.add_zero]
    have hc : (List.range' (s + 1) n).filter (fun c => !del (o + 1 + (c - (s + 1))))
        = (List.range' (s + 1) n).filter (fun c => !del (o + (c - s))) := by
      apply List.filter_congr
      intro c hc
      have := (List.mem_range'_1.mp hc).1
      have e : o + 1 + (c - (s + 1)) = o + (c - s) := by omega
      rw [e]
    cases h : del o <;> simp [ih, hc]

/-- the deleted positions are exactly the flat diagonal `m * N + m` -/
theorem del_diag (N m c : Nat) (hm : m < N) (hc : c < N)
    (hpos : Gen.histDelPos N = (List.range N).map fun m => m * (N + 1)) :
    (Gen.histDelPos N).contains (m * N + c) = decide (c = m) := by
  rw [hpos]
  by_cases h : c = m
  · subst h
    simp only [decide_true, List.contains_iff_mem, List.mem_map, List.mem_range]
    exact ⟨c, hm, by rw [Nat.mul_succ]⟩
  · simp only [h, decide_false]
    rw [Bool.eq_false_iff]
    intro hcon
    rw [List.contains_iff_mem, List.mem_map] at hcon
    obtain ⟨m', hm', he⟩ := hcon
    rw [List.mem_range] at hm'
    rw [Nat.mul_succ] at he
    rcases Nat.lt_trichotomy m' m with hlt | heq | hgt
    · have : (m' + 1) * N ≤ m * N := Nat.mul_le_mul_right N hlt
      rw [Nat.succ_mul] at this
      omega
    · subst heq; omega
    · have : (m + 1) * N ≤ m' * N := Nat.mul_le_mul_right N hgt
      rw [Nat.succ_mul] at this
      omega

theorem length_filter_ne (N m : Nat) :
    ((List.range N).filter fun c => decide (c ≠ m)).length = if m < N then N - 1 else N := by
  induction N with
  | zero => simp
  | succ N ih =>
    rw [List.range_succ, List.filter_append, List.length_append, ih]
    by_cases h : N = m
    · subst h; simp
    · simp only [List.filter_cons, List.filter_nil]
      have : decide (N ≠ m) = true := by simp [h]
      simp only [this, if_true, List.length_singleton]
      split <;> split <;> omega

theorem length_flatten_rows (f : Nat → List Nat) (w M : Nat) (hf : ∀ m, m < M → (f m).length = w) :
    ((List.range M).map f).flatten.length = M * w := by
  induction M with
  | zero => simp
  | succ M ih =>
    rw [List.range_succ, List.map_append, List.flatten_append, List.length_append,
      ih (fun m hm => hf m (by omega))]
    simp [hf M (by omega), Nat.succ_mul]

theorem reshapeRow_flatten (f : Nat → List Nat) (w M k : Nat) (hf : ∀ m, m < M → (f m).length = w)
    (hk : k < M) : reshapeRow ((List.range M).map f).flatten w k = f k := by
  induction M with
  | zero => omega
  | succ M ih =>
    unfold reshapeRow at *
    rw [List.range_succ, List.map_append, List.flatten_append]
    have hlen := length_flatten_rows f w M (fun m hm => hf m (by omega))
    simp only [List.map_cons, List.map_nil, List.flatten_cons, List.flatten_nil, List.append_nil]
    by_cases hkM : k < M
    · have h1 : k * w ≤ ((List.range M).map f).flatten.length := by
        rw [hlen]; exact Nat.mul_le_mul_right w (by omega)
      rw [List.drop_append_of_le_length h1]
      have h2 : w ≤ (((List.range M).map f).flatten.drop (k * w)).length := by
        rw [List.length_drop, hlen]
        have : (k + 1) * w ≤ M * w := Nat.mul_le_mul_right w hkM
        rw [Nat.succ_mul] at this
        omega
      rw [List.take_append_of_le_length h2]
      exact ih (fun m hm => hf m (by omega)) hkM
    · have hkeq : k = M := by omega
      subst hkeq
      have h1 : k * w = ((List.range k).map f).flatten.length := hlen.symm
      rw [h1, List.drop_left']
      · exact List.take_of_length_le (by rw [hf k (by omega)])
      · rfl

/-- row k of the jackknife index matrix lists every patch except k, in patch order -/
theorem histJkRow_eq (N k : Nat) (hk : k < N)
    (hpos : Gen.histDelPos N = (List.range N).map fun m => m * (N + 1)) :
    histJkRow N k = (List.range N).filter fun c => decide (c ≠ k) := by
  unfold histJkRow npDelete tile
  rw [npDeleteFrom_replicate]
  simp only [List.length_range, Nat.zero_add]
  have hrow : ∀ m, m < N →
      npDeleteFrom (fun q => (Gen.histDelPos N).contains q) (m * N) (List.range N)
        = (List.range N).filter fun c => decide (c ≠ m) := by
    intro m hm
    rw [List.range_eq_range', npDeleteFrom_range']
    apply List.filter_congr
    intro c hc
    have hcN : c < N := by have := (List.mem_range'_1.mp hc).2; omega
    simp only [Nat.sub_zero]
    rw [del_diag N m c hm hcN hpos]
    simp
  have hmap : ((List.range N).map fun m =>
        npDeleteFrom (fun q => (Gen.histDelPos N).contains q) (m * N) (List.range N))
      = (List.range N).map fun m => (List.range N).filter fun c => decide (c ≠ m) := by
    apply List.map_congr_left
    intro m hm
    exact hrow m (List.mem_range.mp hm)
  rw [hmap]
  apply reshapeRow_flatten _ (N - 1) N k _ hk
  intro m hm
  rw [length_filter_ne]
  simp [hm]

theorem lsum_append (a b : List Rat) : lsum (a ++ b) = lsum a + lsum b := by
  induction a with
  | nil => simp [lsum]
  | cons x xs ih => simp [lsum, ih, add_assoc]

theorem lsum_filter_ne (N k : Nat) (c : Nat → Rat) :
    lsum (((List.range N).filter fun i => decide (i ≠ k)).map c) = sumSkip N k c := by
  unfold sumSkip
  induction N with
  | zero => simp [lsum, sumTo]
  | succ N ih =>
    rw [List.range_succ, List.filter_append, List.map_append, lsum_append, ih, sumTo]
    by_cases h : N = k
    · subst h; simp [lsum]
    · simp [h, lsum]

end Yaw.Impl
