import YawVerif.Lemmas.Sums
import YawVerif.Model.PairCount

namespace Yaw.PC
open Yaw

theorem lsum_cons (x : Rat) (xs : List Rat) : lsum (x :: xs) = x + lsum xs := rfl

/-- separations ≤ r2 = separations ≤ r1 plus separations in (r1, r2] -/
theorem cntLe_split (P : Pairs) (r1 r2 : Rat) (h : r1 ≤ r2) :
    cntLe P r2 = cntLe P r1 + cnt P r1 r2 := by
  unfold cntLe cnt inInterval
  induction P with
  | nil => simp [lsum]
  | cons p ps ih =>
    simp only [List.filter_cons]
    by_cases h1 : p.2 ≤ r1
    · have h2 : p.2 ≤ r2 := le_trans h1 h
      have h3 : ¬ (r1 < p.2) := not_lt.mpr h1
      simp only [h1, h2, h3, decide_true, decide_false, Bool.false_and, Bool.false_eq_true, if_true,
        if_false, List.map_cons, lsum_cons, ih]
      ring
    · have h3 : r1 < p.2 := not_le.mp h1
      by_cases h2 : p.2 ≤ r2
      · simp only [h1, h2, h3, decide_true, decide_false, Bool.and_self, Bool.false_eq_true, if_true,
          if_false, List.map_cons, lsum_cons, ih]
        ring
      · simp only [h1, h2, h3, decide_true, decide_false, Bool.and_false, Bool.false_eq_true, if_false, ih]

/-- (lo, hi] = (lo, mid] ⊎ (mid, hi] -/
theorem cnt_split (P : Pairs) (lo mid hi : Rat) (h1 : lo ≤ mid) (h2 : mid ≤ hi) :
    cnt P lo hi = cnt P lo mid + cnt P mid hi := by
  unfold cnt inInterval
  induction P with
  | nil => simp [lsum]
  | cons p ps ih =>
    simp only [List.filter_cons]
    by_cases a : lo < p.2 <;> by_cases b : p.2 ≤ mid <;> by_cases c : mid < p.2 <;> by_cases d : p.2 ≤ hi <;>
      simp only [a, b, c, d, decide_true, decide_false, Bool.and_self, Bool.and_true, Bool.and_false,
        Bool.true_and, Bool.false_and, Bool.false_eq_true, if_true, if_false, List.map_cons, lsum_cons, ih] <;>
      first
        | ring1
        | (exfalso; linarith)

theorem cnt_self (P : Pairs) (r : Rat) : cnt P r r = 0 := by
  unfold cnt inInterval
  induction P with
  | nil => simp [lsum]
  | cons p ps ih =>
    simp only [List.filter_cons]
    by_cases a : r < p.2
    · have : ¬ p.2 ≤ r := not_le.mpr a
      simp only [a, this, decide_true, decide_false, Bool.and_false, Bool.false_eq_true, if_false, ih]
    · simp only [a, decide_false, Bool.false_and, Bool.false_eq_true, if_false, ih]

/-- both dispatch modes yield the exact per-fine-bin counts -/
theorem dispatch_agree (P : Pairs) (r : Nat → Rat) (hr : ∀ k, r k ≤ r (k + 1)) (cumulative : Bool)
    (k : Nat) : Gen.dispatch cumulative (treeCount P r cumulative) k = cnt P (r k) (r (k + 1)) := by
  unfold Gen.dispatch treeCount
  cases cumulative
  · simp
  · simp only [if_true]
    rw [cntLe_split P (r k) (r (k + 1)) (hr k)]
    ring

theorem mono_of_step (r : Nat → Rat) (hr : ∀ k, r k ≤ r (k + 1)) : ∀ a b, a ≤ b → r a ≤ r b := by
  intro a b hab
  induction b with
  | zero => have : a = 0 := by omega
            subst this; exact le_refl _
  | succ b ih =>
    rcases Nat.lt_or_ge a (b + 1) with h | h
    · exact le_trans (ih (by omega)) (hr b)
    · have : a = b + 1 := by omega
      subst this; exact le_refl _

/-- telescoping: the fine bins between two edges add up to the pairs in between -/
theorem cnt_telescope (P : Pairs) (r : Nat → Rat) (hr : ∀ k, r k ≤ r (k + 1)) (a : Nat) :
    ∀ m, sumTo m (fun t => cnt P (r (a + t)) (r (a + t + 1))) = cnt P (r a) (r (a + m)) := by
  intro m
  induction m with
  | zero => simp [sumTo, cnt_self]
  | succ m ih =>
    rw [sumTo, ih]
    have h1 : r a ≤ r (a + m) := mono_of_step r hr a (a + m) (by omega)
    have h2 : r (a + m) ≤ r (a + (m + 1)) := by
      have := hr (a + m)
      rwa [show a + m + 1 = a + (m + 1) by omega] at this
    rw [show a + m + 1 = a + (m + 1) by omega]
    exact (cnt_split P (r a) (r (a + m)) (r (a + (m + 1))) h1 h2).symm

theorem absR_nonneg (q : Rat) : 0 ≤ absR q := by
  unfold absR; split <;> linarith

theorem absR_eq_zero {q : Rat} : absR q = 0 ↔ q = 0 := by
  unfold absR
  split
  · constructor <;> intro h <;> linarith
  · constructor <;> intro h <;> linarith

/-- a limit that is itself one of the (strictly increasing) fine edges is found by the
    nearest-edge search -/
theorem argminAbs_mem (r : Nat → Rat) (n : Nat) (hr : ∀ i j, i < j → j < n → r i < r j)
    (a : Nat) (ha : a < n) : argminAbs r n (r a) = a := by
  induction n with
  | zero => omega
  | succ n ih =>
    unfold argminAbs
    simp only
    by_cases hn0 : n = 0
    · simp only [hn0, if_true]; omega
    · simp only [hn0, if_false]
      by_cases han : a = n
      · subst han
        -- the last edge is the limit: distance 0 is strictly smaller than any other
        have hk : argminAbs r a (r a) < a := by
          -- argmin over a nonempty prefix is an index of the prefix
          have : ∀ m x, 0 < m → argminAbs r m x < m := by
            intro m x hm
            induction m with
            | zero => omega
            | succ m ihm =>
              unfold argminAbs
              simp only
              by_cases hm0 : m = 0
              · simp [hm0]
              · simp only [hm0, if_false]
                split
                · omega
                · have := ihm (by omega); omega
          exact this a (r a) (by omega)
        have hlt : r (argminAbs r a (r a)) < r a := hr _ _ hk (by omega)
        have h0 : absR (r a - r a) = 0 := by simp [absR]
        have hpos : 0 < absR (r (argminAbs r a (r a)) - r a) := by
          have h1 := absR_nonneg (r (argminAbs r a (r a)) - r a)
          rcases lt_or_eq_of_le h1 with h | h
          · exact h
          · have := absR_eq_zero.mp h.symm
            linarith
        simp only [h0, hpos, if_true]
      · have ha' : a < n := by omega
        have ih' := ih (fun i j hij hj => hr i j hij (by omega)) ha'
        rw [ih']
        have h0 : absR (r a - r a) = 0 := by simp [absR]
        have : ¬ (absR (r n - r a) < absR (r a - r a)) := by
          rw [h0]; exact not_lt.mpr (absR_nonneg _)
        simp only [this, if_false]

/-- nearest-edge summation = pairs in (lo, hi] when both limits are fine edges -/
theorem limitSum_eq_interval (P : Pairs) (r : Nat → Rat) (n : Nat)
    (hr : ∀ i j, i < j → j < n → r i < r j) (hstep : ∀ k, r k ≤ r (k + 1))
    (a b : Nat) (hab : a ≤ b) (hb : b < n) :
    limitSum (fun k => cnt P (r k) (r (k + 1))) r n (r a) (r b) = cnt P (r a) (r b) := by
  unfold limitSum sumRange
  rw [argminAbs_mem r n hr a (by omega), argminAbs_mem r n hr b hb]
  have := cnt_telescope P r hstep a (b - a)
  rw [show a + (b - a) = b by omega] at this
  exact this

end Yaw.PC

namespace Yaw.PC
open Yaw

/-! ### linkage iteration -/

/-- all (i, j) with j in the row of i, row by row -/
def flat (rows : List (Nat × List Nat)) : List (Nat × Nat) :=
  rows.flatMap fun r => r.2.map fun j => (r.1, j)

theorem flat_cons (r : Nat × List Nat) (rows : List (Nat × List Nat)) :
    flat (r :: rows) = (r.2.map fun j => (r.1, j)) ++ flat rows := by
  simp [flat]

theorem totalLen_cons (r : Nat × List Nat) (rows : List (Nat × List Nat)) :
    totalLen (r :: rows) = r.2.length + totalLen rows := by
  simp [totalLen]

theorem flat_of_totalLen_zero (rows : List (Nat × List Nat)) (h : totalLen rows = 0) : flat rows = [] := by
  induction rows with
  | nil => rfl
  | cons r rows ih =>
    rw [totalLen_cons] at h
    have h1 : r.2.length = 0 := by omega
    have h2 : totalLen rows = 0 := by omega
    rw [flat_cons, ih h2, List.length_eq_zero_iff.mp h1]
    rfl

theorem heads_tails_perm (rows : List (Nat × List Nat)) :
    (heads rows ++ flat (tails rows)).Perm (flat rows) := by
  induction rows with
  | nil => simp [heads, tails, flat]
  | cons r rows ih =>
    obtain ⟨i, l⟩ := r
    cases l with
    | nil =>
      have h1 : heads ((i, []) :: rows) = heads rows := by
        unfold heads; rw [List.filterMap_cons]; rfl
      have h2 : tails ((i, []) :: rows) = tails rows := by simp [tails]
      rw [h1, h2, flat_cons]
      simpa using ih
    | cons j l =>
      have h1 : heads ((i, j :: l) :: rows) = (i, j) :: heads rows := by
        unfold heads; rw [List.filterMap_cons]; rfl
      have h2 : tails ((i, j :: l) :: rows) = (i, l) :: tails rows := by simp [tails]
      rw [h1, h2, flat_cons, flat_cons]
      simp only [List.map_cons, List.cons_append]
      apply List.Perm.cons
      -- heads rows ++ (A ++ flat (tails rows)) ~ A ++ flat rows
      have : (heads rows ++ (l.map (fun j => (i, j)) ++ flat (tails rows))).Perm
          (l.map (fun j => (i, j)) ++ (heads rows ++ flat (tails rows))) := by
        rw [← List.append_assoc, ← List.append_assoc]
        exact List.Perm.append_right _ List.perm_append_comm
      exact this.trans (List.Perm.append_left _ ih)

theorem totalLen_tails_lt (rows : List (Nat × List Nat)) (h : totalLen rows ≠ 0) :
    totalLen (tails rows) < totalLen rows := by
  induction rows with
  | nil => simp [totalLen] at h
  | cons r rows ih =>
    obtain ⟨i, l⟩ := r
    cases l with
    | nil =>
      have h2 : tails ((i, []) :: rows) = tails rows := by simp [tails]
      rw [h2, totalLen_cons]
      simp only [List.length_nil, Nat.zero_add]
      apply ih
      rw [totalLen_cons] at h
      simpa using h
    | cons j l =>
      have h2 : tails ((i, j :: l) :: rows) = (i, l) :: tails rows := by simp [tails]
      rw [h2, totalLen_cons, totalLen_cons]
      simp only [List.length_cons]
      by_cases h0 : totalLen rows = 0
      · have : totalLen (tails rows) ≤ totalLen rows := by
          clear ih h h2
          induction rows with
          | nil => simp [tails, totalLen]
          | cons r rows ih2 =>
            obtain ⟨i', l'⟩ := r
            rw [totalLen_cons] at h0
            cases l' with
            | nil =>
              have : tails ((i', []) :: rows) = tails rows := by simp [tails]
              rw [this, totalLen_cons]
              have := ih2 (by simpa using h0)
              simp only [List.length_nil, Nat.zero_add]
              exact this
            | cons j' l'' => simp at h0
        omega
      · have := ih h0
        omega

/-- the rounds of the `while` loop emit every (i, j) of every row exactly as often as it is listed -/
theorem columns_perm (fuel : Nat) (rows : List (Nat × List Nat)) (h : totalLen rows ≤ fuel) :
    (columns fuel rows).Perm (flat rows) := by
  induction fuel generalizing rows with
  | zero =>
    have : totalLen rows = 0 := by omega
    rw [flat_of_totalLen_zero rows this]
    simp [columns]
  | succ fuel ih =>
    unfold columns
    by_cases h0 : totalLen rows = 0
    · simp only [h0, if_true]
      rw [flat_of_totalLen_zero rows h0]
    · simp only [h0, if_false]
      have hlt := totalLen_tails_lt rows h0
      have := ih (tails rows) (by omega)
      exact (List.Perm.append_left _ this).trans (heads_tails_perm rows)

theorem mem_flat (rows : List (Nat × List Nat)) (i j : Nat) :
    (i, j) ∈ flat rows ↔ ∃ l, (i, l) ∈ rows ∧ j ∈ l := by
  unfold flat
  simp only [List.mem_flatMap, List.mem_map, Prod.mk.injEq]
  constructor
  · rintro ⟨r, hr, j', hj', h1, h2⟩
    refine ⟨r.2, ?_, ?_⟩
    · rw [← h1]; exact hr
    · rw [← h2]; exact hj'
  · rintro ⟨l, hl, hj⟩
    exact ⟨(i, l), hl, j, hj, rfl, rfl⟩

/-- which pairs `iter_patch_id_pairs` yields, for ANY pop order of the link sets -/
theorem mem_iterPairs (auto : Bool) (rows : List (Nat × List Nat)) (i j : Nat) :
    (i, j) ∈ iterPairs auto rows ↔
      (i = j ∧ ∃ l, (i, l) ∈ rows) ∨ ((∃ l, (i, l) ∈ rows ∧ j ∈ l) ∧ Gen.emitPair auto i j = true) := by
  unfold iterPairs
  rw [List.mem_append, List.mem_filter, (columns_perm _ rows (le_refl _)).mem_iff, mem_flat]
  simp only [List.mem_map, Prod.mk.injEq]
  constructor
  · rintro (⟨r, hr, h1, h2⟩ | h)
    · left
      refine ⟨by omega, r.2, ?_⟩
      rw [← h1]; exact hr
    · right; exact h
  · rintro (⟨h1, l, hl⟩ | h)
    · left; exact ⟨(i, l), hl, rfl, by simp; omega⟩
    · right; exact h

/-! ### pruning of distant patch pairs (any pseudo-metric) -/

/-- if two patches are not linked, every object pair between them is at least the pruning
    angle apart (triangle inequality; objects lie within the radius of their patch centre) -/
theorem pruned_sep {α : Type} (d : α → α → Rat)
    (tri : ∀ x y z, d x z ≤ d x y + d y z) (symm : ∀ x y, d x y = d y x)
    (ci cj a b : α) (Ri Rj A : Rat)
    (ha : d a ci ≤ Ri) (hb : d b cj ≤ Rj)
    (hlink : Gen.linked (d ci cj) Ri Rj A = false) : A ≤ d a b := by
  unfold Gen.linked at hlink
  have h : ¬ (d ci cj < Rj + Ri + A) := by simpa using hlink
  have h1 : d ci cj ≤ d ci a + d a cj := tri ci a cj
  have h2 : d a cj ≤ d a b + d b cj := tri a b cj
  have h3 : d ci a = d a ci := symm ci a
  linarith [not_lt.mp h]

/-- … hence no pair of an unlinked patch pair falls into an interval ending below the pruning angle -/
theorem pruned_pairs_empty (P : Pairs) (A lo hi : Rat) (hsep : ∀ p ∈ P, A ≤ p.2) (hhi : hi < A) :
    cnt P lo hi = 0 := by
  unfold cnt inInterval
  induction P with
  | nil => simp [lsum]
  | cons p ps ih =>
    have hp : A ≤ p.2 := hsep p (by simp)
    have : ¬ p.2 ≤ hi := by linarith
    simp only [List.filter_cons, this, decide_false, Bool.and_false, Bool.false_eq_true, if_false]
    exact ih (fun q hq => hsep q (by simp [hq]))

/-- the same for an interval ending exactly at the pruning angle, provided no separation ties it -/
theorem pruned_pairs_empty_notie (P : Pairs) (A lo hi : Rat) (hsep : ∀ p ∈ P, A ≤ p.2) (hhi : hi ≤ A)
    (hnotie : ∀ p ∈ P, p.2 ≠ A) : cnt P lo hi = 0 := by
  unfold cnt inInterval
  induction P with
  | nil => simp [lsum]
  | cons p ps ih =>
    have hp : A ≤ p.2 := hsep p (by simp)
    have hne : p.2 ≠ A := hnotie p (by simp)
    have : ¬ p.2 ≤ hi := by
      intro h
      exact hne (le_antisymm (le_trans h hhi) hp)
    simp only [List.filter_cons, this, decide_false, Bool.and_false, Bool.false_eq_true, if_false]
    exact ih (fun q hq => hsep q (by simp [hq])) (fun q hq => hnotie q (by simp [hq]))

end Yaw.PC
