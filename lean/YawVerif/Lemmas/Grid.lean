/-
The merged angular grid of `get_ang_bins` (C01): `np.sort(np.unique(concatenate([fine edges, all limits])))`, modelled as
insertion into a strictly increasing list that skips values already present.  In exact arithmetic (the logarithm and
its inverse are a strictly monotone bijection, so the order of the edges is that of their logarithms) the result is
strictly increasing and contains every limit — the two hypotheses the telescoping theorems of C01 need.
-/
import YawVerif.Lemmas.PairCount

namespace Yaw.Grid

/-- insert into a strictly increasing list, dropping duplicates (`np.unique`) -/
def insertU (x : Rat) : List Rat → List Rat
  | [] => [x]
  | y :: ys => if x < y then x :: y :: ys else if x = y then y :: ys else y :: insertU x ys

/-- `np.sort(np.unique(xs))` -/
def merged (xs : List Rat) : List Rat := xs.foldr insertU []

theorem mem_insertU (x z : Rat) (l : List Rat) : z ∈ insertU x l ↔ z = x ∨ z ∈ l := by
  induction l with
  | nil => simp [insertU]
  | cons y ys ih =>
    unfold insertU
    by_cases h1 : x < y
    · simp [h1]
    · by_cases h2 : x = y
      · subst h2; simp
      · simp only [h1, h2, if_false, List.mem_cons, ih]
        constructor
        · rintro (h | h | h)
          · exact Or.inr (Or.inl h)
          · exact Or.inl h
          · exact Or.inr (Or.inr h)
        · rintro (h | h | h)
          · exact Or.inr (Or.inl h)
          · exact Or.inl h
          · exact Or.inr (Or.inr h)

theorem insertU_sorted (x : Rat) (l : List Rat) (h : l.Pairwise (· < ·)) : (insertU x l).Pairwise (· < ·) := by
  induction l with
  | nil => simp [insertU]
  | cons y ys ih =>
    unfold insertU
    rw [List.pairwise_cons] at h
    by_cases h1 : x < y
    · simp only [h1, if_true]
      rw [List.pairwise_cons]
      refine ⟨?_, List.pairwise_cons.mpr h⟩
      intro z hz
      rcases List.mem_cons.mp hz with rfl | hz
      · exact h1
      · exact lt_trans h1 (h.1 z hz)
    · by_cases h2 : x = y
      · subst h2
        simp only [lt_irrefl, if_false, if_true]
        exact List.pairwise_cons.mpr h
      · simp only [h1, h2, if_false]
        rw [List.pairwise_cons]
        refine ⟨?_, ih h.2⟩
        intro z hz
        rcases (mem_insertU x z ys).mp hz with rfl | hz
        · exact lt_of_le_of_ne (not_lt.mp h1) (Ne.symm h2)
        · exact h.1 z hz

/-- the merged grid is strictly increasing … -/
theorem merged_sorted (xs : List Rat) : (merged xs).Pairwise (· < ·) := by
  induction xs with
  | nil => simp [merged]
  | cons x xs ih => exact insertU_sorted x _ ih

/-- … and holds exactly the given values (nothing lost, nothing invented) -/
theorem mem_merged (xs : List Rat) (z : Rat) : z ∈ merged xs ↔ z ∈ xs := by
  induction xs with
  | nil => simp [merged]
  | cons x xs ih =>
    show z ∈ insertU x (merged xs) ↔ _
    rw [mem_insertU, ih, List.mem_cons]

/-- edge `i` of a grid as a function on all of ℕ (clamped to the last edge beyond the end, so that it is monotone) -/
def edge (g : List Rat) (i : Nat) : Rat := g.getD (min i (g.length - 1)) 0

theorem edge_strict (g : List Rat) (hs : g.Pairwise (· < ·)) (i j : Nat) (hij : i < j) (hj : j < g.length) :
    edge g i < edge g j := by
  unfold edge
  have hi : i < g.length := lt_trans hij hj
  rw [Nat.min_eq_left (by omega), Nat.min_eq_left (by omega)]
  have e1 : g.getD i 0 = g[i] := by simp [List.getD, hi]
  have e2 : g.getD j 0 = g[j] := by simp [List.getD, hj]
  rw [e1, e2]
  exact List.pairwise_iff_getElem.mp hs i j hi hj hij

theorem edge_step (g : List Rat) (hs : g.Pairwise (· < ·)) (k : Nat) : edge g k ≤ edge g (k + 1) := by
  by_cases hk : k + 1 < g.length
  · exact le_of_lt (edge_strict g hs k (k + 1) (Nat.lt_succ_self k) hk)
  · unfold edge
    have h1 : min k (g.length - 1) = min (k + 1) (g.length - 1) := by omega
    rw [h1]

theorem edge_of_mem (g : List Rat) (z : Rat) (hz : z ∈ g) : ∃ a, a < g.length ∧ edge g a = z := by
  obtain ⟨a, ha, rfl⟩ := List.mem_iff_getElem.mp hz
  refine ⟨a, ha, ?_⟩
  unfold edge
  rw [Nat.min_eq_left (by omega)]
  simp [List.getD, ha]

end Yaw.Grid
