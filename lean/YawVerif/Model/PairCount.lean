/-
  Pair counting (C01): hand-written model of `AngularTree.count`, `PatchLinkage` iteration and
  accumulation, built around the GENERATED kernels (dispatch, link predicate, emission guard,
  diagonal value).  The geometric primitive — all ordered object pairs of one (bin, patch pair)
  with their weight product and separation — is an input (`Pairs`): the KD-tree is assumed to
  count exactly these (trusted base; validated by the harness).
-/
import YawVerif.Generated.PairCount

namespace Yaw.PC

/-- every ordered object pair (a, c) of one redshift bin and one patch pair:
    (w_a * w_c, separation) -/
abbrev Pairs := List (Rat × Rat)

def inInterval (lo hi : Rat) (p : Rat × Rat) : Bool := decide (lo < p.2) && decide (p.2 ≤ hi)

/-- SPEC primitive: weight-product sum over the pairs with separation in (lo, hi] -/
def cnt (P : Pairs) (lo hi : Rat) : Rat := lsum ((P.filter (inInterval lo hi)).map (·.1))

/-- pairs with separation ≤ r -/
def cntLe (P : Pairs) (r : Rat) : Rat := lsum ((P.filter fun p => decide (p.2 ≤ r)).map (·.1))

/-- `KDTree.count_neighbors(other, r, weights, cumulative)` for the radii `r 0, r 1, …`:
    cumulative → entry k counts separations ≤ r k; otherwise entry k counts (r (k-1), r k]
    and entry 0 counts ≤ r 0 -/
def treeCount (P : Pairs) (r : Nat → Rat) (cumulative : Bool) : Nat → Rat := fun k =>
  if cumulative then cntLe P (r k)
  else if k = 0 then cntLe P (r 0) else cnt P (r (k - 1)) (r k)

/-- counts per fine bin after `dispatch_counts`; `n` = number of fine edges -/
def fineCounts (P : Pairs) (r : Nat → Rat) (n : Nat) : Nat → Rat :=
  Gen.dispatch (Gen.useCumulative n) (treeCount P r (Gen.useCumulative n))

def absR (q : Rat) : Rat := if q < 0 then -q else q

/-- `np.argmin(np.abs(bins - x))` over the first `n` edges (first minimum) -/
def argminAbs (r : Nat → Rat) : Nat → Rat → Nat
  | 0, _ => 0
  | n + 1, x =>
    let k := argminAbs r n x
    if n = 0 then 0 else if absR (r n - x) < absR (r k - x) then n else k

/-- `x[a:b].sum()` -/
def sumRange (a b : Nat) (f : Nat → Rat) : Rat := sumTo (b - a) fun t => f (a + t)

/-- `get_counts_for_limits` for one pair of limits -/
def limitSum (counts : Nat → Rat) (r : Nat → Rat) (n : Nat) (lo hi : Rat) : Rat :=
  sumRange (argminAbs r n lo) (argminAbs r n hi) counts

/-- separation weighting: `counts *= ang_weights / ang_weights.sum()` (n - 1 fine bins) -/
def applyWeights (ω : Nat → Rat) (n : Nat) (counts : Nat → Rat) : Nat → Rat := fun k =>
  counts k * (ω k / sumTo (n - 1) ω)

/-- `AngularTree.count` for one bin and one pair of trees: value per scale -/
def treePairCount (P : Pairs) (r : Nat → Rat) (n : Nat) (ω : Option (Nat → Rat))
    (lims : List (Rat × Rat)) : List Rat :=
  let c := fineCounts P r n
  let c := match ω with
    | none => c
    | some w => applyWeights w n c
  lims.map fun l => limitSum c r n l.1 l.2

/-! ### linkage iteration -/

/-- one round of the `while` loop: pop one element from every non-empty row -/
def heads (rows : List (Nat × List Nat)) : List (Nat × Nat) :=
  rows.filterMap fun r => r.2.head?.map fun j => (r.1, j)

def tails (rows : List (Nat × List Nat)) : List (Nat × List Nat) :=
  (rows.filter fun r => !r.2.isEmpty).map fun r => (r.1, r.2.tail)

def totalLen (rows : List (Nat × List Nat)) : Nat := (rows.map fun r => r.2.length).sum

/-- the emission order of the rounds (column-major traversal); `fuel` ≥ total length -/
def columns : Nat → List (Nat × List Nat) → List (Nat × Nat)
  | 0, _ => []
  | fuel + 1, rows => if totalLen rows = 0 then [] else heads rows ++ columns fuel (tails rows)

/-- `iter_patch_id_pairs`: `rows` = (patch id, pop order of its link set without the id itself) -/
def iterPairs (auto : Bool) (rows : List (Nat × List Nat)) : List (Nat × Nat) :=
  rows.map (fun r => (r.1, r.1)) ++
    (columns (totalLen rows) rows).filter fun p => Gen.emitPair auto p.1 p.2

/-- value written into cell (i, j) by `count_pairs` for a worker result `x` -/
def cellValue (auto : Bool) (i j : Nat) (x : Rat) : Rat :=
  if auto && i == j then Gen.diagValue x else x

/-- final array cell: assignments of the emitted pairs onto a zero array -/
def algCell (auto : Bool) (rows : List (Nat × List Nat)) (res : Nat → Nat → Rat) (i j : Nat) : Rat :=
  if (iterPairs auto rows).contains (i, j) then cellValue auto i j (res i j) else 0

/-- SPEC: every unordered pair once for an autocorrelation -/
def specCell (auto : Bool) (full : Nat → Nat → Rat) (i j : Nat) : Rat :=
  if auto then (if j < i then 0 else if i = j then full i j / 2 else full i j) else full i j

end Yaw.PC
