/-
  Hand-written model of the pair-count / data containers' algebra and indexing (C17).
  A `Cont` is a `NormalisedCounts`: counts (B×N×N), per-patch weight sums (B×N twice), binning.
  `PatchedCounts`, `PatchedSumWeights`, `CorrFunc` are projections / tuples of it.
-/
import YawVerif.Model.Basic

namespace Yaw.Cont

structure Binning where
  edges : List Rat        -- B+1 edges
  closedLeft : Bool
deriving DecidableEq

structure C where
  B : Nat
  N : Nat
  auto : Bool
  binning : Binning
  counts : Nat → Nat → Nat → Rat     -- bin, patch1, patch2
  w1 : Nat → Nat → Rat               -- bin, patch
  w2 : Nat → Nat → Rat

/-- python index normalisation: negative indices wrap once, out of range = IndexError -/
def normIdx (len : Nat) (i : Int) : Option Nat :=
  let j := if i < 0 then i + len else i
  if 0 ≤ j ∧ j < len then some j.toNat else none

/-- python `slice(start, stop).indices(len)` with step 1 -/
def clamp (len : Nat) (s : Option Int) (dflt : Nat) : Nat :=
  match s with
  | none => dflt
  | some i => if i < 0 then (max (i + len) 0).toNat else min i.toNat len

def sliceRange (len : Nat) (start stop : Option Int) : Nat × Nat :=
  let a := clamp len start 0
  let b := clamp len stop len
  (a, max a b)

/-- compatibility demanded by `+`: equal binning (edges and closed side) and number of patches -/
def compatible (x y : C) : Bool := x.binning = y.binning && x.N = y.N

/-- `x + y` on the counts (`none` = raises) -/
def add (x y : C) : Option C :=
  if compatible x y then
    some { x with counts := fun b i j => x.counts b i j + y.counts b i j }
  else none

/-- `x * s` -/
def mul (x : C) (s : Rat) : C := { x with counts := fun b i j => x.counts b i j * s }

/-- `Binning.__getitem__` for the contiguous bins `[a, b)`; empty selection raises (IndexError) -/
def Binning.sub (bn : Binning) (a b : Nat) : Option Binning :=
  if a < b then some { bn with edges := (bn.edges.drop a).take (b - a + 1) } else none

/-- bins `[a, b)` of the container -/
def binsRange (x : C) (a b : Nat) : Option C := do
  let bn ← x.binning.sub a b
  some { x with B := b - a, binning := bn,
                counts := fun k => x.counts (a + k), w1 := fun k => x.w1 (a + k), w2 := fun k => x.w2 (a + k) }

def binsSlice (x : C) (start stop : Option Int) : Option C :=
  let r := sliceRange x.B start stop
  binsRange x r.1 r.2

def binsInt (x : C) (i : Int) : Option C := do
  let k ← normIdx x.B i
  binsRange x k (k + 1)

/-- patches `[a, b)` of the container (sub-block of the pair array) -/
def patchesRange (x : C) (a b : Nat) : C :=
  { x with N := b - a,
           counts := fun k i j => x.counts k (a + i) (a + j),
           w1 := fun k i => x.w1 k (a + i), w2 := fun k i => x.w2 k (a + i) }

def patchesSlice (x : C) (start stop : Option Int) : C :=
  let r := sliceRange x.N start stop
  patchesRange x r.1 r.2

def patchesInt (x : C) (i : Int) : Option C := do
  let k ← normIdx x.N i
  some (patchesRange x k (k + 1))

/-- indices selected by a python slice with step ≥ 1: `range(*slice(start, stop, step).indices(len))` -/
def sliceSel (len : Nat) (start stop : Option Int) (step : Nat) : List Nat :=
  let r := sliceRange len start stop
  (List.range ((r.2 - r.1 + step - 1) / step)).map fun t => r.1 + t * step

/-- `Binning.__getitem__` for an increasing list of bin indices: the left edges of the selected bins
    followed by the right edge of the last one (omitted bins are absorbed by the previous bin) -/
def Binning.sel (bn : Binning) (sel : List Nat) : Option Binning :=
  match sel.getLast? with
  | none => none
  | some l => some { bn with edges := sel.map (fun k => bn.edges.getD k 0) ++ [bn.edges.getD (l + 1) 0] }

/-- bins `sel` of the container -/
def binsSel (x : C) (sel : List Nat) : Option C := do
  let bn ← x.binning.sel sel
  some { x with B := sel.length, binning := bn,
                counts := fun k => x.counts (sel.getD k 0), w1 := fun k => x.w1 (sel.getD k 0),
                w2 := fun k => x.w2 (sel.getD k 0) }

/-- patches `sel` of the container -/
def patchesSel (x : C) (sel : List Nat) : C :=
  { x with N := sel.length,
           counts := fun k i j => x.counts k (sel.getD i 0) (sel.getD j 0),
           w1 := fun k i => x.w1 k (sel.getD i 0), w2 := fun k i => x.w2 k (sel.getD i 0) }

/-- iteration with the `Indexer`: items 0, 1, … until IndexError -/
def iterBins (x : C) : List (Option C) := (List.range x.B).map fun (k : Nat) => binsInt x (k : Int)

/-- structural equality of two containers (what `==` compares) -/
def eqv (x y : C) : Prop :=
  x.B = y.B ∧ x.N = y.N ∧ x.auto = y.auto ∧ x.binning = y.binning ∧
  (∀ b i j, b < x.B → i < x.N → j < x.N → x.counts b i j = y.counts b i j) ∧
  (∀ b i, b < x.B → i < x.N → x.w1 b i = y.w1 b i ∧ x.w2 b i = y.w2 b i)

end Yaw.Cont
