/-
  Catalog creation life cycle (C09): the parallel mode as a small-step system (parent ∥ writer process
  ∥ queue) with faults as transitions, and the sequential mode; behaviour switches are the flags
  GENERATED from CatalogWriter / WriterProcess / write_patches.
-/
import YawVerif.Generated.Creation

namespace Yaw.Create

inductive Main
  | reading          -- iterating the reader, mapping chunks over the pool
  | joining (failed : Bool)   -- in WriterProcess.__exit__ (failed: an exception is in flight)
  | done (raised : Bool)
deriving DecidableEq, Repr

inductive Wr
  | init | loop | exitedOk | exitedErr | killed
deriving DecidableEq, Repr

/-- faults of one run: reader / worker raises while `faultAt` chunks are still to be read; the writer
    raises at start (existing directory, unusable location) or when finalising (empty patch) -/
structure Faults where
  faultAt : Option Nat
  wrInit : Bool
  wrFinal : Bool
deriving DecidableEq, Repr

structure Sys where
  left : Nat            -- chunks still to be read
  queue : Nat           -- patch dictionaries in the queue
  eoq : Bool            -- end-of-queue sentinel sent
  main : Main
  wr : Wr
  marker : Bool         -- patch-id list written (the cache opens as a valid catalog)
deriving DecidableEq, Repr

def init (chunks : Nat) : Sys := ⟨chunks, 0, false, .reading, .init, false⟩

def wrExited (w : Wr) : Bool := w == .exitedOk || w == .exitedErr || w == .killed

/-- capacity of the queue (`none` = unbounded) -/
def cap (workers : Nat) : Option Nat := if Gen.queueBounded then some (2 * workers) else none

/-- all enabled transitions of the parent and of the writer process -/
def next (f : Faults) (workers : Nat) (s : Sys) : List Sys :=
  -- parent
  (match s.main with
   | .reading =>
     if f.faultAt = some s.left then
       -- exception in the with-body: __exit__ terminates the writer (if the code does) and joins
       [{ s with main := .joining true,
                 wr := if Gen.terminatesWriterOnError && !wrExited s.wr then .killed else s.wr }]
     else if s.left = 0 then [{ s with eoq := true, main := .joining false }]
     else match cap workers with
       | some c => if s.queue + workers ≤ c then [{ s with left := s.left - 1, queue := s.queue + workers }] else []
       | none => [{ s with left := s.left - 1, queue := s.queue + workers }]
   | .joining failed =>
     if wrExited s.wr then
       [{ s with main := .done (failed || (Gen.forwardsWriterError && s.wr == .exitedErr)) }]
     else []
   | .done _ => []) ++
  -- writer process
  (match s.wr with
   | .init => [{ s with wr := if f.wrInit then .exitedErr else .loop }]
   | .loop =>
     if s.queue > 0 then [{ s with queue := s.queue - 1 }]
     else if s.eoq then
       [if f.wrFinal then { s with wr := .exitedErr } else { s with wr := .exitedOk, marker := true }]
     else []
   | _ => [])

def final (s : Sys) : Bool := match s.main with | .done _ => true | _ => false

def anyFault (f : Faults) (chunks : Nat) : Bool :=
  f.wrInit || f.wrFinal || (match f.faultAt with | some k => k ≤ chunks | none => false)

/-- sequential mode (`write_patches_unthreaded`): returns (raised, marker written) -/
def sequential (f : Faults) (chunks : Nat) : Bool × Bool :=
  if f.wrInit then (true, false)
  else match f.faultAt with
    | some k => if k ≤ chunks then (true, !Gen.finalizeOnCleanExitOnly && !f.wrFinal) else
        (if f.wrFinal then (true, false) else (false, true))
    | none => if f.wrFinal then (true, false) else (false, true)

/-- what `CatalogWriter.__init__` does with the target path -/
inductive PathAction | create | deleteAndCreate | raise
deriving DecidableEq, Repr

def pathAction (pathExists isCatalog overwrite : Bool) : PathAction :=
  if !pathExists then .create
  else if !overwrite then .raise
  else if Gen.overwriteOnlyCatalog && !isCatalog then .raise
  else .deleteAndCreate

end Yaw.Create
