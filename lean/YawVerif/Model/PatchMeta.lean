/-
  Patch metadata and centre alignment (C12): hand-written model of `Metadata.compute`, the centre
  pairing of `load_patches` and the guards of a measurement, around the generated tolerance test.
-/
import YawVerif.Generated.PatchMeta

namespace Yaw.Meta

/-- `max` of a list of distances (0 for an empty list) -/
def maxList : List Rat → Rat
  | [] => 0
  | x :: xs => if maxList xs < x then x else maxList xs

/-- `Metadata.compute`: number of records, sum of weights (or the number of records), radius =
    largest distance of a record from the centre -/
structure Meta where
  numRecords : Nat
  sumWeights : Rat
  radius : Rat

def compute (dists : List Rat) (weights : Option (List Rat)) : Meta :=
  { numRecords := dists.length
    sumWeights := match weights with
      | some w => lsum w
      | none => dists.length
    radius := maxList dists }

/-- `load_patches` with given centres: patch directories (sorted ids) are paired with the centres by
    position; the id list must be exactly 0 … N-1 (`none` = raises) -/
def pairCentres {α : Type} (ids : List Nat) (centres : List α) : Option (List (Nat × α)) :=
  if ids = List.range centres.length then some (ids.zip centres) else none

/-- the pairing of the code before the repair of F8 (kept to exhibit the defect) -/
def pairCentresUnchecked {α : Type} (ids : List Nat) (centres : List α) : List (Nat × α) := ids.zip centres

/-- numpy semantics of `distance / radius > rtol` including a zero radius (inf / nan) -/
def guardOne (d r : Rat) : Bool :=
  if r = 0 then decide (0 < d) else Gen.centreGuard d r Gen.rtol

/-- `check_patch_conistency` for one other catalog: raise iff any patch fails the test -/
def centresInconsistent (ds rs : List Rat) : Bool := (ds.zip rs).any fun p => guardOne p.1 p.2

/-- the id-set guard of `PatchLinkage.from_catalogs` -/
def idsInconsistent (ids : List Nat) (others : List (List Nat)) : Bool :=
  others.any fun o => !(o.all (ids.contains ·) && ids.all (o.contains ·))

end Yaw.Meta
