/-
  Patch directories and their ids (core-only, executable): `PATCH_NAME_TEMPLATE.format(k)` and `get_id_from_patch_path`.
-/
namespace Yaw.PathCodec

/-- `"patch_{:d}".format(k)`: "patch_" followed by the decimal digits of k -/
def pathName (k : Nat) : List Char := "patch".toList ++ '_' :: Nat.toDigits 10 k

/-- `get_id_from_patch_path`: `_, id_str = name.split('_')` (exactly two parts — anything else raises) and `int(id_str)` -/
def idOfName (s : List Char) : Option Nat :=
  match s.splitOn '_' with
  | [_, b] => (String.ofList b).toNat?
  | _ => none

end Yaw.PathCodec
