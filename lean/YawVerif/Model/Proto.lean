/-
  Line protocol helpers for the drivers (core-only).
  A request is one line of space separated tokens: `<id> <kind> <args…>`.
  Rationals are `num/den` or `num`; the answer is one line `<id> <tokens…>`.
-/
namespace Yaw.Proto

def parseRat (s : String) : Option Rat :=
  match s.splitOn "/" with
  | [a] => a.toInt?.map fun n => (n : Rat)
  | [a, b] => do
      let n ← a.toInt?
      let d ← b.toNat?
      if d = 0 then none else some (mkRat n d)
  | _ => none

def fmtRat (q : Rat) : String :=
  if q.den = 1 then toString q.num else s!"{q.num}/{q.den}"

def fmtOpt (q : Option Rat) : String :=
  match q with
  | some v => fmtRat v
  | none => "nan"

/-- token reader state -/
structure Rd where
  toks : Array String
  pos : Nat := 0

abbrev R := StateT Rd (Except String)

def tok : R String := do
  let s ← get
  match s.toks[s.pos]? with
  | some t => set { s with pos := s.pos + 1 }; pure t
  | none => throw "unexpected end of request"

def nat : R Nat := do
  let t ← tok
  match t.toNat? with
  | some n => pure n
  | none => throw s!"expected natural number, got '{t}'"

def int : R Int := do
  let t ← tok
  match t.toInt? with
  | some n => pure n
  | none => throw s!"expected integer, got '{t}'"

def rat : R Rat := do
  let t ← tok
  match parseRat t with
  | some q => pure q
  | none => throw s!"expected rational, got '{t}'"

def bool : R Bool := do
  let n ← nat
  pure (n != 0)

def rats (n : Nat) : R (Array Rat) := do
  let mut out := Array.mkEmpty n
  for _ in [0:n] do
    out := out.push (← rat)
  pure out

def nats (n : Nat) : R (Array Nat) := do
  let mut out := Array.mkEmpty n
  for _ in [0:n] do
    out := out.push (← nat)
  pure out

def ints (n : Nat) : R (Array Int) := do
  let mut out := Array.mkEmpty n
  for _ in [0:n] do
    out := out.push (← int)
  pure out

def atEnd : R Bool := do
  let s ← get
  pure (s.pos ≥ s.toks.size)

def vec (a : Array Rat) : Nat → Rat := fun i => a.getD i 0
def mat (n : Nat) (a : Array Rat) : Nat → Nat → Rat := fun i j => a.getD (i * n + j) 0

/-- run a handler on one request line -/
def handle (h : String → R String) (line : String) : String :=
  let toks := (line.splitOn " ").filter (· ≠ "") |>.toArray
  match toks[0]?, toks[1]? with
  | some id, some kind =>
    match (h kind).run { toks := toks, pos := 2 } with
    | .ok (out, _) => s!"{id} {out}"
    | .error e => s!"{id} bad-request {e}"
  | _, _ => "? bad-request empty"

partial def loop (h : String → R String) (stdin : IO.FS.Stream) (stdout : IO.FS.Stream) : IO Unit := do
  let line ← stdin.getLine
  if line.isEmpty then
    return ()
  let l := (line.dropEndWhile fun c => c == '\n' || c == '\r').toString
  if l ≠ "" then
    stdout.putStrLn (handle h l)
  loop h stdin stdout

end Yaw.Proto
