/-
  Hand-written SPEC side for C03 / C04 (what the properties say), core-only, executable.
  All functions are per redshift bin; `a i j` is the patch-pair array of that bin.
-/
import YawVerif.Model.Basic

namespace Yaw.Spec

/-- sum over all patch pairs -/
def total (N : Nat) (a : Nat → Nat → Rat) : Rat :=
  sumTo N fun i => sumTo N fun j => a i j

/-- the pair array of the data with patch `k` removed from all catalogs (row and column `k` deleted) -/
def removePatch (k : Nat) (a : Nat → Nat → Rat) : Nat → Nat → Rat :=
  fun i j => a (skipIdx k i) (skipIdx k j)

/-- a per-patch vector with entry `k` removed -/
def removeEntry (k : Nat) (w : Nat → Rat) : Nat → Rat := fun i => w (skipIdx k i)

/-- leave-one-out total written over the original indices: Σ_{i≠k} Σ_{j≠k} a i j -/
def looTotal (N : Nat) (a : Nat → Nat → Rat) (k : Nat) : Rat :=
  sumSkip N k fun i => sumSkip N k fun j => a i j

/-- normalisation of a cross-correlation term: product of the two total weights -/
def normCross (N : Nat) (w1 w2 : Nat → Rat) : Rat := sumTo N w1 * sumTo N w2

/-- normalisation of an autocorrelation term: half the squared total weight -/
def normAuto (N : Nat) (w : Nat → Rat) : Rat := (sumTo N w * sumTo N w) / 2

/-- Landy–Szalay as documented -/
def ls (dd dr rd rr : Rat) : Rat := (dd - dr - rd + rr) / rr

/-- Davis–Peebles as documented -/
def dp (dd mixed : Rat) : Rat := dd / mixed - 1

/-- mean of sample component `p` over `n` samples; `x k p` = sample k, bin p -/
def mean (n : Nat) (x : Nat → Nat → Rat) (p : Nat) : Rat := (sumTo n fun k => x k p) / n

/-- delete-one jackknife covariance (N-1)/N Σ_k (x_k - mean)(x_k - mean)^T, entry (p,q) -/
def jkCov (n : Nat) (x : Nat → Nat → Rat) (p q : Nat) : Rat :=
  (((n : Rat) - 1) / n) * sumTo n fun k => (x k p - mean n x p) * (x k q - mean n x q)

/-- numpy's `np.cov(x, rowvar=False, ddof=d)` entry (p,q) -/
def npCov (ddof n : Nat) (x : Nat → Nat → Rat) (p q : Nat) : Rat :=
  (sumTo n fun k => (x k p - mean n x p) * (x k q - mean n x q)) / ((n : Rat) - ddof)

/-- leave-one-out histogram sample: Σ_{i≠k} counts i -/
def looSum (N : Nat) (c : Nat → Rat) (k : Nat) : Rat := sumSkip N k c

/-- integral of a binned density: Σ_i dz_i · y_i -/
def integral (B : Nat) (dz y : Nat → Rat) : Rat := sumTo B fun i => dz i * y i

end Yaw.Spec

namespace Yaw

/-- one redshift bin of a `NormalisedCounts` container: pair-count array, per-patch weight sums -/
structure NC where
  a : Nat → Nat → Rat
  w1 : Nat → Rat
  w2 : Nat → Rat
  auto : Bool

/-- the container computed from the catalogs with patch `k` removed -/
def NC.remove (k : Nat) (c : NC) : NC :=
  ⟨Spec.removePatch k c.a, Spec.removeEntry k c.w1, Spec.removeEntry k c.w2, c.auto⟩

namespace Spec

/-- documented value of one normalised term on `n` patches: total / product of total weights
    (half the squared total for an autocorrelation); `none` = division by zero -/
def term (n : Nat) (c : NC) : Option Rat :=
  let norm := if c.auto then normAuto n c.w1 else normCross n c.w1 c.w2
  if norm = 0 then none else some (total n c.a / norm)

/-- documented estimator selection; outer `none` = raises, inner `none` = nan -/
def estimate (dd : Option Rat) (dr rd rr : Option (Option Rat)) : Option (Option Rat) :=
  match rr, dr with
  | some rr, some dr =>
      let rd' := rd.getD dr
      some (do
        let dd ← dd; let dr ← dr; let rd ← rd'; let rr ← rr
        if rr = 0 then none else some (ls dd dr rd rr))
  | some _, none => none
  | none, _ =>
      match rd, dr with
      | some rd, _ => some (do let dd ← dd; let m ← rd; if m = 0 then none else some (dp dd m))
      | none, some dr => some (do let dd ← dd; let m ← dr; if m = 0 then none else some (dp dd m))
      | none, none => none

end Spec
end Yaw
