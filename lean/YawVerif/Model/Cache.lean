/-
  Tree cache of a patch (C07, C08): the `binning` marker file, the pickled trees, the reuse rule
  (generated `binningEqual`) and the build / measure operations as a state machine.
-/
import YawVerif.Generated.Cache

namespace Yaw.Cache

/-- a redshift binning as the marker file stores it -/
structure Bins where
  closedLeft : Bool
  edges : List Rat
deriving DecidableEq, Repr

/-- requested / stored binning: `none` = unbinned trees -/
abbrev Bin := Option Bins

/-- the reuse test of `BinnedTrees.build`, through the generated rule -/
def reusable (stored requested : Bin) : Bool :=
  match stored, requested with
  | none, none => Gen.binningEqual false false true true
  | none, some _ => Gen.binningEqual false true false false
  | some _, none => Gen.binningEqual true false false false
  | some s, some r => Gen.binningEqual true true (s.edges == r.edges) (s.closedLeft == r.closedLeft)

/-- cache state of one patch: what the marker file says (if it exists) and what the pickled trees
    were really built for (if they exist) -/
structure PatchCache where
  marker : Option Bin
  trees : Option Bin
deriving DecidableEq, Repr

def fresh : PatchCache := ⟨none, none⟩

/-- `BinnedTrees.build(patch, binning, force)` -/
def build (s : PatchCache) (b : Bin) (force : Bool) : PatchCache :=
  let rebuilt : PatchCache := ⟨some b, some b⟩
  if force then rebuilt
  else match s.marker with
    | none => rebuilt
    | some stored => if reusable stored b then s else rebuilt

inductive Op
  | build (b : Bin) (force : Bool)
  | reopen                                  -- `Catalog(cache_directory)`: no effect on tree files
  | measure (b : Bin)                       -- a measurement builds (unforced) with its own binning first
deriving Repr

def step (s : PatchCache) : Op → PatchCache
  | .build b f => build s b f
  | .reopen => s
  | .measure b => build s b false

def run (ops : List Op) (s : PatchCache) : PatchCache := ops.foldl step s

/-- what a measurement with binning `b` counts with: the binning the trees on disk were built for,
    after its own (unforced) build -/
def measuredWith (s : PatchCache) (b : Bin) : Option Bin := (build s b false).trees

/-- cache consistency: if a marker exists, the trees exist and were built for exactly that binning -/
def Consistent (s : PatchCache) : Prop := ∀ m, s.marker = some m → s.trees = some m

end Yaw.Cache
