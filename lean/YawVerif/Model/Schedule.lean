/-
  Unordered parallel map (C05, C06): results arrive in an arbitrary order; consumers fold them into
  an array / dictionary.  Hand-written; the accumulation style is read off the source (generated flags).
-/
import YawVerif.Generated.Schedule

namespace Yaw.Sched

/-- final content of cell `k` after assigning the arrivals (key, value) in order onto an empty store -/
def assignFold {κ ν : Type} [DecidableEq κ] (arrivals : List (κ × ν)) (k : κ) : Option ν :=
  (arrivals.reverse.find? fun a => a.1 == k).map (·.2)

/-- repeated writes to the same key carry the same value (e.g. the per-bin weight sums of a patch
    reported by every pair it takes part in) -/
def Consistent {κ ν : Type} (arrivals : List (κ × ν)) : Prop :=
  ∀ a ∈ arrivals, ∀ b ∈ arrivals, a.1 = b.1 → a.2 = b.2

/-- histogram rows: keyed by the patch id, or by the arrival index (the code before the repair of F11) -/
def histRows {ν : Type} (keyed : Bool) (arrivals : List (Nat × ν)) (row : Nat) : Option ν :=
  if keyed then assignFold arrivals row else (arrivals[row]?).map (·.2)

end Yaw.Sched
