/-
  MPI protocols of yet_another_wizz as transition systems (C06).

  A. `iter_unordered` under MPI (`_mpi_root_task`, `_mpi_worker_task`, `_mpi_iter_unordered`):
     the root hands tasks to the worker ranks one at a time, a worker returns `(rank, result)`,
     the end-of-queue sentinel shuts a worker down, everybody meets at a barrier.
  B. MPI `write_patches`: the chunk-processing ranks send patch dictionaries to ONE writer rank
     which receives with a wildcard source; sentinels tell the writer when to stop.

  Both are functions `step : State → Event → Option State` (the same executable definitions
  accept the event traces of the simulated MPI worlds); `none` = the event is not enabled.
  Sizes (ranks, tasks, chunks) are unbounded parameters.  Where the code's behaviour is read off
  the source, the generated flags of `Generated/Mpi.lean` select it.
-/
import YawVerif.Generated.Mpi

namespace Yaw.Mpi

/-! ## A. dynamic task dispatch -/

/-- protocol state of one worker rank, as the messages in flight determine it -/
inductive W
  | fresh              -- waits in `recv(source=0, tag=1)`, the root has not addressed it yet
  | task (t : Nat)     -- a task message is on its way to it
  | busy (t : Nat)     -- runs the task
  | result (t : Nat)   -- its `(rank, result)` message is on its way to the root
  | eoq                -- the end-of-queue sentinel is on its way to it
  | stopped            -- left its loop, waits at the barrier
deriving DecidableEq, Repr

inductive PC
  | first (i : Nat)    -- first dispatch pass, about to address worker `i`
  | loop               -- `while active_workers > 0`
  | fallback           -- runs what is left on the root itself (no worker rank was usable)
  | barrier
  | done
deriving DecidableEq, Repr

structure St where
  pc : PC
  ws : List W            -- worker `i` is rank `i + 1`
  pending : List Nat     -- what the task iterator still holds
  active : Nat           -- the code's `active_workers`
  yielded : List Nat
deriving DecidableEq, Repr

inductive Ev
  | rootFirst                 -- one iteration of the first dispatch pass
  | rootRecv (i : Nat)        -- wildcard receive matches worker i's result; yield; hand out the next task / sentinel
  | rootExit                  -- `active_workers == 0`: leave the loop
  | rootLocal                 -- fallback: run one task on the root
  | rootLocalDone
  | wRecv (i : Nat)           -- worker receives its task
  | wDone (i : Nat)           -- worker finishes, sends the result
  | wStop (i : Nat)           -- worker receives the sentinel
  | barrier
deriving DecidableEq, Repr

def init (n : Nat) (tasks : List Nat) : St :=
  { pc := .first 0, ws := List.replicate n .fresh, pending := tasks, active := 0, yielded := [] }

def isBusy : W → Bool
  | .task _ | .busy _ | .result _ => true
  | _ => false

def taskOf : W → Option Nat
  | .task t | .busy t | .result t => some t
  | _ => none

/-- parameters: `sel i` — is rank `i + 1` among the ranks selected for work;
    `countFirst` — the counter is incremented BEFORE `next(iterable)` may raise (not the code's order);
    `fallback` — the root runs what is left when the loop ends -/
structure Cfg where
  sel : Nat → Bool
  countFirst : Bool := false
  fallback : Bool := true

def step (c : Cfg) (s : St) : Ev → Option St
  | .rootFirst =>
    match s.pc with
    | .first i =>
      if i < s.ws.length then
        if c.sel i then
          match s.pending with
          | t :: rest => some { s with pc := .first (i + 1), ws := s.ws.set i (.task t), pending := rest,
                                       active := s.active + 1 }
          | [] => some { s with pc := .first (i + 1), ws := s.ws.set i .eoq,
                                active := if c.countFirst then s.active + 1 else s.active }
        else some { s with pc := .first (i + 1), ws := s.ws.set i .eoq }
      else some { s with pc := .loop }
    | _ => none
  | .rootRecv i =>
    if s.pc = .loop ∧ 0 < s.active then
      match s.ws[i]? with
      | some (.result t) =>
        match s.pending with
        | t' :: rest => some { s with ws := s.ws.set i (.task t'), pending := rest, yielded := s.yielded ++ [t] }
        | [] => some { s with ws := s.ws.set i .eoq, active := s.active - 1, yielded := s.yielded ++ [t] }
      | _ => none
    else none
  | .rootExit =>
    if s.pc = .loop ∧ s.active = 0 then some { s with pc := if c.fallback then .fallback else .barrier } else none
  | .rootLocal =>
    match s.pc, s.pending with
    | .fallback, t :: rest => some { s with pending := rest, yielded := s.yielded ++ [t] }
    | _, _ => none
  | .rootLocalDone =>
    match s.pc, s.pending with
    | .fallback, [] => some { s with pc := .barrier }
    | _, _ => none
  | .wRecv i =>
    match s.ws[i]? with
    | some (.task t) => some { s with ws := s.ws.set i (.busy t) }
    | _ => none
  | .wDone i =>
    match s.ws[i]? with
    | some (.busy t) => some { s with ws := s.ws.set i (.result t) }
    | _ => none
  | .wStop i =>
    match s.ws[i]? with
    | some .eoq => some { s with ws := s.ws.set i .stopped }
    | _ => none
  | .barrier =>
    if s.pc = .barrier ∧ s.ws.all (· == .stopped) then some { s with pc := .done } else none

def Step (c : Cfg) (s s' : St) : Prop := ∃ e, step c s e = some s'

inductive Reach (c : Cfg) (n : Nat) (tasks : List Nat) : St → Prop
  | init : Reach c n tasks (init n tasks)
  | step {s s'} : Reach c n tasks s → Step c s s' → Reach c n tasks s'

/-- run a list of events (trace acceptance) -/
def runA (c : Cfg) (s : St) : List Ev → Option St
  | [] => some s
  | e :: es => match step c s e with
    | some s' => runA c s' es
    | none => none

/-! ## B. many senders, one wildcard receiver -/

inductive Msg
  | data (c : Nat)       -- patch dictionary of the sender's chunk `c`
  | eoq
deriving DecidableEq, Repr

structure Sender where
  left : Nat             -- chunks still to process
  next : Nat             -- index of the next chunk
  queue : List Msg       -- sent to the writer, not yet received (FIFO per sender)
  signalled : Bool       -- its own sentinel has been sent (per-sender protocol)
  atBarrier : Bool
deriving DecidableEq, Repr

structure StB where
  ss : List Sender       -- sender 0 is the reader rank
  written : List (Nat × Nat)
  remaining : Nat        -- sentinels the writer still waits for
  stopped : Bool
  rootSignalled : Bool   -- single-sentinel protocol: the reader has sent THE sentinel
deriving DecidableEq, Repr

inductive EvB
  | send (j : Nat)        -- sender j sends the patch data of its next chunk
  | signal (j : Nat)      -- sender j sends its sentinel and goes to the barrier (per-sender protocol)
  | toBarrier (j : Nat)   -- sender j goes to the barrier (single-sentinel protocol)
  | rootSignal            -- all senders passed the barrier, the reader sends the sentinel
  | recv (j : Nat)        -- the writer's wildcard receive matches the head of sender j's queue
deriving DecidableEq, Repr

/-- `perSender`: every sender signals for itself and the writer counts (else: one sentinel from the
    reader after the senders' barrier); `sync`: sends complete only when received -/
structure CfgB where
  perSender : Bool := true
  sync : Bool := false

def Sender.start (chunks : Nat) : Sender :=
  { left := chunks, next := 0, queue := [], signalled := false, atBarrier := false }

def initB (c : CfgB) (m chunks : Nat) : StB :=
  { ss := List.replicate m (Sender.start chunks),
    written := [], remaining := if c.perSender then m else 1, stopped := false, rootSignalled := false }

def stepB (c : CfgB) (s : StB) : EvB → Option StB
  | .send j =>
    match s.ss[j]? with
    | some x =>
      if 0 < x.left ∧ x.signalled = false ∧ x.atBarrier = false ∧ (c.sync = true → x.queue = []) then
        some { s with ss := s.ss.set j { x with left := x.left - 1, next := x.next + 1,
                                                queue := x.queue ++ [.data x.next] } }
      else none
    | none => none
  | .signal j =>
    match s.ss[j]? with
    | some x =>
      if c.perSender = true ∧ x.left = 0 ∧ x.signalled = false ∧ (c.sync = true → x.queue = []) then
        some { s with ss := s.ss.set j { x with signalled := true, atBarrier := true, queue := x.queue ++ [.eoq] } }
      else none
    | none => none
  | .toBarrier j =>
    match s.ss[j]? with
    | some x =>
      if c.perSender = false ∧ x.left = 0 ∧ x.atBarrier = false ∧ (c.sync = true → x.queue = []) then
        some { s with ss := s.ss.set j { x with atBarrier := true } }
      else none
    | none => none
  | .rootSignal =>
    match s.ss[0]? with
    | some x =>
      if c.perSender = false ∧ s.rootSignalled = false ∧ s.ss.all (·.atBarrier) then
        some { s with ss := s.ss.set 0 { x with queue := x.queue ++ [.eoq] }, rootSignalled := true }
      else none
    | none => none
  | .recv j =>
    if s.stopped then none else
    match s.ss[j]? with
    | some x =>
      match x.queue with
      | .data c' :: rest =>
        some { s with ss := s.ss.set j { x with queue := rest }, written := s.written ++ [(j, c')] }
      | .eoq :: rest =>
        some { s with ss := s.ss.set j { x with queue := rest }, remaining := s.remaining - 1,
                      stopped := s.remaining ≤ 1 }
      | [] => none
    | none => none

def StepB (c : CfgB) (s s' : StB) : Prop := ∃ e, stepB c s e = some s'

inductive ReachB (c : CfgB) (m chunks : Nat) : StB → Prop
  | init : ReachB c m chunks (initB c m chunks)
  | step {s s'} : ReachB c m chunks s → StepB c s s' → ReachB c m chunks s'

def runB (c : CfgB) (s : StB) : List EvB → Option StB
  | [] => some s
  | e :: es => match stepB c s e with
    | some s' => runB c s' es
    | none => none

/-- data still on its way or not yet sent when the writer has stopped = lost records -/
def lost (s : StB) : Bool :=
  s.stopped && s.ss.any fun x => x.left != 0 || x.queue.any (· != .eoq)

end Yaw.Mpi
