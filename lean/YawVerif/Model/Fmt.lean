/-
  `format_float_fixed_width(value, width)` on exact values (core-only, executable).

  Python: `string = f"{value: .{width}f}"` — sign column, the value correctly rounded (half to even on the exact binary
  value) to `width` decimals — then `string[: max(width, num_digits)]` with `num_digits = len(string.split(".")[0])`
  (sign + integer digits): a plain TRUNCATION of the rounded decimal string.  What the file keeps of a finite value:
  magnitudes are counted in units of 10^-width.
-/
namespace Yaw.Fmt

/-- round half to even -/
def roundHE (x : Rat) : Int :=
  let f := x.floor
  let r := x - (f : Rat)
  if r < 1 / 2 then f else if 1 / 2 < r then f + 1 else if f % 2 = 0 then f else f + 1

/-- number of decimal digits of a natural number (1 for 0); `fuel` ≥ the number itself is always enough -/
def digitsLen : Nat → Nat → Nat
  | 0, _ => 1
  | fuel + 1, n => if n < 10 then 1 else 1 + digitsLen fuel (n / 10)

/-- digits in front of the decimal point of a magnitude `m` given in units of 10^-w -/
def intDigits (w m : Nat) : Nat := digitsLen (m / 10 ^ w) (m / 10 ^ w)

/-- unit below which the string is cut: the string keeps `w - 2 - d` decimals (none when the integer part fills the width) -/
def cutUnit (w d : Nat) : Nat := 10 ^ (w - (w - 2 - d))

/-- magnitude (units of 10^-w) that survives the truncation of the string -/
def keep (w m : Nat) : Nat :=
  let c := cutUnit w (intDigits w m)
  (m / c) * c

/-- the value a finite `x` is written as (what `float(string)` reads back, exactly) -/
def fmtValue (w : Nat) (x : Rat) : Rat :=
  let r := roundHE (x * (10 ^ w : Nat))
  let k := keep w r.natAbs
  (if r < 0 then -(k : Rat) else (k : Rat)) / (10 ^ w : Nat)

end Yaw.Fmt
