/-
  Hand-written model of the glue around the generated kernels (tied by correspondence):
  NormalisedCounts / CorrFunc.sample composition.  Imports the GENERATED kernels.
-/
import YawVerif.Generated.Resample
import YawVerif.Model.Resample

namespace Yaw.Impl
open Yaw

/-- `PatchedSumWeights.get_array()` of the container -/
def _root_.Yaw.NC.normArr (c : NC) : Nat → Nat → Rat := Gen.weightArr c.auto c.w1 c.w2

/-- `NormalisedCounts.sample_patch_sum().data` -/
def _root_.Yaw.NC.data (N : Nat) (c : NC) : Rat :=
  Gen.normData (Gen.jkData N c.a) (Gen.jkData N c.normArr)

/-- `NormalisedCounts.sample_patch_sum().samples[k]` -/
def _root_.Yaw.NC.samples (N : Nat) (c : NC) : Nat → Rat :=
  Gen.normSamples (Gen.jkSamples N c.a) (Gen.jkSamples N c.normArr)

/-- `CorrFunc.sample`: `estimator(**counts)`; `none` = raises (missing keyword / EstimatorError) -/
def estimate (dd : Rat) (dr rd rr : Option Rat) : Option Rat :=
  if Gen.useLS rr.isSome then
    match dr, rr with
    | some dr, some rr => Gen.ls dd dr rr rd
    | _, _ => none
  else
    match rr with
    | some _ => none           -- davis_peebles() got an unexpected keyword argument 'rr'
    | none => Gen.dp dd dr rd

structure CF where
  dd : NC
  dr : Option NC
  rd : Option NC
  rr : Option NC

def CF.data (N : Nat) (c : CF) : Option Rat :=
  estimate (c.dd.data N) (c.dr.map (·.data N)) (c.rd.map (·.data N)) (c.rr.map (·.data N))

def CF.sample (N : Nat) (c : CF) (k : Nat) : Option Rat :=
  estimate (c.dd.samples N k) (c.dr.map (·.samples N k)) (c.rd.map (·.samples N k))
    (c.rr.map (·.samples N k))

def CF.remove (k : Nat) (c : CF) : CF :=
  ⟨c.dd.remove k, c.dr.map (·.remove k), c.rd.map (·.remove k), c.rr.map (·.remove k)⟩

/-- model of `cov_from_samples` (kind = full) entry (p,q): `np.cov(ddof) * factor` -/
def cov (n : Nat) (x : Nat → Nat → Rat) (p q : Nat) : Rat :=
  Spec.npCov Gen.covDdof n x p q * Gen.covFactor n

end Yaw.Impl
