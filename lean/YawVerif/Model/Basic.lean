/-
  Core-only basics shared by all models: finite sums over `Rat`, list helpers.
  No Mathlib import: everything here is executable by the drivers.
-/
namespace Yaw

/-- `sumTo n f = f 0 + … + f (n-1)` by structural recursion (bridged to `Finset.sum` in Lemmas). -/
def sumTo : Nat → (Nat → Rat) → Rat
  | 0, _ => 0
  | n + 1, f => sumTo n f + f n

/-- sum over `i < n` with `i ≠ k` (leave-one-out). -/
def sumSkip (n k : Nat) (f : Nat → Rat) : Rat :=
  sumTo n fun i => if i = k then 0 else f i

/-- index map that skips `k`: positions `0..n-2` of the array with entry `k` removed. -/
def skipIdx (k i : Nat) : Nat := if i < k then i else i + 1

/-- Sum of a list of rationals. -/
def lsum : List Rat → Rat
  | [] => 0
  | x :: xs => x + lsum xs

def getD' (xs : List Rat) (i : Nat) : Rat := xs.getD i 0

/-- 2-d array from a row-major list. -/
def arr2 (n : Nat) (xs : List Rat) : Nat → Nat → Rat := fun i j => xs.getD (i * n + j) 0

end Yaw
