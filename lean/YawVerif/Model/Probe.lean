/-
  `DataReader.get_probe`: the selection loop that gathers a sparse probe chunk by chunk (core-only, executable).
  `idx` is the index list (`np.linspace(0, n-1, p).astype(int)`), shifted by the chunk length after every chunk;
  indices that have gone negative were used already and are dropped, indices beyond the chunk wait for a later one.
-/
namespace Yaw.Probe

def probeLoop {α : Type} : List (List α) → List Int → List α
  | [], _ => []
  | ch :: rest, idx =>
    let idx1 := idx.filter (fun i => decide (0 ≤ i))                 -- idx_keep = idx_keep[idx_keep >= 0]
    let here := idx1.filter (fun i => decide (i < (ch.length : Int)))  -- idx_keep_chunk = idx_keep[idx_keep < len(chunk)]
    here.filterMap (fun i => ch[i.toNat]?)                           -- chunk[idx_keep_chunk]
      ++ probeLoop rest (idx1.map (fun i => i - (ch.length : Int)))   -- idx_keep -= len(chunk)

/-- `np.linspace(0, n - 1, p).astype(int)` for p ≥ 2: ⌊k (n-1) / (p-1)⌋ ; p = 1 gives [0] -/
def linspaceIdx (n p : Nat) : List Int :=
  if p ≤ 1 then (if p = 1 then [0] else [])
  else (List.range p).map fun k => (((k * (n - 1)) / (p - 1) : Nat) : Int)

end Yaw.Probe
