/-
  Redshift-bin membership (C10): numpy `digitize` / `histogram` as documented, the closed-side
  SPEC, and the implementation's bin assignment built from the GENERATED arguments.
  Edges are a function `e : Nat → Rat` with `B` bins, i.e. edges `e 0 … e B`.
-/
import YawVerif.Generated.Binning
import YawVerif.Model.BinSpec

namespace Yaw.Bin

/-- number of `j < n` with `p j` -/
def countP (p : Nat → Bool) : Nat → Nat
  | 0 => 0
  | n + 1 => countP p n + (if p n then 1 else 0)

/-- `np.digitize(z, edges, right)` for increasing edges `e 0 … e (n-1)`:
    right=False: #edges ≤ z ; right=True: #edges < z -/
def digitize (right : Bool) (e : Nat → Rat) (n : Nat) (z : Rat) : Nat :=
  countP (fun j => if right then decide (e j < z) else decide (e j ≤ z)) n

/-- implementation: bin of the tree an object lands in (`none` = in no tree) -/
def binIndex (closedRight : Bool) (e : Nat → Rat) (B : Nat) (z : Rat) : Option Nat :=
  let i := digitize (Gen.digitizeRight closedRight) e (B + 1) z
  if Gen.keepRange i B then some (i - Gen.treeOffset) else none

/-- `np.histogram(z, edges)` bin of one value: bins are [e_i, e_{i+1}) except the last, which is
    [e_{B-1}, e_B]; values outside [e_0, e_B] are dropped -/
def npHistIndex (e : Nat → Rat) (B : Nat) (z : Rat) : Option Nat :=
  if z < e 0 ∨ e B < z then none
  else if z = e B then (if B = 0 then none else some (B - 1))
  else some (digitize false e (B + 1) z - 1)

/-- implementation: bin of the redshift histogram an object is counted in -/
def histBin (closedRight : Bool) (e : Nat → Rat) (B : Nat) (z : Rat) : Option Nat :=
  if Gen.histMask closedRight z (e 0) (e B) then
    let z' := if Gen.histNegZ closedRight then -z else z
    let e' : Nat → Rat := if Gen.histMirror closedRight then (fun j => -e (B - j)) else e
    match npHistIndex e' B z' with
    | none => none
    | some k => some (if Gen.histRev closedRight then B - 1 - k else k)
  else none

/-- weighted per-bin sums over a list of objects (redshift, weight) for a bin assignment -/
def binSums (assign : Rat → Option Nat) (B : Nat) (objs : List (Rat × Rat)) : List Rat :=
  (List.range B).map fun b => lsum ((objs.filter fun o => assign o.1 == some b).map (·.2))

end Yaw.Bin
