/-
  Catalog creation pipeline (C02): chunk → split over workers → group by patch → single writer.
  Hand-written; records are opaque values of any type `α` (bit patterns).
-/
import YawVerif.Model.Basic

namespace Yaw.Pipe

/-- `np.array_split(chunk, w)`: the first `n % w` parts are one longer -/
def arraySplitFrom {α : Type} (q r : Nat) : Nat → List α → List (List α)
  | 0, _ => []
  | w + 1, xs =>
    let len := if r > 0 then q + 1 else q
    xs.take len :: arraySplitFrom q (r - 1) w (xs.drop len)

def arraySplit {α : Type} (w : Nat) (xs : List α) : List (List α) :=
  arraySplitFrom (xs.length / w) (xs.length % w) w xs

/-- the records of one worker part that belong to patch `p` (`groupby` on the patch ids) -/
def patchPart {α : Type} (key : α → Nat) (p : Nat) (part : List α) : List α := part.filter fun x => key x == p

/-- patch ids present in a part, ascending (the keys of the dictionary a worker produces) -/
def partKeys {α : Type} (key : α → Nat) (part : List α) : List Nat :=
  (List.range ((part.map key).foldl max 0 + 1)).filter fun p => part.any fun x => key x == p

/-- per-patch writer: shards are buffered and flushed to the file when the buffered number of
    records reaches `buffersize` (−1: always), and on close -/
structure Writer (α : Type) where
  buffer : List (List α)
  file : List α

def Writer.flush {α : Type} (w : Writer α) : Writer α := { buffer := [], file := w.file ++ w.buffer.flatten }

def Writer.process {α : Type} (buffersize : Int) (w : Writer α) (shard : List α) : Writer α :=
  let w' : Writer α := { w with buffer := w.buffer ++ [shard] }
  if ((w'.buffer.map List.length).sum : Int) ≥ buffersize then w'.flush else w'

def Writer.close {α : Type} (w : Writer α) : Writer α := w.flush

/-- content of the data file of patch `p` after the writer received the worker parts in the order
    `arrivals` -/
def written {α : Type} (key : α → Nat) (p : Nat) (buffersize : Int) (arrivals : List (List α)) : List α :=
  ((arrivals.map (patchPart key p)).foldl (Writer.process buffersize) ⟨[], []⟩).close.file

end Yaw.Pipe
