/-
  `yaw.utils.groupby` (C02, C10): argsort by key, `np.unique(..., return_index=True)` on the sorted
  keys, `np.split` of the sorted values at the first index of every key but the first.  On sorted
  data "split where the key changes" is what unique + split compute; `runs` is that.  Hand-written,
  pinned by `Gen.pinGroupby`, compared with the real function on random keys by the C02 check.
-/
import YawVerif.Generated.Reader

namespace Yaw.Groupby

/-- consecutive runs of equal keys of an (already sorted) list of (key, value) pairs -/
def runs {ν : Type} : List (Nat × ν) → List (Nat × List ν)
  | [] => []
  | (k, v) :: rest =>
    match runs rest with
    | (k', vs) :: gs => if k = k' then (k, v :: vs) :: gs else (k, [v]) :: (k', vs) :: gs
    | [] => [(k, [v])]

/-- insertion sort by key, stable (one admissible result of `argsort`) -/
def insertByKey {ν : Type} (x : Nat × ν) : List (Nat × ν) → List (Nat × ν)
  | [] => [x]
  | y :: ys => if x.1 ≤ y.1 then x :: y :: ys else y :: insertByKey x ys

def sortByKey {ν : Type} : List (Nat × ν) → List (Nat × ν)
  | [] => []
  | x :: xs => insertByKey x (sortByKey xs)

/-- `groupby(keys, values)` -/
def groupby {ν : Type} (l : List (Nat × ν)) : List (Nat × List ν) := runs (sortByKey l)

end Yaw.Groupby
