/-
Collective MPI operations (C06): a collective completes only when EVERY rank of the communicator has entered the
same operation.  Ranks are modelled by the sequence of collectives they will still enter plus one register (the value
a broadcast moves).  Import-free, executable.
-/
namespace Yaw.Coll

/-- a collective as executed: kind (`bcast`, `Bcast`, `barrier`, `gather`, …) and root rank -/
structure Op where
  kind : String
  root : Nat
  deriving DecidableEq, Repr

structure World where
  progs : List (List Op)      -- per rank: collectives still to be entered, in program order
  regs : List Int             -- per rank: the value held
  deriving Repr

def done (w : World) : Bool := w.progs.all List.isEmpty

def isBcast (op : Op) : Bool := op.kind == "bcast" || op.kind == "Bcast"

/-- effect of a completed collective on the registers: a broadcast copies the root's value to everybody -/
def effect (op : Op) (regs : List Int) : List Int :=
  if isBcast op then regs.map (fun _ => regs.getD op.root 0) else regs

/-- one step: the operation at the head of rank 0's program completes iff it is at the head of EVERY rank's program -/
def step (w : World) : Option World :=
  match w.progs with
  | [] => none
  | p :: _ =>
    match p.head? with
    | none => none
    | some op =>
      if w.progs.all (fun q => q.head? == some op) then
        some { progs := w.progs.map List.tail, regs := effect op w.regs }
      else none

def run : Nat → World → World
  | 0, w => w
  | k + 1, w => match step w with
    | some w' => run k w'
    | none => w

/-- `n` ranks that all execute the same sequence -/
def uniform (n : Nat) (t : List Op) (regs : List Int) : World := ⟨List.replicate n t, regs⟩

/-- a rank is stuck: it waits in a collective that never completes, or has work left while nothing can complete -/
def deadlocked (w : World) : Bool := !done w && (step w).isNone

end Yaw.Coll
