/-
  SPEC side of C10 (no generated code): the closed-side membership rule and the per-bin
  sums it implies.
-/
import YawVerif.Model.Basic

namespace Yaw.Bin

/-- SPEC: is `z` in bin `b` under the closed-side rule? (lo,hi] or [lo,hi) -/
def member (closedRight : Bool) (e : Nat → Rat) (b : Nat) (z : Rat) : Bool :=
  if closedRight then decide (e b < z) && decide (z ≤ e (b + 1))
  else decide (e b ≤ z) && decide (z < e (b + 1))

/-- SPEC: weighted per-bin sums over objects (redshift, weight) -/
def specSums (closedRight : Bool) (e : Nat → Rat) (B : Nat) (objs : List (Rat × Rat)) : List Rat :=
  (List.range B).map fun b => lsum ((objs.filter fun o => member closedRight e b o.1).map (·.2))

end Yaw.Bin
