/-
Measurement plans (C01 / C04 / C10): what `autocorrelate` / `crosscorrelate` do with their catalogs, as data.
The plans themselves (`Gen.autoPlan`, `Gen.crossPlan`) are generated from the source by the translator
(`translator/plan.py`); this file holds the vocabulary and the executable queries the theorems and the
correspondence check use.  Import-free.
-/
namespace Yaw.Gen

/-- the catalogs a measurement function receives -/
inductive Cat
  | data | random | reference | unknown | refRand | unkRand
  deriving DecidableEq, Repr

/-- one `cat.build_trees(...)` call: `binned` = first argument is `config.binning.edges` (otherwise `None`),
`closedCfg` = `closed=config.binning.closed` is passed, `kwargsFwd` = `**kwargs` (progress, worker limit) is passed -/
structure Build where
  cat : Cat
  binned : Bool
  closedCfg : Bool
  kwargsFwd : Bool
  deriving DecidableEq, Repr

/-- one pair count: `second = none` is the autocorrelation call `count_pairs(first)` -/
structure Count where
  first : Cat
  second : Option Cat
  deriving DecidableEq, Repr

/-- builds in program order, the catalogs handed to `PatchLinkage.from_catalogs`, and the four positional members of
`CorrFunc(dd, dr, rd, rr)` (`none` = that member is `None`) -/
structure Plan where
  builds : List Build
  linkage : List Cat
  slots : List (Option Count)
  deriving DecidableEq, Repr

end Yaw.Gen

namespace Yaw.PlanM
open Yaw.Gen

/-- the role a catalog's trees have when the counting starts: its LAST build (`none`: never built) -/
def roleOf (p : Plan) (c : Cat) : Option Build :=
  (p.builds.filter (fun b => b.cat == c)).getLast?

/-- trees usable as the binned operand: built with the configured edges AND the configured closed side -/
def builtBinned (p : Plan) (c : Cat) : Bool :=
  match roleOf p c with
  | some b => b.binned && b.closedCfg && b.kwargsFwd
  | none => false

/-- trees usable as the unbinned operand -/
def builtUnbinned (p : Plan) (c : Cat) : Bool :=
  match roleOf p c with
  | some b => !b.binned && b.kwargsFwd
  | none => false

def slot (p : Plan) (i : Nat) : Option Count := (p.slots.getD i none)

/-- every catalog that is counted -/
def counted (p : Plan) : List Cat :=
  p.slots.flatMap fun s => match s with
    | some c => c.first :: (match c.second with | some d => [d] | none => [])
    | none => []

def catName : Cat → String
  | .data => "data" | .random => "random" | .reference => "reference" | .unknown => "unknown"
  | .refRand => "ref_rand" | .unkRand => "unk_rand"

def showPlan : Option Plan → String
  | none => "raises"
  | some p =>
    let bs := p.builds.map fun b => s!"{catName b.cat}:{if b.binned then "binned" else "unbinned"}:{if b.closedCfg then "closed" else "noclosed"}"
    let ls := p.linkage.map catName
    let ss := p.slots.map fun s => match s with
      | none => "-"
      | some c => s!"{catName c.first}x{match c.second with | some d => catName d | none => "auto"}"
    s!"builds={",".intercalate bs} linkage={",".intercalate ls} slots={",".intercalate ss}"

end Yaw.PlanM
