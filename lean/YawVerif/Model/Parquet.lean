/-
  Row-group cache of `ParquetReader` (C18, C02): `_load_groups` requests row groups until the cache
  holds a full chunk (or the file ends), `_extract_chunk` pops tables from the left until `chunksize`
  rows are collected, hands out the first `chunksize` of them and pushes the remainder back to the
  left.  Hand-written; tied to the source by the pin `Gen.pinParquetCache` and by the C18 check
  (chunk lengths, row content and the row groups requested after every chunk).
-/
import YawVerif.Generated.Reader

namespace Yaw.Parquet

def size {α : Type} (tables : List (List α)) : Nat := (tables.map List.length).sum

structure St (α : Type) where
  groups : List (List α)      -- row groups of the file not requested yet
  cache : List (List α)       -- the deque, left end first
  requested : Nat             -- number of row groups requested so far
  last : Nat                  -- size of the row group requested last

def start {α : Type} (file : List (List α)) : St α := { groups := file, cache := [], requested := 0, last := 0 }

/-- `_load_groups` -/
def load {α : Type} (c : Nat) : (groups cache : List (List α)) → (requested last : Nat) → St α
  | [], cache, r, l => { groups := [], cache := cache, requested := r, last := l }
  | g :: gs, cache, r, l =>
    if size cache < c then load c gs (cache ++ [g]) (r + 1) g.length
    else { groups := g :: gs, cache := cache, requested := r, last := l }

/-- the pop loop of `_extract_chunk`: tables popped from the left until `c` rows are collected -/
def pop {α : Type} (c : Nat) : (collected : Nat) → List (List α) → List (List α) × List (List α)
  | _, [] => ([], [])
  | n, t :: ts =>
    if n < c then
      let (p, rest) := pop c (n + t.length) ts
      (t :: p, rest)
    else ([], t :: ts)

/-- `_extract_chunk`: (chunk handed out, cache afterwards) -/
def extract {α : Type} (c : Nat) (cache : List (List α)) : List α × List (List α) :=
  let (p, rest) := pop c 0 cache
  let over := p.flatten
  let rem := over.drop c
  (over.take c, if rem.isEmpty then rest else rem :: rest)

/-- `_get_next_chunk` -/
def next {α : Type} (c : Nat) (s : St α) : List α × St α :=
  let s' := load c s.groups s.cache s.requested s.last
  let (chunk, cache') := extract c s'.cache
  (chunk, { s' with cache := cache' })

/-- `k` calls of `_get_next_chunk` (the base reader calls it once per chunk of the pass) -/
def run {α : Type} (c : Nat) : Nat → St α → List (List α) × St α
  | 0, s => ([], s)
  | k + 1, s =>
    let (chunk, s') := next c s
    let (chunks, s'') := run c k s'
    (chunk :: chunks, s'')

end Yaw.Parquet
