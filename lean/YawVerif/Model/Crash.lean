/-
  Crash safety of the caches (C08).

  The disk is modelled per file by WHAT a reader would find: nothing, a partially written file, or
  the complete content of some version (`Ver`: which input data it belongs to; trees and their
  marker also carry the binning `Bin` they were built for).  A workload is a list of file-system
  operations (`Op`) in program order; a crash is any prefix.  `allowed` is the write discipline
  (payload only changed while its validity marker is absent, markers installed atomically and only
  over complete payload of the same version); `view*` are the loaders' decisions.

  The op alphabet also contains the in-place marker writes of the unrepaired code
  (`creatIds`, `writeIds`, `creatMarker`, `writeMarker`); the discipline rejects them and
  `Props/C08` holds witnesses that they are unsafe.
-/
import YawVerif.Generated.Crash

namespace Yaw.Crash

abbrev Ver := Nat
abbrev Bin := Nat          -- identifies a binning (edges + closed side); 0 = unbinned

/-- plain file content -/
inductive C
  | absent | part | full (v : Ver)
deriving DecidableEq, Repr

/-- pickled trees: built from data version `v` for binning `b` -/
inductive TC
  | absent | part | full (v : Ver) (b : Bin)
deriving DecidableEq, Repr

/-- binning marker file -/
inductive MC
  | absent | part | full (b : Bin)
deriving DecidableEq, Repr

/-- patch id list: version and the patches it lists -/
inductive IC
  | absent | part | full (v : Ver) (ps : List Nat)
deriving DecidableEq, Repr

/-- files of one patch directory -/
structure PF where
  data : C := .absent
  mta : C := .absent
  trees : TC := .absent
  marker : MC := .absent
  mtmp : MC := .absent
deriving DecidableEq, Repr

structure Disk where
  ids : IC := .absent
  itmp : IC := .absent
  pf : Nat → PF := fun _ => {}
  dat : C := .absent            -- result text files
  smp : C := .absent
  hdf : C := .absent            -- result HDF5 file

inductive Op
  -- catalog level
  | unlinkIds | unlinkItmp
  | creatItmp | writeItmp (v : Ver) (ps : List Nat) (last : Bool) | renameIds
  | creatIds | writeIds (v : Ver) (ps : List Nat) (last : Bool)          -- in place (rejected)
  | mkPatch (p : Nat) | rmPatch (p : Nat)
  | creatData (p : Nat) | writeData (p : Nat) (v : Ver) (last : Bool) | unlinkData (p : Nat)
  | creatMeta (p : Nat) | writeMeta (p : Nat) (last : Bool) | unlinkMeta (p : Nat)
  -- trees
  | unlinkMarker (p : Nat) | unlinkMtmp (p : Nat) | unlinkTrees (p : Nat)
  | creatTrees (p : Nat) | writeTrees (p : Nat) (b : Bin) (last : Bool)
  | creatMtmp (p : Nat) | writeMtmp (p : Nat) (b : Bin) (last : Bool) | renameMarker (p : Nat)
  | creatMarker (p : Nat) | writeMarker (p : Nat) (b : Bin) (last : Bool)  -- in place (rejected)
  -- results
  | unlinkSmp | unlinkDat
  | creatDat | writeDat (v : Ver) (last : Bool) | creatSmp | writeSmp (last : Bool)
  | otherResult                                                           -- .cov: never read back
  | creatHdf | writeHdf (v : Ver) (last : Bool)
deriving DecidableEq, Repr

def setPF (d : Disk) (p : Nat) (f : PF → PF) : Disk :=
  { d with pf := fun q => if q = p then f (d.pf q) else d.pf q }

def dataVer (f : PF) : Option Ver := match f.data with | .full v => some v | _ => none

/-- effect of a (successful) operation -/
def apply (d : Disk) : Op → Disk
  | .unlinkIds => { d with ids := .absent }
  | .unlinkItmp => { d with itmp := .absent }
  | .creatItmp => { d with itmp := .part }
  | .writeItmp v ps last => { d with itmp := if last then .full v ps else .part }
  | .renameIds => { d with ids := d.itmp, itmp := .absent }
  | .creatIds => { d with ids := .part }
  | .writeIds v ps last => { d with ids := if last then .full v ps else .part }
  | .mkPatch _ => d
  | .rmPatch _ => d
  | .creatData p => setPF d p fun f => { f with data := .part }
  | .writeData p v last => setPF d p fun f => { f with data := if last then .full v else .part }
  | .unlinkData p => setPF d p fun f => { f with data := .absent }
  | .creatMeta p => setPF d p fun f => { f with mta := .part }
  | .writeMeta p last => setPF d p fun f =>
      { f with mta := match dataVer f with
                       | some v => if last then .full v else .part
                       | none => .part }
  | .unlinkMeta p => setPF d p fun f => { f with mta := .absent }
  | .unlinkMarker p => setPF d p fun f => { f with marker := .absent }
  | .unlinkMtmp p => setPF d p fun f => { f with mtmp := .absent }
  | .unlinkTrees p => setPF d p fun f => { f with trees := .absent }
  | .creatTrees p => setPF d p fun f => { f with trees := .part }
  | .writeTrees p b last => setPF d p fun f =>
      { f with trees := match dataVer f with
                        | some v => if last then .full v b else .part
                        | none => .part }
  | .creatMtmp p => setPF d p fun f => { f with mtmp := .part }
  | .writeMtmp p b last => setPF d p fun f => { f with mtmp := if last then .full b else .part }
  | .renameMarker p => setPF d p fun f => { f with marker := f.mtmp, mtmp := .absent }
  | .creatMarker p => setPF d p fun f => { f with marker := .part }
  | .writeMarker p b last => setPF d p fun f => { f with marker := if last then .full b else .part }
  | .unlinkSmp => { d with smp := .absent }
  | .unlinkDat => { d with dat := .absent }
  | .creatDat => { d with dat := .part }
  | .writeDat v last => { d with dat := if last then .full v else .part }
  | .creatSmp => { d with smp := .part }
  | .writeSmp last => { d with smp := match d.dat with
                                      | .full v => if last then .full v else .part
                                      | _ => .part }
  | .otherResult => d
  | .creatHdf => { d with hdf := .part }
  | .writeHdf v last => { d with hdf := if last then .full v else .part }

def treesMatch (t : TC) (b : Bin) : Bool :=
  match t with
  | .full _ b' => b' == b
  | _ => false

/-- the write discipline: what a workload may do in a given state -/
def allowed (d : Disk) : Op → Bool
  | .unlinkIds | .unlinkItmp | .creatItmp | .writeItmp .. => true
  | .renameIds =>
      match d.itmp with
      | .full v ps => ps.all fun p => (d.pf p).data == .full v
      | _ => false
  | .creatIds | .writeIds .. => false
  | .mkPatch _ | .rmPatch _ => true
  | .creatData p =>
      d.ids == .absent && (d.pf p).mta == .absent && (d.pf p).trees == .absent && (d.pf p).marker == .absent
  | .writeData p _ _ =>
      d.ids == .absent && (d.pf p).data == .part && (d.pf p).mta == .absent && (d.pf p).trees == .absent
        && (d.pf p).marker == .absent
  | .unlinkData _ | .unlinkMeta _ | .unlinkMarker _ | .unlinkMtmp _ | .unlinkTrees _ => true
  | .creatMeta p => (dataVer (d.pf p)).isSome
  | .writeMeta p _ => (dataVer (d.pf p)).isSome && (d.pf p).mta == .part
  | .creatTrees p => (d.pf p).marker == .absent
  | .writeTrees p _ _ => (d.pf p).marker == .absent && (d.pf p).trees == .part && (dataVer (d.pf p)).isSome
  | .creatMtmp _ | .writeMtmp .. => true
  | .renameMarker p =>
      match (d.pf p).mtmp with
      | .full b => treesMatch (d.pf p).trees b
      | _ => false
  | .creatMarker _ | .writeMarker .. => false
  | .unlinkSmp => true
  | .unlinkDat => d.smp == .absent
  | .creatDat => d.smp == .absent
  | .writeDat _ _ => d.smp == .absent && d.dat == .part
  | .creatSmp => match d.dat with | .full _ => true | _ => false
  | .writeSmp _ => (match d.dat with | .full _ => true | _ => false) && d.smp == .part
  | .otherResult | .creatHdf | .writeHdf .. => true

/-- run a workload; `none` as soon as an operation violates the discipline -/
def run (d : Disk) : List Op → Option Disk
  | [] => some d
  | op :: ops => if allowed d op then run (apply d op) ops else none

/-- all states a crash can leave: the disk after every prefix (no discipline check) -/
def prefixStates (d : Disk) : List Op → List Disk
  | [] => [d]
  | op :: ops => d :: prefixStates (apply d op) ops

/-! ### what the loaders make of a disk -/

/-- result of a use: an exception, silently wrong content, or a value with its provenance -/
inductive R
  | err | garbage | ok (v : Ver) (b : Bin)
deriving DecidableEq, Repr

/-- `Patch(cache_path)`: metadata from `meta.yml`, recomputed from `data.bin` when missing; an empty
    `meta.yml` raises -/
def openPatch (f : PF) : R :=
  match f.mta with
  | .full v => .ok v 0
  | .part => .err
  | .absent =>
    match f.data with
    | .full v => .ok v 0
    | .part => .garbage          -- `np.fromfile` reads whatever is there
    | .absent => .err

/-- reading the records of a patch -/
def readData (f : PF) : R :=
  match f.data with
  | .full v => .ok v 0
  | .part => .garbage
  | .absent => .err

/-- a measurement with binning `b` on a patch: reuse the trees when the marker names `b`, else
    rebuild from the data -/
def measurePatch (f : PF) (b : Bin) : R :=
  match f.marker with
  | .part => .garbage           -- an empty / one-byte marker reads as 'unbinned'
  | .full b' =>
    if b' = b then
      match f.trees with
      | .full v bt => .ok v bt
      | .part => .err           -- unpickling fails
      | .absent => .err
    else
      match f.data with
      | .full v => .ok v b
      | .part => .garbage
      | .absent => .err
  | .absent =>
    match f.data with
    | .full v => .ok v b
    | .part => .garbage
    | .absent => .err

/-- combine the per-patch results of one use of a catalog whose id list has version `v`: any silent
    corruption or any value of another version / binning is `garbage`, else the first error, else ok -/
def isBad (v : Ver) (b : Bin) : R → Bool
  | .garbage => true
  | .ok v' b' => !(v' == v && b' == b)
  | .err => false

def combine (v : Ver) (b : Bin) (rs : List R) : R :=
  if rs.any (isBad v b) then .garbage
  else if rs.any (· == .err) then .err
  else .ok v b

def viewCatalog (d : Disk) (use : PF → R) (b : Bin) : R :=
  match d.ids with
  | .absent => .err
  | .part => .garbage            -- an empty / partial id list opens as a smaller catalog
  | .full v ps => combine v b (ps.map fun p => use (d.pf p))

def viewOpen (d : Disk) : R := viewCatalog d openPatch 0
def viewRecords (d : Disk) : R := viewCatalog d readData 0
def viewMeasure (d : Disk) (b : Bin) : R := viewCatalog d (fun f => measurePatch f b) b

/-- `from_files`: data and samples are read together -/
def viewText (d : Disk) : R :=
  match d.dat, d.smp with
  | .full v, .full v' => if v = v' then .ok v 0 else .garbage
  | _, _ => .err                    -- missing or incomplete text files do not parse / have the wrong shape

def viewHdf (d : Disk) : R :=
  match d.hdf with
  | .full v => .ok v 0
  | _ => .err

/-! ### the op sequences the code emits (shape fixed by the generated flags) -/

/-- `n` write calls to one file: only the last one completes it -/
def writes {α} : Nat → (Bool → α) → List α
  | 0, _ => []
  | 1, mk => [mk true]
  | n + 2, mk => mk false :: writes (n + 1) mk

/-- `BinnedTrees.build` when it rebuilds, `nt ≥ 1` writes of the pickle, `nm ≥ 1` of the marker -/
def buildOps (invalidateFirst atomic hadMarker : Bool) (p : Nat) (b : Bin) (nt nm : Nat) : List Op :=
  (if invalidateFirst && hadMarker then [Op.unlinkMarker p] else [])
  ++ [Op.creatTrees p] ++ writes nt (Op.writeTrees p b)
  ++ (if atomic then [Op.creatMtmp p] ++ writes nm (Op.writeMtmp p b) ++ [Op.renameMarker p]
      else [Op.creatMarker p] ++ writes nm (Op.writeMarker p b))

/-- `CatalogWriter.finalize`: the id list -/
def finalizeOps (atomic : Bool) (v : Ver) (ps : List Nat) (n : Nat) : List Op :=
  if atomic then [Op.creatItmp] ++ writes n (Op.writeItmp v ps) ++ [Op.renameIds]
  else [Op.creatIds] ++ writes n (Op.writeIds v ps)

/-- `to_files`: `.dat`, `.smp` (the `.cov` file is never read back) -/
def toFilesOps (invalidateFirst hadSmp : Bool) (v : Ver) (nd ns : Nat) : List Op :=
  (if invalidateFirst && hadSmp then [Op.unlinkSmp] else [])
  ++ [Op.creatDat] ++ writes nd (Op.writeDat v) ++ [Op.creatSmp] ++ writes ns Op.writeSmp

end Yaw.Crash
