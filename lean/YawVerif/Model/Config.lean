/-
  Configurations (C15, C11): bin-edge factories, scale → angle table, validation and the
  create / modify decision logic (hand-written around the generated kernels).
-/
import YawVerif.Generated.Config

namespace Yaw.Cfg

/-- `np.linspace(lo, hi, n + 1)[k]` (end point set exactly) -/
def linspace (lo hi : Rat) (n k : Nat) : Rat := if k = n then hi else lo + k * ((hi - lo) / n)

/-- edges of a binning that is linear in `g`: `h (linspace (g zmin) (g zmax))` with the two outer
    edges set to the requested limits (comoving distance, log(1+z)) -/
def mappedEdges (g h : Rat → Rat) (zmin zmax : Rat) (n k : Nat) : Rat :=
  if k = 0 then zmin else if k = n then zmax else h (linspace (g zmin) (g zmax) n k)

inductive Unit | rad | deg | arcmin | arcsec | kpc | Mpc | kpc_h | Mpc_h
deriving DecidableEq, Repr

/-- implementation: dispatch over the unit onto the generated per-unit formulas -/
def angleImpl (u : Unit) (r dA dC degToRad : Rat) : Rat :=
  match u with
  | .rad => Gen.angle_rad r dA dC degToRad
  | .deg => Gen.angle_deg r dA dC degToRad
  | .arcmin => Gen.angle_arcmin r dA dC degToRad
  | .arcsec => Gen.angle_arcsec r dA dC degToRad
  | .kpc => Gen.angle_kpc r dA dC degToRad
  | .Mpc => Gen.angle_Mpc r dA dC degToRad
  | .kpc_h => Gen.angle_kpc_h r dA dC degToRad
  | .Mpc_h => Gen.angle_Mpc_h r dA dC degToRad

/-- SPEC: θ = r · (unit factor) / D(z) for the unit's distance measure -/
def unitFactor (u : Unit) (degToRad : Rat) : Rat :=
  match u with
  | .rad => 1 | .deg => degToRad | .arcmin => degToRad / 60 | .arcsec => degToRad / 3600
  | .kpc => 1 / 1000 | .Mpc => 1 | .kpc_h => 1 / 1000 | .Mpc_h => 1

def unitDistance (u : Unit) (dA dC : Rat) : Rat :=
  match u with
  | .kpc | .Mpc => dA
  | .kpc_h | .Mpc_h => dC
  | _ => 1

def angleSpec (u : Unit) (r dA dC degToRad : Rat) : Rat := r * unitFactor u degToRad / unitDistance u dA dC

/-! ### create / modify decision logic of `BinningConfig` (after the repairs F13, F15) -/

inductive Method | linear | comoving | logspace | custom
deriving DecidableEq, Repr

/-- the parameters that determine a binning configuration -/
structure BinParams where
  zmin : Option Rat
  zmax : Option Rat
  numBins : Nat
  method : Method
  edges : Option (List Rat)
  closedLeft : Bool
deriving DecidableEq

inductive Binning
  | error
  | custom (edges : List Rat) (closedLeft : Bool)
  | generated (method : Method) (zmin zmax : Rat) (numBins : Nat) (closedLeft : Bool)
deriving DecidableEq

/-- `BinningConfig.create` -/
def createBinning (p : BinParams) : Binning :=
  match p.edges with
  | some e => if Gen.edgesInvalid e then .error else .custom e p.closedLeft
  | none =>
    match p.zmin, p.zmax with
    | some a, some b => if p.method = .custom then .error else .generated p.method a b p.numBins p.closedLeft
    | _, _ => .error

/-- parameters of an existing binning: its edges for a custom binning together with the limits and
    bin number it exposes (`zmin`, `zmax`, `num_bins` properties), which `modify` falls back to -/
def paramsOf : Binning → Option BinParams
  | .error => none
  | .custom e c => some ⟨e.head?, e.getLast?, e.length - 1, .custom, some e, c⟩
  | .generated m a b n c => some ⟨some a, some b, n, m, none, c⟩

/-- the modification request: every field optional (`NotSet` = none) -/
structure Delta where
  zmin : Option Rat := none
  zmax : Option Rat := none
  numBins : Option Nat := none
  method : Option Method := none
  edges : Option (List Rat) := none
  closedLeft : Option Bool := none

/-- merged parameters: new edges override everything; a custom binning keeps its edges unless new
    generation parameters are given; otherwise field-wise override of limits / bin number / method
    (edges dropped).  `createBinning` reads `edges` first: in the code zmin+zmax take precedence over
    simultaneously given edges (with a warning) — merged parameter sets never contain both. -/
def merge (p : BinParams) (d : Delta) : BinParams :=
  let closed := d.closedLeft.getD p.closedLeft
  match d.edges with
  | some e => ⟨none, none, p.numBins, .custom, some e, closed⟩
  | none =>
    if p.method = .custom ∧ d.zmin.isNone ∧ d.zmax.isNone ∧ d.numBins.isNone ∧ d.method.isNone then
      { p with closedLeft := closed }
    else
      ⟨d.zmin.orElse fun _ => p.zmin, d.zmax.orElse fun _ => p.zmax, d.numBins.getD p.numBins,
       d.method.getD p.method, none, closed⟩

/-- `BinningConfig.modify` as the code decides it (edges kept / rebuilt / error) -/
def modifyBinning (b : Binning) (d : Delta) : Binning :=
  match paramsOf b with
  | none => .error
  | some p =>
    let closed := d.closedLeft.getD p.closedLeft
    let keep := p.method = .custom ∧ d.zmin.isNone ∧ d.zmax.isNone ∧ d.numBins.isNone ∧ d.method.isNone
    let edges := match d.edges with
      | some e => some e
      | none => if keep then p.edges else none
    match edges with
    | some e => if Gen.edgesInvalid e then .error else .custom e closed
    | none =>
      if d.method = some .custom then .error
      else
        let m := d.method.getD p.method
        if m = .custom then .error
        else match d.zmin.orElse fun _ => p.zmin, d.zmax.orElse fun _ => p.zmax with
          | some a, some c => .generated m a c (d.numBins.getD p.numBins) closed
          | _, _ => .error

end Yaw.Cfg
