/-
  Persistence (C11): sparse HDF5 layout of pair counts, member ↔ group mapping of CorrFunc,
  hand-written around the generated names / pairing rule.
-/
import YawVerif.Generated.Persist

namespace Yaw.Persist

/-- all patch pairs (i, j) in row-major order -/
def allPairs (N : Nat) : List (Nat × Nat) := (List.range N).flatMap fun i => (List.range N).map fun j => (i, j)

/-- `PatchedCounts.to_hdf`: the patch pairs with a non-zero count in some bin, and their binned counts -/
def toSparse (B N : Nat) (c : Nat → Nat → Nat → Rat) : List ((Nat × Nat) × List Rat) :=
  ((allPairs N).filter fun p => (List.range B).any fun b => c b p.1 p.2 != 0).map fun p =>
    (p, (List.range B).map fun b => c b p.1 p.2)

/-- `PatchedCounts.from_hdf`: zeros, then `set_patch_pair` for every stored pair (later entries win) -/
def fromSparse (entries : List ((Nat × Nat) × List Rat)) : Nat → Nat → Nat → Rat :=
  entries.foldl (fun acc e => fun b i j => if (i, j) = e.1 then e.2.getD b 0 else acc b i j) (fun _ _ _ => 0)

/-- groups written by `CorrFunc.to_hdf` for the present members (dd is always present) -/
def groupsWritten (present : List Bool) : List (String × Nat) :=
  if Gen.hdfWriteBySlot then
    ((List.range 4).filter fun k => present.getD k false).map fun k => (Gen.hdfNamesWrite.getD k "", k)
  else
    -- names zipped with the present members only (the defect repaired by `fix:` d987214)
    (Gen.hdfNamesWrite.zip ((List.range 4).filter fun k => present.getD k false))

/-- member k read back by `CorrFunc.from_hdf`: the slot of the group called `hdfNamesRead[k]` -/
def memberRead (groups : List (String × Nat)) (k : Nat) : Option Nat :=
  (groups.find? fun g => g.1 == Gen.hdfNamesRead.getD k "?").map (·.2)

end Yaw.Persist
