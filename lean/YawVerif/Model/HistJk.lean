/-
  Hand-written model of `redshifts.resample_jackknife` (index gymnastics with
  tile / delete / reshape), parameterised by the GENERATED list of deleted positions.
-/
import YawVerif.Generated.HistJk

namespace Yaw.Impl

/-- `np.tile(np.arange(N), N)` -/
def tile (N : Nat) : List Nat := (List.replicate N (List.range N)).flatten

/-- `np.delete` on a list whose first element sits at flat position `o`:
    drop the elements whose flat position satisfies `del` -/
def npDeleteFrom (del : Nat → Bool) : Nat → List Nat → List Nat
  | _, [] => []
  | o, x :: xs => if del o then npDeleteFrom del (o + 1) xs else x :: npDeleteFrom del (o + 1) xs

/-- `np.delete(l, ps)` -/
def npDelete (l : List Nat) (ps : List Nat) : List Nat := npDeleteFrom (fun q => ps.contains q) 0 l

/-- row `r` of `l.reshape((_, w))` -/
def reshapeRow (l : List Nat) (w r : Nat) : List Nat := (l.drop (r * w)).take w

/-- row `k` of `idx_jackknife` -/
def histJkRow (N k : Nat) : List Nat :=
  reshapeRow (npDelete (tile N) (Gen.histDelPos N)) (N - 1) k

/-- `resample_jackknife(counts)[k]` for one bin: `counts[idx_jackknife[k]].sum()` -/
def histJk (N : Nat) (c : Nat → Rat) (k : Nat) : Rat :=
  lsum ((histJkRow N k).map c)

end Yaw.Impl
