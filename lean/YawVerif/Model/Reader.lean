/-
  Chunked reading (C18, C02, C16): one pass of `DataChunkReader` as a state machine built from the
  GENERATED stop test / counter update / slice bounds / random chunk size.
-/
import YawVerif.Generated.Reader

namespace Yaw.Rd

/-- the python slices `[lo:hi]` requested from the data frame during one pass; `s` = iteration
    counter, `fuel` bounds the loop (n + 1 suffices for c ≥ 1) -/
def requests (n c : Int) : Nat → Int → List (Int × Int)
  | 0, _ => []
  | fuel + 1, s =>
    if Gen.readerStop s n c then []
    else
      let s' := Gen.readerAdvance s n c
      (Gen.dfSliceLo s' n c, Gen.dfSliceHi s' n c) :: requests n c fuel s'

/-- python `xs[lo:hi]` for 0 ≤ lo ≤ hi (bounds beyond the end are clipped) -/
def pySlice {α : Type} (xs : List α) (lo hi : Int) : List α :=
  (xs.drop lo.toNat).take (hi.toNat - lo.toNat)

/-- the chunks a reader yields in one pass over `xs` -/
def readAll {α : Type} (xs : List α) (c : Int) : List (List α) :=
  (requests xs.length c (xs.length + 1) 0).map fun r => pySlice xs r.1 r.2

/-- chunk sizes of one pass of the random reader -/
def randomSizes (n c : Int) : Nat → Int → List Int
  | 0, _ => []
  | fuel + 1, s =>
    if Gen.readerStop s n c then []
    else
      let s' := Gen.readerAdvance s n c
      Gen.randomChunkSize s' n c :: randomSizes n c fuel s'

/-- header byte of `data.bin` from the three optional-column flags -/
def encodeHeader (f : Nat → Bool) : Nat :=
  (Gen.hdrAlwaysSet.map fun b => 2 ^ b).sum +
    ((List.range 3).map fun k => if f k then 2 ^ Gen.hdrWriteBit k else 0).sum

def decodeHeader (byte : Nat) (k : Nat) : Bool := byte.testBit (Gen.hdrReadBit k)

end Yaw.Rd
