/- driver handlers: patch metadata / centre alignment / guards (C12) -/
import YawVerif.Drv.Common
import YawVerif.Model.PatchMeta

open Yaw Yaw.Proto Yaw.Drv

namespace Yaw.Drv.GenPatchMeta

/-- `meta n dists(n) hasW [w(n)]` → numRecords sumWeights radius -/
def hMeta : R String := do
  let n ← nat
  let d ← rats n
  let hasW ← Proto.bool
  let w ← if hasW then some <$> rats n else pure none
  let m := Meta.compute d.toList (w.map (·.toList))
  pure s!"{m.numRecords} {fmtRat m.sumWeights} {fmtRat m.radius}"

/-- `guard n d(n) r(n)` → 1 if `check_patch_conistency` raises -/
def hGuard : R String := do
  let n ← nat
  let d ← rats n
  let r ← rats n
  pure (if Meta.centresInconsistent d.toList r.toList then "1" else "0")

/-- `pair k ids(k) ncentres` → `raise` or the centre index paired with each id -/
def hPair : R String := do
  let k ← nat
  let ids ← nats k
  let nc ← nat
  match Meta.pairCentres ids.toList (List.range nc) with
  | none => pure "raise"
  | some l => pure (join ((l.map fun p => s!"{p.1}:{p.2}").toArray))

/-- `ids k ids(k) m (len ids…)*m` → 1 if the id-set guard raises -/
def hIds : R String := do
  let k ← nat
  let ids ← nats k
  let m ← nat
  let mut others : List (List Nat) := []
  for _ in [0:m] do
    let len ← nat
    let o ← nats len
    others := others ++ [o.toList]
  pure (if Meta.idsInconsistent ids.toList others then "1" else "0")

def handler (kind : String) : R String :=
  match kind with
  | "meta" => hMeta
  | "guard" => hGuard
  | "pair" => hPair
  | "ids" => hIds
  | _ => throw s!"unknown kind {kind}"

end Yaw.Drv.GenPatchMeta
