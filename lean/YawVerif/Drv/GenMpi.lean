/- driver handlers: MPI protocol models (C06) — acceptance of event traces of the simulated worlds -/
import YawVerif.Drv.Common
import YawVerif.Model.Mpi

open Yaw Yaw.Proto Yaw.Drv

namespace Yaw.Drv.GenMpi
open Yaw.Mpi

def codeCfg (sel : Nat → Bool) : Cfg := { sel := sel, countFirst := Gen.mpiCountFirst, fallback := Gen.mpiFallbackOnRoot }
def codeCfgB (sync : Bool) : CfgB := { perSender := Gen.mpiSentinelPerSender, sync := sync }

/-- label check after a root step that hands something to worker `i`: `t` task, `e` sentinel, `x` nothing -/
def labelOk (s : St) (i : Nat) (lbl : String) : Bool :=
  match s.ws[i]?, lbl with
  | some (.task _), "t" => true
  | some .eoq, "e" => true
  | _, "x" => true
  | _, _ => false

/-- leave the loop and run what is left on the root (events without MPI calls) -/
def drain (c : Cfg) (s : St) : Nat → Option St
  | 0 => none
  | fuel + 1 =>
    match s.pc with
    | .loop => (step c s .rootExit).bind fun s' => drain c s' fuel
    | .fallback =>
      match s.pending with
      | [] => step c s .rootLocalDone
      | _ => (step c s .rootLocal).bind fun s' => drain c s' fuel
    | .barrier => some s
    | _ => none

/-- `iterA n sel*n ntasks nev ev*` with ev = rf lbl | rr i lbl | wr i | wd i | ws i | fin | b
    → `ok|<index>` pc yielded… -/
def hIterA : Proto.R String := do
  let n ← nat
  let selv ← nats n
  let ntasks ← nat
  let nev ← nat
  let c := codeCfg fun i => selv.getD i 0 == 1
  let mut s := init n (List.range ntasks)
  let mut bad : Option Nat := none
  for k in [0:nev] do
    let t ← tok
    let mut r : Option St := none
    match t with
    | "rf" =>
      let lbl ← tok
      let i := match s.pc with | .first i => i | _ => 0
      r := (step c s .rootFirst).bind fun s' => if labelOk s' i lbl then some s' else none
    | "rr" =>
      let i ← nat
      let lbl ← tok
      r := (step c s (.rootRecv i)).bind fun s' => if labelOk s' i lbl then some s' else none
    | "wr" => r := step c s (.wRecv (← nat))
    | "wd" => r := step c s (.wDone (← nat))
    | "ws" => r := step c s (.wStop (← nat))
    | "fin" => r := drain c s (ntasks + 4)
    | "b" => r := step c s .barrier
    | _ => throw s!"unknown event {t}"
    if bad.isNone then
      match r with
      | some s' => s := s'
      | none => bad := some k
  let acc := match bad with | none => "ok" | some k => toString k
  let pc := match s.pc with | .done => "done" | .barrier => "barrier" | .loop => "loop" | .fallback => "fallback" | .first _ => "first"
  pure (s!"{acc} {pc} {s.pending.length} " ++ ",".intercalate (s.yielded.map toString))

/-- `writerB sync m chunks nev ev*` with ev = s j | g j | tb j | rs | r j
    → `ok|<index>` stopped lost written-per-sender -/
def hWriterB : Proto.R String := do
  let sync ← Proto.bool
  let m ← nat
  let chunks ← nat
  let nev ← nat
  let c := codeCfgB sync
  let mut s := initB c m chunks
  let mut bad : Option Nat := none
  for k in [0:nev] do
    let t ← tok
    let e ← match t with
      | "s" => do pure (EvB.send (← nat))
      | "g" => do pure (EvB.signal (← nat))
      | "tb" => do pure (EvB.toBarrier (← nat))
      | "rs" => pure EvB.rootSignal
      | "r" => do pure (EvB.recv (← nat))
      | _ => throw s!"unknown event {t}"
    if bad.isNone then
      match stepB c s e with
      | some s' => s := s'
      | none => bad := some k
  let acc := match bad with | none => "ok" | some k => toString k
  let per := (List.range m).map fun j =>
    ",".intercalate (((s.written.filter fun p => p.1 == j).map (·.2)).map toString)
  pure (s!"{acc} {s.stopped} {lost s} " ++ "|".intercalate per)

def handler (kind : String) : Proto.R String :=
  match kind with
  | "iterA" => hIterA
  | "writerB" => hWriterB
  | _ => throw s!"unknown kind {kind}"

end Yaw.Drv.GenMpi
