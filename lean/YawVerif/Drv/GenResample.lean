/- driver handlers: GenResample (model of the implementation = generated kernels + hand-written glue) -/
import YawVerif.Drv.Common
import YawVerif.Model.CorrFuncGlue
import YawVerif.Generated.Nz
import YawVerif.Model.HistJk

open Yaw Yaw.Proto Yaw.Drv

namespace Yaw.Drv.GenResample

/-- impl value with nan detection (zero denominators) -/
def implTerm (n : Nat) (c : NC) (k : Option Nat) : Option Rat :=
  match k with
  | none =>
      if Gen.jkData n c.normArr = 0 then none else some (c.data n)
  | some k =>
      if Gen.jkSamples n c.normArr k = 0 then none else some (c.samples n k)

def implEstimate (dd : Option Rat) (dr rd rr : Option (Option Rat)) : Option (Option Rat) :=
  let anyNan := dd.isNone || (dr.map (·.isNone)).getD false || (rd.map (·.isNone)).getD false
      || (rr.map (·.isNone)).getD false
  let v (o : Option (Option Rat)) : Option Rat := o.map (·.getD 0)
  let res := Impl.estimate (dd.getD 0) (v dr) (v rd) (v rr)
  let denZero :=
    match rr with
    | some rr => rr.getD 1 = 0
    | none => match rd, dr with
      | some rd, _ => rd.getD 1 = 0
      | none, some dr => dr.getD 1 = 0
      | none, none => false
  match res with
  | none => none
  | some x => some (if anyNan || denZero then none else some x)

def hCf : R String := do
  let q ← readCf
  let N := q.N
  let mut out : Array String := #[]
  for b in [0:q.B] do
    let ncs (c : Option Cont) := c.map (·.nc b)
    let d := q.dd.nc b
    out := out.push (fmtOO (implEstimate (implTerm N d none) ((ncs q.dr).map (implTerm N · none))
      ((ncs q.rd).map (implTerm N · none)) ((ncs q.rr).map (implTerm N · none))))
    for k in [0:N] do
      out := out.push (fmtOO (implEstimate (implTerm N d (some k)) ((ncs q.dr).map (implTerm N · (some k)))
        ((ncs q.rd).map (implTerm N · (some k))) ((ncs q.rr).map (implTerm N · (some k)))))
  pure (join out)

def hJk : R String := do
  let N ← nat
  let B ← nat
  let c ← readCont N B
  let mut out : Array String := #[]
  for b in [0:B] do
    let d := c.nc b
    out := out.push (fmtRat (Gen.jkData N d.a))
    for k in [0:N] do out := out.push (fmtRat (Gen.jkSamples N d.a k))
    out := out.push (fmtRat (Gen.jkData N d.normArr))
    for k in [0:N] do out := out.push (fmtRat (Gen.jkSamples N d.normArr k))
  pure (join out)

def hCov : R String := do
  let n ← nat
  let B ← nat
  let xs ← rats (n * B)
  let x : Nat → Nat → Rat := fun k p => xs.getD (k * B + p) 0
  if n = 1 && Gen.covNanGuard then pure "nan" else
  let mut out : Array String := #[]
  for p in [0:B] do
    for q in [0:B] do
      out := out.push (fmtRat (Impl.cov n x p q))
  pure (join out)

def hNz : R String := do
  let B ← nat
  let M ← nat
  let hasRef ← Proto.bool
  let hasUnk ← Proto.bool
  let dz ← rats B
  let wsp ← rats ((M + 1) * B)
  let wss ← if hasRef then some <$> rats ((M + 1) * B) else pure none
  let wpp ← if hasUnk then some <$> rats ((M + 1) * B) else pure none
  let mut out : Array String := #[]
  for r in [0:M + 1] do
    for b in [0:B] do
      let i := r * B + b
      let s := match wss with | some a => a.getD i 0 | none => Gen.nzAbsent
      let p := match wpp with | some a => a.getD i 0 | none => Gen.nzAbsent
      let dz2 := dz.getD b 0 * dz.getD b 0
      if r = 0 then
        out := out.push (fmtRat (Gen.nzNumData (wsp.getD i 0)))
        out := out.push (fmtRat (Gen.nzRadicandData dz2 s p))
      else
        out := out.push (fmtRat (Gen.nzNumSamples (wsp.getD i 0)))
        out := out.push (fmtRat (Gen.nzRadicandSamples dz2 s p))
  pure (join out)

/-- `histnorm B M emin emax dz(B) d((M+1)*B)`: HistData.normalised (finite entries) -/
def hHistNorm : R String := do
  let B ← nat
  let M ← nat
  let emin ← rat
  let emax ← rat
  let dz ← rats B
  let d ← rats ((M + 1) * B)
  let row (r : Nat) : Nat → Rat := fun b => d.getD (r * B + b) 0
  let norm := sumTo B (Gen.histNormArg B emin emax (vec dz) (row 0))
  if norm = 0 then pure "nan" else
  let mut out : Array String := #[]
  for b in [0:B] do
    out := out.push (fmtRat (Gen.histNormData B emin emax norm (vec dz) (row 0) b))
  for r in [1:M + 1] do
    for b in [0:B] do
      out := out.push (fmtRat (Gen.histNormSamples B emin emax norm (vec dz) (row r) b))
  -- spec: integral of the normalised data
  out := out.push "integral"
  out := out.push (fmtRat (Spec.integral B (vec dz) (Gen.histNormData B emin emax norm (vec dz) (row 0))))
  pure (join out)

/-- `histjk N B counts(N*B)` → data(B) then samples(N*B) as `resample_jackknife` computes them -/
def hHistJk : R String := do
  let N ← nat
  let B ← nat
  let c ← rats (N * B)
  let mut out : Array String := #[]
  for b in [0:B] do
    out := out.push (fmtRat (sumTo N fun i => c.getD (i * B + b) 0))
  for k in [0:N] do
    for b in [0:B] do
      out := out.push (fmtRat (Impl.histJk N (fun i => c.getD (i * B + b) 0) k))
  pure (join out)


def handler (kind : String) : R String :=
  match kind with
  | "cf" => hCf
  | "jk" => hJk
  | "cov" => hCov
  | "nz" => hNz
  | "histnorm" => hHistNorm
  | "histjk" => hHistJk
  | _ => throw s!"unknown kind {kind}"

end Yaw.Drv.GenResample
