/- driver handlers: constructor shape validation (C17) -/
import YawVerif.Model.Proto
import YawVerif.Generated.Ctors

open Yaw Yaw.Proto Yaw.Gen

namespace Yaw.Drv.GenCtors

def shape : R (List Nat) := do
  let k ← nat
  let a ← nats k
  pure a.toList

def b2s (b : Bool) : String := if b then "raise" else "ok"

def handler (kind : String) : R String :=
  match kind with
  | "counts" => do let B ← nat; let s ← shape; pure (b2s (countsCtorRaises B s))
  | "sumw" => do let B ← nat; let s1 ← shape; let s2 ← shape; pure (b2s (sumWeightsCtorRaises B s1 s2))
  | "sampled" => do let B ← nat; let d ← shape; let s ← shape; pure (b2s (sampledCtorRaises B d s))
  | "norm" => do let cN ← nat; let cB ← nat; let wN ← nat; let wB ← nat; pure (b2s (normalisedCtorRaises cN cB wN wB))
  | "corrfunc" => do let dr ← Proto.bool; let rd ← Proto.bool; let rr ← Proto.bool; pure (b2s (corrfuncCtorNoRandoms dr rd rr))
  | _ => throw s!"unknown kind {kind}"

end Yaw.Drv.GenCtors
