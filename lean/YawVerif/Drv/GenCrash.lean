/- driver handlers: crash-safety model (C08) -/
import YawVerif.Drv.Common
import YawVerif.Model.Crash

open Yaw Yaw.Proto Yaw.Drv

namespace Yaw.Drv.GenCrash
open Yaw.Crash

/-- `a` | `p` | `f <v>` -/
def readC : Proto.R C := do
  match (← tok) with
  | "a" => pure .absent
  | "p" => pure .part
  | "f" => do pure (.full (← nat))
  | t => throw s!"bad content {t}"

def readTC : Proto.R TC := do
  match (← tok) with
  | "a" => pure .absent
  | "p" => pure .part
  | "f" => do let v ← nat; let b ← nat; pure (.full v b)
  | t => throw s!"bad trees content {t}"

def readMC : Proto.R MC := do
  match (← tok) with
  | "a" => pure .absent
  | "p" => pure .part
  | "f" => do pure (.full (← nat))
  | t => throw s!"bad marker content {t}"

def readIC : Proto.R IC := do
  match (← tok) with
  | "a" => pure .absent
  | "p" => pure .part
  | "f" => do let v ← nat; let k ← nat; let ps ← nats k; pure (.full v ps.toList)
  | t => throw s!"bad id-list content {t}"

/-- `<ids> <itmp> <npatch> (<p> <data> <meta> <trees> <marker> <mtmp>)* <dat> <smp> <hdf>` -/
def readDisk : Proto.R Disk := do
  let ids ← readIC
  let itmp ← readIC
  let n ← nat
  let mut pfs : List (Nat × PF) := []
  for _ in [0:n] do
    let p ← nat
    let data ← readC
    let mta ← readC
    let trees ← readTC
    let marker ← readMC
    let mtmp ← readMC
    pfs := (p, { data, mta, trees, marker, mtmp }) :: pfs
  let dat ← readC
  let smp ← readC
  let hdf ← readC
  let table := pfs
  pure { ids, itmp, pf := fun p => (table.lookup p).getD {}, dat, smp, hdf }

def readOp : Proto.R Op := do
  match (← tok) with
  | "unlinkIds" => pure .unlinkIds
  | "unlinkItmp" => pure .unlinkItmp
  | "creatItmp" => pure .creatItmp
  | "writeItmp" => do let v ← nat; let k ← nat; let ps ← nats k; let l ← Proto.bool; pure (.writeItmp v ps.toList l)
  | "renameIds" => pure .renameIds
  | "creatIds" => pure .creatIds
  | "writeIds" => do let v ← nat; let k ← nat; let ps ← nats k; let l ← Proto.bool; pure (.writeIds v ps.toList l)
  | "mkPatch" => do pure (.mkPatch (← nat))
  | "rmPatch" => do pure (.rmPatch (← nat))
  | "creatData" => do pure (.creatData (← nat))
  | "writeData" => do let p ← nat; let v ← nat; let l ← Proto.bool; pure (.writeData p v l)
  | "unlinkData" => do pure (.unlinkData (← nat))
  | "creatMeta" => do pure (.creatMeta (← nat))
  | "writeMeta" => do let p ← nat; let l ← Proto.bool; pure (.writeMeta p l)
  | "unlinkMeta" => do pure (.unlinkMeta (← nat))
  | "unlinkMarker" => do pure (.unlinkMarker (← nat))
  | "unlinkMtmp" => do pure (.unlinkMtmp (← nat))
  | "unlinkTrees" => do pure (.unlinkTrees (← nat))
  | "creatTrees" => do pure (.creatTrees (← nat))
  | "writeTrees" => do let p ← nat; let b ← nat; let l ← Proto.bool; pure (.writeTrees p b l)
  | "creatMtmp" => do pure (.creatMtmp (← nat))
  | "writeMtmp" => do let p ← nat; let b ← nat; let l ← Proto.bool; pure (.writeMtmp p b l)
  | "renameMarker" => do pure (.renameMarker (← nat))
  | "creatMarker" => do pure (.creatMarker (← nat))
  | "writeMarker" => do let p ← nat; let b ← nat; let l ← Proto.bool; pure (.writeMarker p b l)
  | "unlinkSmp" => pure .unlinkSmp
  | "unlinkDat" => pure .unlinkDat
  | "creatDat" => pure .creatDat
  | "writeDat" => do let v ← nat; let l ← Proto.bool; pure (.writeDat v l)
  | "creatSmp" => pure .creatSmp
  | "writeSmp" => do pure (.writeSmp (← Proto.bool))
  | "otherResult" => pure .otherResult
  | "creatHdf" => pure .creatHdf
  | "writeHdf" => do let v ← nat; let l ← Proto.bool; pure (.writeHdf v l)
  | t => throw s!"unknown op {t}"

def showR : Crash.R → String
  | .err => "E"
  | .garbage => "G"
  | .ok v b => s!"{v}:{b}"

def showViews (d : Disk) (bins : List Nat) : String :=
  let ms := ",".intercalate (bins.map fun b => showR (viewMeasure d b))
  s!"{showR (viewOpen d)} {showR (viewRecords d)} {ms} {showR (viewText d)} {showR (viewHdf d)}"

/-- index of the first operation the discipline rejects -/
def firstRejected (d : Disk) (ops : List Op) (i : Nat := 0) : Option Nat :=
  match ops with
  | [] => none
  | op :: rest => if allowed d op then firstRejected (apply d op) rest (i + 1) else some i

/-- `crash <disk> <nbins> b* <nops> op*` → `acc=<ok|index> | views after prefix 0 ; 1 ; …` -/
def hCrash : Proto.R String := do
  let d ← readDisk
  let nb ← nat
  let bins ← nats nb
  let n ← nat
  let mut ops : Array Op := #[]
  for _ in [0:n] do
    ops := ops.push (← readOp)
  let acc := match firstRejected d ops.toList with
    | none => "ok"
    | some i => toString i
  let states := prefixStates d ops.toList
  let views := ";".intercalate (states.map fun s => showViews s bins.toList)
  pure s!"acc={acc}|{views}"

def handler (kind : String) : Proto.R String :=
  match kind with
  | "crash" => hCrash
  | _ => throw s!"unknown kind {kind}"

end Yaw.Drv.GenCrash
