/- driver handlers: cosmology decision chains (C15 / C11) -/
import YawVerif.Model.Proto
import YawVerif.Generated.Cosmo

open Yaw Yaw.Proto Yaw.Gen

namespace Yaw.Drv.GenCosmo

def arg : R CosmoArg := do
  let n ← Proto.bool; let s ← Proto.bool; let f ← Proto.bool; let c ← Proto.bool; let a ← Proto.bool
  pure ⟨n, s, f, c, a⟩

def showParse : ParseOut → String
  | .default => "default" | .named => "named" | .same => "same" | .raises e => s!"raise:{e}"
def showYaml : YamlOut → String
  | .name => "name" | .raises e => s!"raise:{e}"
def showEq : EqOut → String
  | .value b => if b then "true" else "false" | .raises e => s!"raise:{e}"

def handler (kind : String) : R String :=
  match kind with
  | "parse" => do pure (showParse (parseCosmology (← arg)))
  | "yaml" => do pure (showYaml (cosmologyToYaml (← arg)))
  | "eq" => do let a ← arg; let b ← arg; let e ← Proto.bool; pure (showEq (cosmologyIsEqual a b e))
  | _ => throw s!"unknown kind {kind}"

end Yaw.Drv.GenCosmo
