/- driver handlers: GenPairCount (model of the implementation = generated kernels + hand-written glue) -/
import YawVerif.Drv.Common
import YawVerif.Model.PairCount

open Yaw Yaw.Proto Yaw.Drv

namespace Yaw.Drv.GenPairCount

/-- `treecount n r(n) hasW [ω(n-1)] S (lo hi)*S m (wprod sep)*m` → S values of `AngularTree.count` -/
def hTreeCount : R String := do
  let n ← nat
  let r ← rats n
  let hasW ← Proto.bool
  let ω ← if hasW then some <$> rats (n - 1) else pure none
  let S ← nat
  let lf ← rats (2 * S)
  let lims := (List.range S).map fun s => (lf.getD (2 * s) 0, lf.getD (2 * s + 1) 0)
  let m ← nat
  let pf ← rats (2 * m)
  let P : PC.Pairs := (List.range m).map fun t => (pf.getD (2 * t) 0, pf.getD (2 * t + 1) 0)
  let out := PC.treePairCount P (vec r) n (ω.map vec) lims
  pure (join (out.map fmtRat).toArray)

/-- `iterpairs auto N (len ids…)*N` → emitted pairs `i j i j …` in model order -/
def hIterPairs : R String := do
  let auto ← Proto.bool
  let N ← nat
  let mut rows : List (Nat × List Nat) := []
  for _ in [0:N] do
    let i ← nat
    let len ← nat
    let l ← nats len
    rows := rows ++ [(i, l.toList)]
  let out := PC.iterPairs auto rows
  pure (join ((out.map fun p => s!"{p.1} {p.2}").toArray))

/-- `linked m (d ri rj amax)*m` → m booleans -/
def hLinked : R String := do
  let m ← nat
  let f ← rats (4 * m)
  let out := (List.range m).map fun t =>
    if Gen.linked (f.getD (4 * t) 0) (f.getD (4 * t + 1) 0) (f.getD (4 * t + 2) 0) (f.getD (4 * t + 3) 0) then "1" else "0"
  pure (join out.toArray)


def handler (kind : String) : R String :=
  match kind with
  | "treecount" => hTreeCount
  | "iterpairs" => hIterPairs
  | "linked" => hLinked
  | _ => throw s!"unknown kind {kind}"

end Yaw.Drv.GenPairCount
