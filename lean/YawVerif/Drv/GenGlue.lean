/- driver handlers: worker count (C05 / C06) -/
import YawVerif.Model.Proto
import YawVerif.Generated.Glue

open Yaw Yaw.Proto Yaw.Gen

namespace Yaw.Drv.GenGlue

def optInt : R (Option Int) := do
  let present ← Proto.bool
  let v ← int
  pure (if present then some v else none)

def handler (kind : String) : R String :=
  match kind with
  | "getsize" => do let mw ← optInt; let size ← int; pure (toString (getSize mw size))
  | "numproc" => do let env ← optInt; let cores ← int; pure (toString (numProcesses env cores))
  | _ => throw s!"unknown kind {kind}"

end Yaw.Drv.GenGlue
