/- driver handlers: worker count (C05 / C06) -/
import YawVerif.Model.Proto
import YawVerif.Generated.Glue
import YawVerif.Model.PathCodec

open Yaw Yaw.Proto Yaw.Gen

namespace Yaw.Drv.GenGlue

def optInt : R (Option Int) := do
  let present ← Proto.bool
  let v ← int
  pure (if present then some v else none)

def handler (kind : String) : R String :=
  match kind with
  | "getsize" => do let mw ← optInt; let size ← int; pure (toString (getSize mw size))
  | "pathname" => do let k ← nat; pure (String.ofList (Yaw.PathCodec.pathName k))
  | "idof" => do
      let name ← tok
      pure (match Yaw.PathCodec.idOfName name.toList with | some k => toString k | none => "raise")
  | "numproc" => do let env ← optInt; let cores ← int; pure (toString (numProcesses env cores))
  | _ => throw s!"unknown kind {kind}"

end Yaw.Drv.GenGlue
