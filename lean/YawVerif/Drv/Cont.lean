/- driver handlers for the container model (C17) -/
import YawVerif.Model.Proto
import YawVerif.Model.Containers

open Yaw Yaw.Proto Yaw.Cont

namespace Yaw.Drv

def readContainer : R C := do
  let B ← nat
  let N ← nat
  let auto ← Proto.bool
  let closedLeft ← Proto.bool
  let edges ← rats (B + 1)
  let counts ← rats (B * N * N)
  let w1 ← rats (B * N)
  let w2 ← rats (B * N)
  pure { B, N, auto, binning := { edges := edges.toList, closedLeft },
         counts := fun b i j => counts.getD ((b * N + i) * N + j) 0,
         w1 := fun b i => w1.getD (b * N + i) 0,
         w2 := fun b i => w2.getD (b * N + i) 0 }

def showContainer (x : C) : String := Id.run do
  let mut out : Array String := #[toString x.B, toString x.N, if x.auto then "1" else "0",
    if x.binning.closedLeft then "1" else "0"]
  for e in x.binning.edges do out := out.push (fmtRat e)
  for b in [0:x.B] do
    for i in [0:x.N] do
      for j in [0:x.N] do out := out.push (fmtRat (x.counts b i j))
  for b in [0:x.B] do
    for i in [0:x.N] do out := out.push (fmtRat (x.w1 b i))
  for b in [0:x.B] do
    for i in [0:x.N] do out := out.push (fmtRat (x.w2 b i))
  " ".intercalate out.toList

def showOpt (x : Option C) : String :=
  match x with
  | some c => showContainer c
  | none => "raise"

def optInt : R (Option Int) := do
  let t ← tok
  if t = "n" then pure none else
    match t.toInt? with
    | some i => pure (some i)
    | none => throw s!"expected int or n, got {t}"

def hCont : R String := do
  let x ← readContainer
  let op ← tok
  match op with
  | "mul" => do let s ← rat; pure (showContainer (mul x s))
  | "add" => do let y ← readContainer; pure (showOpt (add x y))
  | "bins" => do
      let k ← tok
      if k = "int" then do let i ← int; pure (showOpt (binsInt x i))
      else if k = "step" then do
        let s ← optInt; let e ← optInt; let st ← nat
        pure (showOpt (binsSel x (sliceSel x.B s e st)))
      else do let s ← optInt; let e ← optInt; pure (showOpt (binsSlice x s e))
  | "patches" => do
      let k ← tok
      if k = "int" then do let i ← int; pure (showOpt (patchesInt x i))
      else if k = "step" then do
        let s ← optInt; let e ← optInt; let st ← nat
        pure (showContainer (patchesSel x (sliceSel x.N s e st)))
      else do let s ← optInt; let e ← optInt; pure (showContainer (patchesSlice x s e))
  | _ => throw s!"unknown container op {op}"

end Yaw.Drv
