/- driver handlers: chunked reading / random sizes / array_split / header byte (C02 C16 C18) -/
import YawVerif.Drv.Common
import YawVerif.Model.Reader
import YawVerif.Model.Pipeline
import YawVerif.Model.Parquet
import YawVerif.Model.Groupby
import YawVerif.Model.Probe

open Yaw Yaw.Proto Yaw.Drv

namespace Yaw.Drv.GenReader

def hRequests : R String := do
  let n ← nat
  let c ← nat
  let rs := Rd.requests n c (n + 1) 0
  pure (join ((rs.map fun r => s!"{r.1}:{r.2}").toArray))

def hRandSizes : R String := do
  let n ← nat
  let c ← nat
  pure (join ((Rd.randomSizes n c (n + 1) 0).map toString).toArray)

def hSplit : R String := do
  let w ← nat
  let n ← nat
  pure (join (((Pipe.arraySplit w (List.range n)).map fun p => toString p.length).toArray))

def hHeader : R String := do
  let f0 ← Proto.bool
  let f1 ← Proto.bool
  let f2 ← Proto.bool
  let byte := Rd.encodeHeader fun k => match k with | 0 => f0 | 1 => f1 | _ => f2
  pure s!"{byte} {Rd.decodeHeader byte 0} {Rd.decodeHeader byte 1} {Rd.decodeHeader byte 2}"

/-- `pq <ngroups> size* <c> <k>` → after each of `k` calls: `<chunk length>:<first row>:<row groups requested>` -/
def hParquet : R String := do
  let ng ← nat
  let sizes ← nats ng
  let c ← nat
  let k ← nat
  -- rows are numbered 0.. in file order
  let mut file : List (List Nat) := []
  let mut at_ := 0
  for sz in sizes.toList do
    file := file ++ [(List.range sz).map (· + at_)]
    at_ := at_ + sz
  let mut s := Yaw.Parquet.start file
  let mut out : Array String := #[]
  for _ in [0:k] do
    let (chunk, s') := Yaw.Parquet.next c s
    s := s'
    out := out.push s!"{chunk.length}:{chunk.headD 0}:{s.requested}"
  pure (join out)

/-- `groupby <n> (key value)*n` → `key:v,v,…;key:…` (group members in stable order) -/
def hGroupby : R String := do
  let n ← nat
  let mut l : List (Nat × Nat) := []
  for _ in [0:n] do
    let k ← nat
    let v ← nat
    l := l ++ [(k, v)]
  let gs := Yaw.Groupby.groupby l
  pure (";".intercalate (gs.map fun g => s!"{g.1}:" ++ ",".intercalate (g.2.map toString)))

/-- `probe k len_1 … len_k p idx_1 … idx_p` → positions (0-based row numbers) the selection loop of `get_probe` keeps when
    the rows 0 … n−1 arrive in chunks of the given lengths -/
def hProbe : R String := do
  let k ← nat
  let lens ← nats k
  let p ← nat
  let idx ← ints p
  let mut chunks : List (List Nat) := []
  let mut at_ := 0
  for l in lens do
    chunks := chunks ++ [(List.range l).map (· + at_)]
    at_ := at_ + l
  pure (" ".intercalate ((Yaw.Probe.probeLoop chunks idx.toList).map toString))

def handler (kind : String) : R String :=
  match kind with
  | "probe" => hProbe
  | "requests" => hRequests
  | "randsizes" => hRandSizes
  | "split" => hSplit
  | "header" => hHeader
  | "pq" => hParquet
  | "groupby" => hGroupby
  | _ => throw s!"unknown kind {kind}"

end Yaw.Drv.GenReader
