/- driver handlers: chunked reading / random sizes / array_split / header byte (C02 C16 C18) -/
import YawVerif.Drv.Common
import YawVerif.Model.Reader
import YawVerif.Model.Pipeline

open Yaw Yaw.Proto Yaw.Drv

namespace Yaw.Drv.GenReader

def hRequests : R String := do
  let n ← nat
  let c ← nat
  let rs := Rd.requests n c (n + 1) 0
  pure (join ((rs.map fun r => s!"{r.1}:{r.2}").toArray))

def hRandSizes : R String := do
  let n ← nat
  let c ← nat
  pure (join ((Rd.randomSizes n c (n + 1) 0).map toString).toArray)

def hSplit : R String := do
  let w ← nat
  let n ← nat
  pure (join (((Pipe.arraySplit w (List.range n)).map fun p => toString p.length).toArray))

def hHeader : R String := do
  let f0 ← Proto.bool
  let f1 ← Proto.bool
  let f2 ← Proto.bool
  let byte := Rd.encodeHeader fun k => match k with | 0 => f0 | 1 => f1 | _ => f2
  pure s!"{byte} {Rd.decodeHeader byte 0} {Rd.decodeHeader byte 1} {Rd.decodeHeader byte 2}"

def handler (kind : String) : R String :=
  match kind with
  | "requests" => hRequests
  | "randsizes" => hRandSizes
  | "split" => hSplit
  | "header" => hHeader
  | _ => throw s!"unknown kind {kind}"

end Yaw.Drv.GenReader
