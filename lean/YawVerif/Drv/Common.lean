/- shared request parsing for the drivers (core-only) -/
import YawVerif.Model.Proto
import YawVerif.Model.Resample

open Yaw Yaw.Proto

namespace Yaw.Drv

structure Cont where
  N : Nat
  B : Nat
  auto : Bool
  counts : Array Rat
  w1 : Array Rat
  w2 : Array Rat

def Cont.nc (c : Cont) (b : Nat) : NC :=
  { a := fun i j => c.counts.getD ((b * c.N + i) * c.N + j) 0
    w1 := fun i => c.w1.getD (b * c.N + i) 0
    w2 := fun i => c.w2.getD (b * c.N + i) 0
    auto := c.auto }

def readCont (N B : Nat) : R Cont := do
  let auto ← Proto.bool
  let counts ← rats (B * N * N)
  let w1 ← rats (B * N)
  let w2 ← rats (B * N)
  pure { N, B, auto, counts, w1, w2 }

structure CfReq where
  N : Nat
  B : Nat
  dd : Cont
  dr : Option Cont
  rd : Option Cont
  rr : Option Cont

def readCf : R CfReq := do
  let N ← nat
  let B ← nat
  let mask ← nat
  let dd ← readCont N B
  let dr ← if mask &&& 1 ≠ 0 then some <$> readCont N B else pure none
  let rd ← if mask &&& 2 ≠ 0 then some <$> readCont N B else pure none
  let rr ← if mask &&& 4 ≠ 0 then some <$> readCont N B else pure none
  pure { N, B, dd, dr, rd, rr }

def fmtOO (o : Option (Option Rat)) : String :=
  match o with
  | none => "raise"
  | some v => fmtOpt v

def join (a : Array String) : String := " ".intercalate a.toList

end Yaw.Drv
