/- driver handlers: GenBinning (model of the implementation = generated kernels + hand-written glue) -/
import YawVerif.Drv.Common
import YawVerif.Model.Binning

open Yaw Yaw.Proto Yaw.Drv

namespace Yaw.Drv.GenBinning

/-- `bin closedRight B edges(B+1) n (z w)*n` → `trees <B sums> hist <B sums>` of the implementation model -/
def hBin : R String := do
  let cr ← Proto.bool
  let B ← nat
  let edges ← rats (B + 1)
  let n ← nat
  let flat ← rats (2 * n)
  let objs := (List.range n).map fun i => (flat.getD (2 * i) 0, flat.getD (2 * i + 1) 0)
  let t := Bin.binSums (Bin.binIndex cr (vec edges) B) B objs
  let h := Bin.binSums (Bin.histBin cr (vec edges) B) B objs
  pure (join ((#["trees"] ++ (t.map fmtRat).toArray ++ #["hist"] ++ (h.map fmtRat).toArray)))


def handler (kind : String) : R String :=
  match kind with
  | "bin" => hBin
  | _ => throw s!"unknown kind {kind}"

end Yaw.Drv.GenBinning
