/- driver handlers: tree-cache state machine (C07) -/
import YawVerif.Drv.Common
import YawVerif.Model.Cache

open Yaw Yaw.Proto Yaw.Drv Yaw.Cache

namespace Yaw.Drv.GenCache

def readBin : R Bin := do
  let t ← tok
  if t = "u" then pure none else
    match t.toNat? with
    | some k => do
        let cl ← Proto.bool
        let e ← rats k
        pure (some ⟨cl, e.toList⟩)
    | none => throw s!"expected edge count or u, got {t}"

def showBin (b : Bin) : String :=
  match b with
  | none => "u"
  | some x => s!"{if x.closedLeft then "L" else "R"}[" ++ ",".intercalate (x.edges.map fmtRat) ++ "]"

def showState (s : PatchCache) : String :=
  let f (o : Option Bin) := match o with | none => "-" | some b => showBin b
  s!"{f s.marker}~{f s.trees}"

/-- `hist k (op)*k` with op = `b <bin> <force>` | `r` | `m <bin>` → state after every op -/
def hHist : R String := do
  let k ← nat
  let mut s := fresh
  let mut out : Array String := #[]
  for _ in [0:k] do
    let t ← tok
    let op ← match t with
      | "b" => do let b ← readBin; let f ← Proto.bool; pure (Op.build b f)
      | "r" => pure Op.reopen
      | "m" => do let b ← readBin; pure (Op.measure b)
      | _ => throw s!"unknown op {t}"
    s := step s op
    out := out.push (showState s)
  pure (join out)

def handler (kind : String) : R String :=
  match kind with
  | "hist" => hHist
  | _ => throw s!"unknown kind {kind}"

end Yaw.Drv.GenCache
