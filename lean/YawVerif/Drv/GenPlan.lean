/- driver handlers: measurement plans generated from autocorrelate / crosscorrelate (C01 C04 C10) -/
import YawVerif.Drv.Common
import YawVerif.Generated.Plan

open Yaw Yaw.Proto Yaw.Drv Yaw.Gen Yaw.PlanM

namespace Yaw.Drv.GenPlan

/-- `cross <ref_rand present> <unk_rand present>` / `auto <count_rr>` → the plan in canonical text -/
def handler (kind : String) : R String :=
  match kind with
  | "cross" => do
      let rr ← Proto.bool
      let ur ← Proto.bool
      pure (showPlan (crossPlan rr ur))
  | "auto" => do
      let c ← Proto.bool
      pure (showPlan (autoPlan c))
  | _ => throw s!"unknown kind {kind}"

end Yaw.Drv.GenPlan
