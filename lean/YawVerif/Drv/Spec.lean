/- driver handlers of the hand-written SPEC side and hand-written models (nothing generated) -/
import YawVerif.Drv.Common
import YawVerif.Drv.Cont
import YawVerif.Model.BinSpec

open Yaw Yaw.Proto Yaw.Drv

namespace Yaw.SpecDrv

def hCf : R String := do
  let q ← readCf
  let mut out : Array String := #[]
  for b in [0:q.B] do
    let ncs (c : Option Cont) := c.map (·.nc b)
    let d := q.dd.nc b
    out := out.push (fmtOO (Spec.estimate (Spec.term q.N d) ((ncs q.dr).map (Spec.term q.N))
      ((ncs q.rd).map (Spec.term q.N)) ((ncs q.rr).map (Spec.term q.N))))
    for k in [0:q.N] do
      let rm (c : NC) := Spec.term (q.N - 1) (c.remove k)
      out := out.push (fmtOO (Spec.estimate (rm d) ((ncs q.dr).map rm) ((ncs q.rd).map rm) ((ncs q.rr).map rm)))
  pure (join out)

def hJk : R String := do
  let N ← nat
  let B ← nat
  let c ← readCont N B
  let mut out : Array String := #[]
  for b in [0:B] do
    let d := c.nc b
    out := out.push (fmtRat (Spec.total N d.a))
    for k in [0:N] do out := out.push (fmtRat (Spec.total (N - 1) (Spec.removePatch k d.a)))
    let norm (n : Nat) (e : NC) := if e.auto then Spec.normAuto n e.w1 else Spec.normCross n e.w1 e.w2
    out := out.push (fmtRat (norm N d))
    for k in [0:N] do out := out.push (fmtRat (norm (N - 1) (d.remove k)))
  pure (join out)

def hCov : R String := do
  let n ← nat
  let B ← nat
  let xs ← rats (n * B)
  let x : Nat → Nat → Rat := fun k p => xs.getD (k * B + p) 0
  if n = 1 then pure "nan" else
  let mut out : Array String := #[]
  for p in [0:B] do
    for q in [0:B] do
      out := out.push (fmtRat (Spec.jkCov n x p q))
  pure (join out)

/-- spec of n(z): per entry `num radicand` of w_sp / sqrt(dz² w_ss w_pp), absent = 1 -/
def hNz : R String := do
  let B ← nat
  let M ← nat
  let hasRef ← Proto.bool
  let hasUnk ← Proto.bool
  let dz ← rats B
  let wsp ← rats ((M + 1) * B)
  let wss ← if hasRef then some <$> rats ((M + 1) * B) else pure none
  let wpp ← if hasUnk then some <$> rats ((M + 1) * B) else pure none
  let mut out : Array String := #[]
  for r in [0:M + 1] do
    for b in [0:B] do
      let i := r * B + b
      let s' := match wss with | some a => a.getD i 0 | none => 1
      let p' := match wpp with | some a => a.getD i 0 | none => 1
      out := out.push (fmtRat (wsp.getD i 0))
      out := out.push (fmtRat (dz.getD b 0 * dz.getD b 0 * s' * p'))
  pure (join out)

/-- leave-one-out histogram sums: `histjk N B counts(N*B)` → data(B) then samples(N*B) -/
def hHistJk : R String := do
  let N ← nat
  let B ← nat
  let c ← rats (N * B)
  let mut out : Array String := #[]
  for b in [0:B] do
    out := out.push (fmtRat (sumTo N fun i => c.getD (i * B + b) 0))
  for k in [0:N] do
    for b in [0:B] do
      out := out.push (fmtRat (Spec.looSum N (fun i => c.getD (i * B + b) 0) k))
  pure (join out)

/-- `bin closedRight B edges(B+1) n (z w)*n` → per-bin weight sums by the closed-side rule -/
def hBin : R String := do
  let cr ← Proto.bool
  let B ← nat
  let edges ← rats (B + 1)
  let n ← nat
  let flat ← rats (2 * n)
  let objs := (List.range n).map fun i => (flat.getD (2 * i) 0, flat.getD (2 * i + 1) 0)
  pure (join ((Bin.specSums cr (vec edges) B objs).map fmtRat).toArray)

def handler (kind : String) : R String :=
  match kind with
  | "cf" => hCf
  | "jk" => hJk
  | "cov" => hCov
  | "nz" => hNz
  | "histjk" => hHistJk
  | "cont" => hCont
  | "bin" => hBin
  | _ => throw s!"unknown kind {kind}"

end Yaw.SpecDrv

