/- driver handlers: angular limits accepted by the tree counter (C01) -/
import YawVerif.Model.Proto
import YawVerif.Generated.Tree

open Yaw Yaw.Proto Yaw.Gen

namespace Yaw.Drv.GenTree

def handler (kind : String) : R String :=
  match kind with
  | "anglimits" => do
      let k1 ← nat; let mins ← rats k1
      let k2 ← nat; let maxs ← rats k2
      let pi ← rat
      pure (if angLimitsRaises mins.toList maxs.toList pi then "raise" else "ok")
  | _ => throw s!"unknown kind {kind}"

end Yaw.Drv.GenTree
