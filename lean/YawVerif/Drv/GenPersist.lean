/- driver handlers: persistence (C11) -/
import YawVerif.Drv.Common
import YawVerif.Model.Persist
import YawVerif.Model.Fmt

open Yaw Yaw.Proto Yaw.Drv Yaw.Persist

namespace Yaw.Drv.GenPersist

/-- `members dr rd rr` → for k = 0..3 the member read back (or `-`) -/
def hMembers : R String := do
  let dr ← Proto.bool; let rd ← Proto.bool; let rr ← Proto.bool
  let g := groupsWritten [true, dr, rd, rr]
  let out := (List.range 4).map fun k => match memberRead g k with | some m => toString m | none => "-"
  pure (join out.toArray ++ " | " ++ " ".intercalate (g.map fun x => s!"{x.1}={x.2}"))

/-- `sparse B N counts(B*N*N)` → `i j v0 … vB-1` per stored pair, then `|` and the round-tripped array -/
def hSparse : R String := do
  let B ← nat; let N ← nat
  let cs ← rats (B * N * N)
  let c : Nat → Nat → Nat → Rat := fun b i j => cs.getD ((b * N + i) * N + j) 0
  let sp := toSparse B N c
  let back := fromSparse sp
  let mut out : Array String := #[]
  for e in sp do
    out := out.push (s!"{e.1.1} {e.1.2} " ++ " ".intercalate (e.2.map fmtRat))
  let mut rt : Array String := #[]
  for b in [0:B] do
    for i in [0:N] do
      for j in [0:N] do rt := rt.push (fmtRat (back b i j))
  pure (" ; ".intercalate out.toList ++ " | " ++ join rt)

/-- `fmt w x` → the exact value `format_float_fixed_width(x, w)` writes (what `float(string)` reads back) -/
def hFmt : R String := do
  let w ← nat
  let x ← rat
  pure (fmtRat (Yaw.Fmt.fmtValue w x))

def handler (kind : String) : R String :=
  match kind with
  | "fmt" => hFmt
  | "members" => hMembers
  | "sparse" => hSparse
  | _ => throw s!"unknown kind {kind}"

end Yaw.Drv.GenPersist
