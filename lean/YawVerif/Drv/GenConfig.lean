/- driver handlers: configurations (C15 / C11) -/
import YawVerif.Drv.Common
import YawVerif.Model.Config

open Yaw Yaw.Proto Yaw.Drv Yaw.Cfg

namespace Yaw.Drv.GenConfig

def readUnit : R Cfg.Unit := do
  let t ← tok
  match t with
  | "rad" => pure .rad | "deg" => pure .deg | "arcmin" => pure .arcmin | "arcsec" => pure .arcsec
  | "kpc" => pure .kpc | "Mpc" => pure .Mpc | "kpc/h" => pure .kpc_h | "Mpc/h" => pure .Mpc_h
  | _ => throw s!"unknown unit {t}"

/-- `angle unit r dA dC degToRad` → impl spec -/
def hAngle : R String := do
  let u ← readUnit
  let r ← rat; let dA ← rat; let dC ← rat; let k ← rat
  pure s!"{fmtRat (angleImpl u r dA dC k)} {fmtRat (angleSpec u r dA dC k)}"

/-- `linspace lo hi n` → n+1 edges -/
def hLinspace : R String := do
  let lo ← rat; let hi ← rat; let n ← nat
  pure (join (((List.range (n + 1)).map fun k => fmtRat (linspace lo hi n k)).toArray))

def readMethod : R Method := do
  let t ← tok
  match t with
  | "linear" => pure .linear | "comoving" => pure .comoving | "logspace" => pure .logspace | "custom" => pure .custom
  | _ => throw s!"unknown method {t}"

def optRat : R (Option Rat) := do
  let t ← tok
  if t = "n" then pure none else
    match parseRat t with
    | some q => pure (some q)
    | none => throw s!"expected rational or n, got {t}"

def optEdges : R (Option (List Rat)) := do
  let t ← tok
  if t = "n" then pure none else
    match t.toNat? with
    | some k => do let e ← rats k; pure (some e.toList)
    | none => throw s!"expected count or n, got {t}"

def showBinning (b : Binning) : String :=
  match b with
  | .error => "error"
  | .custom e c => s!"custom {if c then 1 else 0} " ++ " ".intercalate (e.map fmtRat)
  | .generated m a z n c =>
    let ms := match m with | .linear => "linear" | .comoving => "comoving" | .logspace => "logspace" | .custom => "custom"
    s!"generated {ms} {fmtRat a} {fmtRat z} {n} {if c then 1 else 0}"

def readParams : R BinParams := do
  let zmin ← optRat; let zmax ← optRat; let n ← nat; let m ← readMethod; let e ← optEdges; let c ← Proto.bool
  pure ⟨zmin, zmax, n, m, e, c⟩

/-- `create <params>` → outcome -/
def hCreate : R String := do
  let p ← readParams
  pure (showBinning (createBinning p))

/-- `modify <params of the original> <delta>` → outcome of modify and of create(merge) -/
def hModify : R String := do
  let p ← readParams
  let dz1 ← optRat; let dz2 ← optRat
  let dnT ← tok
  let dn := if dnT = "n" then none else dnT.toNat?
  let dmT ← tok
  let dm : Option Method := match dmT with
    | "linear" => some .linear | "comoving" => some .comoving | "logspace" => some .logspace
    | "custom" => some .custom | _ => none
  let de ← optEdges
  let dcT ← tok
  let dc : Option Bool := if dcT = "n" then none else some (dcT = "1")
  let d : Delta := ⟨dz1, dz2, dn, dm, de, dc⟩
  let b := createBinning p
  pure s!"{showBinning (modifyBinning b d)} | {showBinning (createBinning (merge p d))}"

def handler (kind : String) : R String :=
  match kind with
  | "angle" => hAngle
  | "linspace" => hLinspace
  | "create" => hCreate
  | "modify" => hModify
  | _ => throw s!"unknown kind {kind}"

end Yaw.Drv.GenConfig
