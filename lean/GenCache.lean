import YawVerif.Drv.GenCache
def main : IO Unit := do
  Yaw.Proto.loop Yaw.Drv.GenCache.handler (← IO.getStdin) (← IO.getStdout)
