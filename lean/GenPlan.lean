import YawVerif.Drv.GenPlan
def main : IO Unit := do
  Yaw.Proto.loop Yaw.Drv.GenPlan.handler (← IO.getStdin) (← IO.getStdout)
