import YawVerif.Drv.GenGlue
def main : IO Unit := do
  Yaw.Proto.loop Yaw.Drv.GenGlue.handler (← IO.getStdin) (← IO.getStdout)
