import YawVerif.Drv.GenBinning
def main : IO Unit := do
  Yaw.Proto.loop Yaw.Drv.GenBinning.handler (← IO.getStdin) (← IO.getStdout)
