import YawVerif.Drv.GenPersist
def main : IO Unit := do
  Yaw.Proto.loop Yaw.Drv.GenPersist.handler (← IO.getStdin) (← IO.getStdout)
