import YawVerif.Drv.GenTree
def main : IO Unit := do
  Yaw.Proto.loop Yaw.Drv.GenTree.handler (← IO.getStdin) (← IO.getStdout)
