import YawVerif.Drv.GenReader
def main : IO Unit := do
  Yaw.Proto.loop Yaw.Drv.GenReader.handler (← IO.getStdin) (← IO.getStdout)
