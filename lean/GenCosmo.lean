import YawVerif.Drv.GenCosmo
def main : IO Unit := do
  Yaw.Proto.loop Yaw.Drv.GenCosmo.handler (← IO.getStdin) (← IO.getStdout)
