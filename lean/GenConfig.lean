import YawVerif.Drv.GenConfig
def main : IO Unit := do
  Yaw.Proto.loop Yaw.Drv.GenConfig.handler (← IO.getStdin) (← IO.getStdout)
