import YawVerif.Drv.GenPairCount
def main : IO Unit := do
  Yaw.Proto.loop Yaw.Drv.GenPairCount.handler (← IO.getStdin) (← IO.getStdout)
