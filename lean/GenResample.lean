import YawVerif.Drv.GenResample
def main : IO Unit := do
  Yaw.Proto.loop Yaw.Drv.GenResample.handler (← IO.getStdin) (← IO.getStdout)
