import YawVerif.Drv.GenCtors
def main : IO Unit := do
  Yaw.Proto.loop Yaw.Drv.GenCtors.handler (← IO.getStdin) (← IO.getStdout)
