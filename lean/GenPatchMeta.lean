import YawVerif.Drv.GenPatchMeta
def main : IO Unit := do
  Yaw.Proto.loop Yaw.Drv.GenPatchMeta.handler (← IO.getStdin) (← IO.getStdout)
