-- Root of the `YawVerif` library: everything `lake build YawVerif` (setup) must compile.
import YawVerif.Model.Proto
import YawVerif.Drv.Common
import YawVerif.Props.C01
import YawVerif.Props.C03
import YawVerif.Props.C04
import YawVerif.Props.C10
import YawVerif.Props.C12
import YawVerif.Props.C13
import YawVerif.Props.C17
import YawVerif.Drv.Cont
import YawVerif.Drv.Spec
import YawVerif.Drv.GenResample
import YawVerif.Drv.GenBinning
import YawVerif.Drv.GenPairCount
import YawVerif.Drv.GenPatchMeta
