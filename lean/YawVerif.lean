-- This module serves as the root of the `YawVerif` library.
-- Import modules here that should be built as part of the library.
import YawVerif.Basic
