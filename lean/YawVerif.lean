-- Root of the `YawVerif` library: everything `lake build YawVerif` (setup) must compile.
import YawVerif.Model.Proto
import YawVerif.Drv.Common
import YawVerif.Props.C03
import YawVerif.Props.C04
import YawVerif.Props.C10
import YawVerif.Props.C17
import YawVerif.Drv.Cont
