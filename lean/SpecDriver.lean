import YawVerif.Drv.Spec
def main : IO Unit := do
  Yaw.Proto.loop Yaw.SpecDrv.handler (← IO.getStdin) (← IO.getStdout)
