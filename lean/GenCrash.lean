import YawVerif.Drv.GenCrash
def main : IO Unit := do
  Yaw.Proto.loop Yaw.Drv.GenCrash.handler (← IO.getStdin) (← IO.getStdout)
