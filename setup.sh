#!/bin/sh
# One-time offline setup after a fresh restore: optional pure-python deps, translate, build Lean.
set -e
cd "$(dirname "$0")"
export PATH="/opt/veriftools/lean/bin:$PATH"
if [ ! -d .pydeps/mpmath ]; then
  /venv/bin/pip install --no-index --find-links /opt/veriftools/wheels --target .pydeps mpmath >/dev/null 2>&1 || true
fi
/venv/bin/python translator/translate.py --src "${YAW_SRC:-/repo/src}" || true
cd lean
lake build YawVerif 2>&1 | tail -5 || true
# warm the drivers
echo "" | lake env lean --run SpecDriver.lean >/dev/null 2>&1 || true
echo "" | lake env lean --run GenResample.lean >/dev/null 2>&1 || true
exit 0
